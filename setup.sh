#!/bin/sh
# Offline setup: verify tools, parse every specification, warm the Go build cache
# for the injected harness (go test -overlay ... -tags verif) against /repo.
set -e
cd "$(dirname "$0")"
for t in tlc tla-sany pcal tlapm java go python3; do command -v $t >/dev/null || { echo "missing tool $t"; exit 1; }; done
T=$(mktemp -d)
trap 'rm -rf "$T"' EXIT
cp spec/*.tla spec/*.cfg "$T"/ 2>/dev/null || true
( cd "$T" && for f in *.tla; do
    case "$f" in *_proofs.tla) continue;; esac
    tla-sany "$f" >"$T/sany.out" 2>&1 || { echo "SANY failed on $f"; tail -20 "$T/sany.out"; exit 1; }
  done )
python3 tools/selftest.py "$@"
echo "setup ok"
