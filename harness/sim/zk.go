//go:build verif

// Package verifsim holds the wire-level fakes and the scheduler used by the
// injected verification drivers.  It exists only in the go-test overlay
// (/verif/harness/sim -> /repo/internal/verifsim).
package verifsim

// Fake ZooKeeper server speaking the real wire protocol (jute framing), so
// that the unmodified go-zookeeper client and mysync's zkDCS run against it.
// Its transition relation is the one specified in spec/ZkEnv.tla; every
// operation is logged at its linearisation point (under s.mu) and the log is
// validated against that specification (TraceEnv).

import (
	"encoding/binary"
	"errors"
	"fmt"
	"io"
	"net"
	"sort"
	"strings"
	"sync"
	"time"
)

const (
	zkOpCreate       = 1
	zkOpDelete       = 2
	zkOpExists       = 3
	zkOpGetData      = 4
	zkOpSetData      = 5
	zkOpGetChildren  = 8
	zkOpSync         = 9
	zkOpPing         = 11
	zkOpGetChildren2 = 12
	zkOpClose        = -11
	zkOpSetAuth      = 100
	zkOpSetWatches   = 101

	zkOK                      = 0
	zkErrNoNode               = -101
	zkErrBadVersion           = -103
	zkErrNoChildrenEphemerals = -108
	zkErrNodeExists           = -110
	zkErrNotEmpty             = -111
	zkErrSessionExpired       = -112
	zkErrBadArguments         = -8
	zkErrUnimplemented        = -6
	zkErrConnectionLoss       = -4

	zkFlagEphemeral = 1
	zkFlagSequence  = 2
)

// ZkErrName gives the symbolic name used in traces.
func ZkErrName(code int32) string {
	switch code {
	case zkOK:
		return "ok"
	case zkErrNoNode:
		return "nonode"
	case zkErrBadVersion:
		return "badversion"
	case zkErrNoChildrenEphemerals:
		return "nochildrenforephemerals"
	case zkErrNodeExists:
		return "nodeexists"
	case zkErrNotEmpty:
		return "notempty"
	case zkErrSessionExpired:
		return "sessionexpired"
	case zkErrConnectionLoss:
		return "connloss"
	}
	return fmt.Sprintf("err%d", code)
}

type znode struct {
	data     []byte
	version  int32
	cversion int32
	owner    int64 // ephemeral owner session id, 0 = persistent
	czxid    int64
	mzxid    int64
	pzxid    int64
	ctime    int64
	mtime    int64
	children map[string]struct{}
}

type zkSession struct {
	id        int64
	passwd    []byte
	timeoutMs int32
	client    string
	state     string // live | expired | closed
	conn      net.Conn
	expTimer  *time.Timer
	seq       int // connection generation
	lastPath  string
}

// ZkOp describes one operation at its linearisation point.
type ZkOp struct {
	Client  string
	Session int64
	Op      string // Create Delete SetData GetData Exists Children Connect Reattach Expire Close Cut
	Path    string
	Data    string
	Version int32 // request version (-1 any)
	Flags   int32
	Res     string // ok / nonode / ...
	// post-state of the touched znode (after the op)
	PostExists  bool
	PostVersion int32
	PostOwner   int64
	PostData    string
	Children    []string
	Removed     []string // ephemerals removed by Expire/Close
	PreOwnerClient string // Delete: client owning the removed ephemeral ("" none, "-" persistent)
}

// ZkHook lets a scheduler gate mutating operations.  Before returns an
// override error code (0 = proceed) and may block.  hang=true means: never
// answer (the connection stays open and silent).
type ZkHook interface {
	BeforeZk(client string, op string, path string) (errCode int32, hang bool)
	// AfterZk runs after the operation was applied and before the answer is sent
	// (no lock held); returning true drops the answer (connection closed).
	AfterZk(client string, op string, path string, code int32) (drop bool)
}

// ZkServer is the fake ensemble (one logical server).
type ZkServer struct {
	mu       sync.Mutex
	nodes    map[string]*znode
	sessions map[int64]*zkSession
	zxid     int64
	nextSess int64
	cut      map[string]bool // client -> dials refused
	black    map[string]bool // client -> dials hang, traffic dropped
	conns    map[string][]net.Conn
	// AutoExpire: expire a detached session after its timeout (E7)
	AutoExpire bool
	Log        func(op ZkOp)
	Hook       ZkHook
}

func NewZkServer() *ZkServer {
	s := &ZkServer{
		nodes:      map[string]*znode{},
		sessions:   map[int64]*zkSession{},
		nextSess:   0x100,
		cut:        map[string]bool{},
		black:      map[string]bool{},
		conns:      map[string][]net.Conn{},
		AutoExpire: true,
	}
	s.nodes["/"] = &znode{children: map[string]struct{}{}}
	return s
}

func (s *ZkServer) logOp(op ZkOp) {
	if s.Log != nil {
		s.Log(op)
	}
}

// ---- jute helpers ----------------------------------------------------------

type jin struct {
	b   []byte
	off int
	err error
}

func (j *jin) need(n int) bool {
	if j.err != nil {
		return false
	}
	if j.off+n > len(j.b) {
		j.err = io.ErrUnexpectedEOF
		return false
	}
	return true
}
func (j *jin) i32() int32 {
	if !j.need(4) {
		return 0
	}
	v := int32(binary.BigEndian.Uint32(j.b[j.off:]))
	j.off += 4
	return v
}
func (j *jin) i64() int64 {
	if !j.need(8) {
		return 0
	}
	v := int64(binary.BigEndian.Uint64(j.b[j.off:]))
	j.off += 8
	return v
}
func (j *jin) boolean() bool {
	if !j.need(1) {
		return false
	}
	v := j.b[j.off] != 0
	j.off++
	return v
}
func (j *jin) buf() []byte {
	n := j.i32()
	if n < 0 {
		return nil
	}
	if !j.need(int(n)) {
		return nil
	}
	v := append([]byte{}, j.b[j.off:j.off+int(n)]...)
	j.off += int(n)
	return v
}
func (j *jin) str() string { return string(j.buf()) }

type jout struct{ b []byte }

func (o *jout) i32(v int32) { o.b = binary.BigEndian.AppendUint32(o.b, uint32(v)) }
func (o *jout) i64(v int64) { o.b = binary.BigEndian.AppendUint64(o.b, uint64(v)) }
func (o *jout) buf(v []byte) {
	if v == nil {
		o.i32(-1)
		return
	}
	o.i32(int32(len(v)))
	o.b = append(o.b, v...)
}
func (o *jout) str(v string) { o.i32(int32(len(v))); o.b = append(o.b, v...) }

func (o *jout) stat(n *znode) {
	o.i64(n.czxid)
	o.i64(n.mzxid)
	o.i64(n.ctime)
	o.i64(n.mtime)
	o.i32(n.version)
	o.i32(n.cversion)
	o.i32(0)
	o.i64(n.owner)
	o.i32(int32(len(n.data)))
	o.i32(int32(len(n.children)))
	o.i64(n.pzxid)
}

func readFrame(c net.Conn) ([]byte, error) {
	var h [4]byte
	if _, err := io.ReadFull(c, h[:]); err != nil {
		return nil, err
	}
	n := binary.BigEndian.Uint32(h[:])
	if n > 16<<20 {
		return nil, errors.New("frame too large")
	}
	b := make([]byte, n)
	if _, err := io.ReadFull(c, b); err != nil {
		return nil, err
	}
	return b, nil
}

func writeFrame(c net.Conn, b []byte) error {
	out := make([]byte, 4+len(b))
	binary.BigEndian.PutUint32(out, uint32(len(b)))
	copy(out[4:], b)
	_, err := c.Write(out)
	return err
}

// ---- network control --------------------------------------------------------

// Dialer returns the dial function for one client (mysync instance).
func (s *ZkServer) Dialer(client string) func(network, address string, timeout time.Duration) (net.Conn, error) {
	return func(network, address string, timeout time.Duration) (net.Conn, error) {
		s.mu.Lock()
		cut := s.cut[client]
		black := s.black[client]
		s.mu.Unlock()
		if cut {
			return nil, fmt.Errorf("dial %s: connection refused (fake)", address)
		}
		if black {
			if timeout <= 0 {
				timeout = time.Second
			}
			time.Sleep(timeout)
			return nil, fmt.Errorf("dial %s: i/o timeout (fake)", address)
		}
		cl, sv := net.Pipe()
		s.mu.Lock()
		s.conns[client] = append(s.conns[client], sv)
		s.mu.Unlock()
		go s.serve(sv, client)
		return cl, nil
	}
}

// Cut closes every connection of the client and refuses new ones.
func (s *ZkServer) Cut(client string) {
	s.mu.Lock()
	s.cut[client] = true
	cs := s.conns[client]
	s.conns[client] = nil
	s.mu.Unlock()
	for _, c := range cs {
		c.Close()
	}
}

// Blackhole: existing connections stay open but nothing is answered; dials hang.
func (s *ZkServer) Blackhole(client string) {
	s.mu.Lock()
	s.black[client] = true
	s.mu.Unlock()
}

// Heal lets the client connect again.
func (s *ZkServer) Heal(client string) {
	s.mu.Lock()
	wasBlack := s.black[client]
	s.cut[client] = false
	s.black[client] = false
	var cs []net.Conn
	if wasBlack {
		// connections that were silently dropping traffic are dead for good
		cs = s.conns[client]
		s.conns[client] = nil
	}
	s.mu.Unlock()
	for _, c := range cs {
		c.Close()
	}
}

// ---- session handling -------------------------------------------------------

func (s *ZkServer) endSessionLocked(sess *zkSession, how string) {
	if sess.state != "live" {
		return
	}
	sess.state = how
	if sess.expTimer != nil {
		sess.expTimer.Stop()
		sess.expTimer = nil
	}
	var removed []string
	for p, n := range s.nodes {
		if n.owner == sess.id {
			removed = append(removed, p)
		}
	}
	sort.Strings(removed)
	for _, p := range removed {
		s.zxid++
		s.removeLocked(p)
	}
	opn := "Expire"
	if how == "closed" {
		opn = "Close"
	}
	s.logOp(ZkOp{Client: sess.client, Session: sess.id, Op: opn, Res: "ok", Removed: removed})
}

// ExpireSession expires a session now (scheduler action).
func (s *ZkServer) ExpireSession(id int64) {
	s.mu.Lock()
	sess := s.sessions[id]
	var c net.Conn
	if sess != nil {
		s.endSessionLocked(sess, "expired")
		c = sess.conn
		sess.conn = nil
	}
	s.mu.Unlock()
	if c != nil {
		c.Close()
	}
}

// ExpireClient expires every live session of a client; returns how many.
func (s *ZkServer) ExpireClient(client string) int {
	s.mu.Lock()
	var ids []int64
	for id, sess := range s.sessions {
		if sess.client == client && sess.state == "live" {
			ids = append(ids, id)
		}
	}
	s.mu.Unlock()
	for _, id := range ids {
		s.ExpireSession(id)
	}
	return len(ids)
}

// LiveSessions lists the live session ids of a client.
func (s *ZkServer) LiveSessions(client string) []int64 {
	s.mu.Lock()
	defer s.mu.Unlock()
	var ids []int64
	for id, sess := range s.sessions {
		if sess.client == client && sess.state == "live" {
			ids = append(ids, id)
		}
	}
	sort.Slice(ids, func(i, j int) bool { return ids[i] < ids[j] })
	return ids
}

func (s *ZkServer) detach(sess *zkSession, seq int) {
	s.mu.Lock()
	defer s.mu.Unlock()
	if sess.seq != seq || sess.state != "live" {
		return
	}
	sess.conn = nil
	s.logOp(ZkOp{Client: sess.client, Session: sess.id, Op: "Detach", Res: "ok"})
	if s.AutoExpire && sess.expTimer == nil {
		id := sess.id
		sess.expTimer = time.AfterFunc(time.Duration(sess.timeoutMs)*time.Millisecond, func() {
			s.mu.Lock()
			se := s.sessions[id]
			if se != nil && se.conn == nil {
				se.expTimer = nil
				s.endSessionLocked(se, "expired")
			}
			s.mu.Unlock()
		})
	}
}

// ---- tree -------------------------------------------------------------------

func parentOf(p string) string {
	i := strings.LastIndexByte(p, '/')
	if i <= 0 {
		return "/"
	}
	return p[:i]
}

func baseOf(p string) string {
	return p[strings.LastIndexByte(p, '/')+1:]
}

func validPath(p string) bool {
	if p == "/" {
		return true
	}
	if p == "" || p[0] != '/' || strings.HasSuffix(p, "/") || strings.Contains(p, "//") {
		return false
	}
	return true
}

func (s *ZkServer) removeLocked(p string) {
	delete(s.nodes, p)
	if par := s.nodes[parentOf(p)]; par != nil {
		delete(par.children, baseOf(p))
		par.cversion++
		par.pzxid = s.zxid
	}
}

func (s *ZkServer) post(op *ZkOp, p string) {
	if n := s.nodes[p]; n != nil {
		op.PostExists = true
		op.PostVersion = n.version
		op.PostOwner = n.owner
		op.PostData = string(n.data)
	}
}

// ---- direct (out-of-band) access for the harness -----------------------------

// Snapshot returns path -> data for the whole tree (test oracle / ground truth).
func (s *ZkServer) Snapshot() map[string]string {
	s.mu.Lock()
	defer s.mu.Unlock()
	m := map[string]string{}
	for p, n := range s.nodes {
		m[p] = string(n.data)
	}
	return m
}

// NodeInfo returns (data, version, owner, exists).
func (s *ZkServer) NodeInfo(p string) (string, int32, int64, bool) {
	s.mu.Lock()
	defer s.mu.Unlock()
	n := s.nodes[p]
	if n == nil {
		return "", 0, 0, false
	}
	return string(n.data), n.version, n.owner, true
}

// OwnerClient names the client whose live session owns the ephemeral node p:
// "" if the node is absent, "-" if it is persistent.
func (s *ZkServer) OwnerClient(p string) string {
	s.mu.Lock()
	defer s.mu.Unlock()
	n := s.nodes[p]
	if n == nil {
		return ""
	}
	if n.owner == 0 {
		return "-"
	}
	if se := s.sessions[n.owner]; se != nil {
		return se.client
	}
	return "?"
}

// ChildrenOf lists children names.
func (s *ZkServer) ChildrenOf(p string) []string {
	s.mu.Lock()
	defer s.mu.Unlock()
	n := s.nodes[p]
	if n == nil {
		return nil
	}
	var r []string
	for c := range n.children {
		r = append(r, c)
	}
	sort.Strings(r)
	return r
}

// Put creates or overwrites a persistent node (parents created) - the
// "external tool / operator" writing to the tree.  Logged as op ToolSet.
func (s *ZkServer) Put(p string, data string) {
	s.mu.Lock()
	defer s.mu.Unlock()
	s.putLocked(p, data)
	op := ZkOp{Client: "tool", Op: "ToolSet", Path: p, Data: data, Res: "ok"}
	s.post(&op, p)
	s.logOp(op)
}

func (s *ZkServer) putLocked(p string, data string) {
	parts := strings.Split(strings.Trim(p, "/"), "/")
	cur := ""
	for i, part := range parts {
		par := cur
		if par == "" {
			par = "/"
		}
		cur = cur + "/" + part
		n := s.nodes[cur]
		if n == nil {
			s.zxid++
			now := time.Now().UnixMilli()
			n = &znode{children: map[string]struct{}{}, czxid: s.zxid, mzxid: s.zxid, pzxid: s.zxid, ctime: now, mtime: now}
			s.nodes[cur] = n
			s.nodes[par].children[part] = struct{}{}
			s.nodes[par].cversion++
		}
		if i == len(parts)-1 {
			s.zxid++
			n.data = []byte(data)
			n.version++
			n.mzxid = s.zxid
		}
	}
}

// Remove deletes a node and its subtree out of band (operator).  Logged as ToolDelete.
func (s *ZkServer) Remove(p string) {
	s.mu.Lock()
	defer s.mu.Unlock()
	var victims []string
	for q := range s.nodes {
		if q == p || strings.HasPrefix(q, p+"/") {
			victims = append(victims, q)
		}
	}
	sort.Slice(victims, func(i, j int) bool { return len(victims[i]) > len(victims[j]) })
	for _, q := range victims {
		s.zxid++
		s.removeLocked(q)
	}
	s.logOp(ZkOp{Client: "tool", Op: "ToolDelete", Path: p, Res: "ok", Removed: victims})
}

// ---- request processing --------------------------------------------------------

func (s *ZkServer) serve(c net.Conn, client string) {
	defer c.Close()
	fr, err := readFrame(c)
	if err != nil {
		return
	}
	in := &jin{b: fr}
	_ = in.i32() // protocol version
	_ = in.i64() // last zxid seen
	timeout := in.i32()
	sid := in.i64()
	passwd := in.buf()
	if in.err != nil {
		return
	}
	s.mu.Lock()
	if s.black[client] {
		s.mu.Unlock()
		// never answer
		io.Copy(io.Discard, c)
		return
	}
	var sess *zkSession
	if sid == 0 {
		s.nextSess++
		sess = &zkSession{id: s.nextSess, passwd: []byte(fmt.Sprintf("pw-%012d", s.nextSess)), timeoutMs: timeout, client: client, state: "live"}
		s.sessions[sess.id] = sess
		s.logOp(ZkOp{Client: client, Session: sess.id, Op: "Connect", Res: "ok"})
	} else {
		sess = s.sessions[sid]
		if sess == nil || sess.state != "live" || string(sess.passwd) != string(passwd) {
			s.logOp(ZkOp{Client: client, Session: sid, Op: "Reattach", Res: "sessionexpired"})
			s.mu.Unlock()
			o := &jout{}
			o.i32(0)
			o.i32(0)
			o.i64(0)
			o.buf(make([]byte, 16))
			writeFrame(c, o.b)
			return
		}
		if sess.expTimer != nil {
			sess.expTimer.Stop()
			sess.expTimer = nil
		}
		if old := sess.conn; old != nil {
			old.Close()
		}
		s.logOp(ZkOp{Client: client, Session: sess.id, Op: "Reattach", Res: "ok"})
	}
	sess.conn = c
	sess.seq++
	seq := sess.seq
	s.mu.Unlock()
	o := &jout{}
	o.i32(0)
	o.i32(sess.timeoutMs)
	o.i64(sess.id)
	o.buf(sess.passwd)
	if writeFrame(c, o.b) != nil {
		s.detach(sess, seq)
		return
	}
	for {
		fr, err := readFrame(c)
		if err != nil {
			s.detach(sess, seq)
			return
		}
		in := &jin{b: fr}
		xid := in.i32()
		op := in.i32()
		s.mu.Lock()
		black := s.black[client]
		s.mu.Unlock()
		if black {
			continue // drop silently
		}
		if op == zkOpPing {
			h := &jout{}
			h.i32(-2)
			h.i64(s.curZxid())
			h.i32(0)
			if writeFrame(c, h.b) != nil {
				s.detach(sess, seq)
				return
			}
			continue
		}
		code, body, closeAfter, hang := s.handle(sess, client, op, in)
		if hang {
			continue
		}
		if lp := s.takeLastPath(sess); s.Hook != nil && lp != "" {
			if s.Hook.AfterZk(client, opName(op), lp, code) {
				s.detach(sess, seq)
				return
			}
		}
		h := &jout{}
		h.i32(xid)
		h.i64(s.curZxid())
		h.i32(code)
		if code == 0 {
			h.b = append(h.b, body...)
		}
		if writeFrame(c, h.b) != nil {
			s.detach(sess, seq)
			return
		}
		if closeAfter {
			return
		}
	}
}

func (s *ZkServer) takeLastPath(sess *zkSession) string {
	s.mu.Lock()
	defer s.mu.Unlock()
	p := sess.lastPath
	sess.lastPath = ""
	return p
}

func (s *ZkServer) curZxid() int64 {
	s.mu.Lock()
	defer s.mu.Unlock()
	return s.zxid
}

func opName(op int32) string {
	switch op {
	case zkOpCreate:
		return "Create"
	case zkOpDelete:
		return "Delete"
	case zkOpSetData:
		return "SetData"
	case zkOpGetData:
		return "GetData"
	case zkOpExists:
		return "Exists"
	case zkOpGetChildren, zkOpGetChildren2:
		return "Children"
	case zkOpClose:
		return "Close"
	}
	return fmt.Sprintf("op%d", op)
}

func (s *ZkServer) handle(sess *zkSession, client string, op int32, in *jin) (code int32, body []byte, closeAfter bool, hang bool) {
	// decode first (outside the lock), gate, then apply atomically
	var path, data string
	var version, flags int32
	switch op {
	case zkOpCreate:
		path = in.str()
		data = string(in.buf())
		nacl := in.i32()
		for i := int32(0); i < nacl; i++ {
			in.i32()
			in.str()
			in.str()
		}
		flags = in.i32()
	case zkOpDelete:
		path = in.str()
		version = in.i32()
	case zkOpSetData:
		path = in.str()
		data = string(in.buf())
		version = in.i32()
	case zkOpGetData, zkOpExists, zkOpGetChildren, zkOpGetChildren2:
		path = in.str()
		in.boolean()
	case zkOpSync:
		path = in.str()
	case zkOpClose, zkOpSetAuth, zkOpSetWatches:
	default:
		return zkErrUnimplemented, nil, false, false
	}
	if in.err != nil {
		return zkErrBadArguments, nil, false, false
	}
	mutating := op == zkOpCreate || op == zkOpDelete || op == zkOpSetData
	if s.Hook != nil && (mutating || op == zkOpGetData || op == zkOpGetChildren2 || op == zkOpGetChildren || op == zkOpExists) {
		if ec, hg := s.Hook.BeforeZk(client, opName(op), path); hg {
			return 0, nil, false, true
		} else if ec != 0 {
			s.mu.Lock()
			s.logOp(ZkOp{Client: client, Session: sess.id, Op: opName(op), Path: path, Data: data, Version: version, Flags: flags, Res: "injected:" + ZkErrName(ec)})
			s.mu.Unlock()
			return ec, nil, false, false
		}
	}
	s.mu.Lock()
	defer s.mu.Unlock()
	if sess.state != "live" {
		return zkErrSessionExpired, nil, false, false
	}
	out := &jout{}
	rec := ZkOp{Client: client, Session: sess.id, Op: opName(op), Path: path, Data: data, Version: version, Flags: flags}
	finish := func(c int32) (int32, []byte, bool, bool) {
		sess.lastPath = path
		rec.Res = ZkErrName(c)
		s.post(&rec, path)
		s.logOp(rec)
		return c, out.b, false, false
	}
	switch op {
	case zkOpCreate:
		if !validPath(path) || path == "/" {
			return finish(zkErrBadArguments)
		}
		if flags&zkFlagSequence != 0 {
			return finish(zkErrUnimplemented)
		}
		if s.nodes[path] != nil {
			return finish(zkErrNodeExists)
		}
		par := s.nodes[parentOf(path)]
		if par == nil {
			return finish(zkErrNoNode)
		}
		if par.owner != 0 {
			return finish(zkErrNoChildrenEphemerals)
		}
		s.zxid++
		now := time.Now().UnixMilli()
		n := &znode{data: []byte(data), children: map[string]struct{}{}, czxid: s.zxid, mzxid: s.zxid, pzxid: s.zxid, ctime: now, mtime: now}
		if flags&zkFlagEphemeral != 0 {
			n.owner = sess.id
		}
		s.nodes[path] = n
		par.children[baseOf(path)] = struct{}{}
		par.cversion++
		par.pzxid = s.zxid
		out.str(path)
		return finish(zkOK)
	case zkOpDelete:
		n := s.nodes[path]
		if n == nil {
			return finish(zkErrNoNode)
		}
		if version != -1 && version != n.version {
			return finish(zkErrBadVersion)
		}
		if len(n.children) > 0 {
			return finish(zkErrNotEmpty)
		}
		rec.PreOwnerClient = "-"
		if n.owner != 0 {
			rec.PreOwnerClient = "?"
			if se := s.sessions[n.owner]; se != nil {
				rec.PreOwnerClient = se.client
			}
		}
		s.zxid++
		s.removeLocked(path)
		return finish(zkOK)
	case zkOpSetData:
		n := s.nodes[path]
		if n == nil {
			return finish(zkErrNoNode)
		}
		if version != -1 && version != n.version {
			return finish(zkErrBadVersion)
		}
		s.zxid++
		n.data = []byte(data)
		n.version++
		n.mzxid = s.zxid
		n.mtime = time.Now().UnixMilli()
		out.stat(n)
		return finish(zkOK)
	case zkOpGetData:
		n := s.nodes[path]
		if n == nil {
			return finish(zkErrNoNode)
		}
		out.buf(n.data)
		out.stat(n)
		return finish(zkOK)
	case zkOpExists:
		n := s.nodes[path]
		if n == nil {
			return finish(zkErrNoNode)
		}
		out.stat(n)
		return finish(zkOK)
	case zkOpGetChildren, zkOpGetChildren2:
		n := s.nodes[path]
		if n == nil {
			return finish(zkErrNoNode)
		}
		var ch []string
		for c := range n.children {
			ch = append(ch, c)
		}
		sort.Strings(ch)
		out.i32(int32(len(ch)))
		for _, c := range ch {
			out.str(c)
		}
		if op == zkOpGetChildren2 {
			out.stat(n)
		}
		rec.Children = ch
		return finish(zkOK)
	case zkOpSync:
		out.str(path)
		return zkOK, out.b, false, false
	case zkOpSetAuth, zkOpSetWatches:
		return zkOK, nil, false, false
	case zkOpClose:
		s.endSessionLocked(sess, "closed")
		return zkOK, nil, true, false
	}
	return zkErrUnimplemented, nil, false, false
}

// StaticHosts is a trivial zk.HostProvider (no DNS).
type StaticHosts struct {
	servers []string
	i       int
}

func (h *StaticHosts) Init(servers []string) error { h.servers = servers; return nil }
func (h *StaticHosts) Len() int                    { return len(h.servers) }
func (h *StaticHosts) Next() (string, bool) {
	h.i++
	return h.servers[(h.i-1)%len(h.servers)], h.i > len(h.servers) && (h.i-1)%len(h.servers) == 0
}
func (h *StaticHosts) Connected() { h.i = 0 }
