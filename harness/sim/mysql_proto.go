//go:build verif

package verifsim

// Minimal MySQL server side of the wire protocol (handshake v10, COM_QUERY,
// COM_PING, COM_QUIT, COM_STMT_* for prepared statements without parameters
// binding beyond simple integers/strings), enough for database/sql +
// go-sql-driver/mysql as used by mysync.

import (
	"encoding/binary"
	"errors"
	"fmt"
	"io"
	"net"
	"strconv"
)

const (
	myComQuit        = 0x01
	myComInitDB      = 0x02
	myComQuery       = 0x03
	myComPing        = 0x0e
	myComStmtPrepare = 0x16
	myComStmtExecute = 0x17
	myComStmtClose   = 0x19
	myComResetConn   = 0x1f

	myTypeLongLong  = 0x08
	myTypeDouble    = 0x05
	myTypeVarString = 0xfd
)

// MyCol describes one result column.
type MyCol struct {
	Name string
	Type byte // myType*
}

// MyResult is a text result set; a nil cell is NULL.
type MyResult struct {
	Cols []MyCol
	Rows [][]*string
}

// MyErr is a server error answer.
type MyErr struct {
	Code  uint16
	State string
	Msg   string
}

func (e *MyErr) Error() string { return fmt.Sprintf("Error %d: %s", e.Code, e.Msg) }

func sp(s string) *string { return &s }
func ip(i int64) *string  { s := strconv.FormatInt(i, 10); return &s }

type myConn struct {
	c   net.Conn
	seq byte
}

func (m *myConn) readPacket() ([]byte, error) {
	var h [4]byte
	if _, err := io.ReadFull(m.c, h[:]); err != nil {
		return nil, err
	}
	n := int(h[0]) | int(h[1])<<8 | int(h[2])<<16
	m.seq = h[3] + 1
	b := make([]byte, n)
	if _, err := io.ReadFull(m.c, b); err != nil {
		return nil, err
	}
	if n == 0xffffff {
		return nil, errors.New("multi-packet payloads not supported by the fake")
	}
	return b, nil
}

func (m *myConn) writePacket(b []byte) error {
	out := make([]byte, 4+len(b))
	out[0] = byte(len(b))
	out[1] = byte(len(b) >> 8)
	out[2] = byte(len(b) >> 16)
	out[3] = m.seq
	m.seq++
	copy(out[4:], b)
	_, err := m.c.Write(out)
	return err
}

func lenenc(b []byte, n uint64) []byte {
	switch {
	case n < 251:
		return append(b, byte(n))
	case n < 1<<16:
		return append(b, 0xfc, byte(n), byte(n>>8))
	case n < 1<<24:
		return append(b, 0xfd, byte(n), byte(n>>8), byte(n>>16))
	}
	b = append(b, 0xfe)
	return binary.LittleEndian.AppendUint64(b, n)
}

func lenencStr(b []byte, s string) []byte {
	b = lenenc(b, uint64(len(s)))
	return append(b, s...)
}

func (m *myConn) writeOK() error {
	return m.writePacket([]byte{0x00, 0x00, 0x00, 0x02, 0x00, 0x00, 0x00})
}

func (m *myConn) writeEOF() error {
	return m.writePacket([]byte{0xfe, 0x00, 0x00, 0x02, 0x00})
}

func (m *myConn) writeErr(e *MyErr) error {
	st := e.State
	if len(st) != 5 {
		st = "HY000"
	}
	b := []byte{0xff, byte(e.Code), byte(e.Code >> 8), '#'}
	b = append(b, st...)
	b = append(b, e.Msg...)
	return m.writePacket(b)
}

func colDef(c MyCol) []byte {
	var b []byte
	b = lenencStr(b, "def")
	b = lenencStr(b, "")
	b = lenencStr(b, "")
	b = lenencStr(b, "")
	b = lenencStr(b, c.Name)
	b = lenencStr(b, c.Name)
	b = append(b, 0x0c)
	charset := uint16(45) // utf8mb4
	if c.Type != myTypeVarString {
		charset = 63 // binary
	}
	b = append(b, byte(charset), byte(charset>>8))
	b = append(b, 0xff, 0xff, 0x00, 0x00) // column length
	b = append(b, c.Type)
	b = append(b, 0x00, 0x00) // flags
	b = append(b, 0x00)       // decimals
	b = append(b, 0x00, 0x00)
	return b
}

func (m *myConn) writeResult(r *MyResult) error {
	if err := m.writePacket(lenenc(nil, uint64(len(r.Cols)))); err != nil {
		return err
	}
	for _, c := range r.Cols {
		if err := m.writePacket(colDef(c)); err != nil {
			return err
		}
	}
	if err := m.writeEOF(); err != nil {
		return err
	}
	for _, row := range r.Rows {
		var b []byte
		for _, cell := range row {
			if cell == nil {
				b = append(b, 0xfb)
			} else {
				b = lenencStr(b, *cell)
			}
		}
		if err := m.writePacket(b); err != nil {
			return err
		}
	}
	return m.writeEOF()
}

// handshake; returns the user name sent by the client.  If greetErr != nil the
// server answers the connection attempt with that error (e.g. 1040).
func (m *myConn) handshake(connID uint32, greetErr *MyErr) (string, error) {
	m.seq = 0
	if greetErr != nil {
		m.writeErr(greetErr)
		return "", greetErr
	}
	var b []byte
	b = append(b, 10)
	b = append(b, "8.0.32-verifsim"...)
	b = append(b, 0)
	b = binary.LittleEndian.AppendUint32(b, connID)
	b = append(b, "abcdefgh"...)
	b = append(b, 0)
	// CLIENT_LONG_PASSWORD|CLIENT_CONNECT_WITH_DB|CLIENT_PROTOCOL_41|CLIENT_TRANSACTIONS|CLIENT_SECURE_CONNECTION
	capLow := uint16(0x0001 | 0x0008 | 0x0200 | 0x2000 | 0x8000)
	// CLIENT_MULTI_RESULTS(0x20000)|CLIENT_PLUGIN_AUTH(0x80000)
	capHigh := uint16((0x00020000 | 0x00080000) >> 16)
	b = append(b, byte(capLow), byte(capLow>>8))
	b = append(b, 45)
	b = append(b, 0x02, 0x00)
	b = append(b, byte(capHigh), byte(capHigh>>8))
	b = append(b, 21)
	b = append(b, make([]byte, 10)...)
	b = append(b, "ijklmnopqrst"...)
	b = append(b, 0)
	b = append(b, "mysql_native_password"...)
	b = append(b, 0)
	if err := m.writePacket(b); err != nil {
		return "", err
	}
	resp, err := m.readPacket()
	if err != nil {
		return "", err
	}
	if len(resp) < 33 {
		return "", errors.New("short handshake response")
	}
	rest := resp[32:]
	user := ""
	for i, ch := range rest {
		if ch == 0 {
			user = string(rest[:i])
			break
		}
	}
	return user, m.writeOK()
}

