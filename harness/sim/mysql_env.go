//go:build verif

package verifsim

// Fake MySQL servers: the state and transition relation of spec/MySQLEnv.tla,
// reached through the real wire protocol.  One MyWorld holds every server of a
// scenario; a statement is applied atomically under w.mu (its linearisation
// point) after the scheduler hook has let it through.

import (
	"syscall"
	"os"
	"context"
	"fmt"
	"net"
	"regexp"
	"sort"
	"strconv"
	"strings"
	"sync"
	"sync/atomic"
	"time"
)

// Txn is "origin:n" (origin = host name where it was first committed).
type Txn string

func (t Txn) Origin() string { return string(t)[:strings.IndexByte(string(t), ':')] }
func (t Txn) Num() int {
	n, _ := strconv.Atoi(string(t)[strings.IndexByte(string(t), ':')+1:])
	return n
}

type TxnSet map[Txn]struct{}

func (s TxnSet) Has(t Txn) bool { _, ok := s[t]; return ok }
func (s TxnSet) Add(t Txn)      { s[t] = struct{}{} }
func (s TxnSet) Clone() TxnSet {
	r := TxnSet{}
	for t := range s {
		r[t] = struct{}{}
	}
	return r
}
func (s TxnSet) Sorted() []string {
	r := make([]string, 0, len(s))
	for t := range s {
		r = append(r, string(t))
	}
	sort.Slice(r, func(i, j int) bool {
		a, b := Txn(r[i]), Txn(r[j])
		if a.Origin() != b.Origin() {
			return a.Origin() < b.Origin()
		}
		return a.Num() < b.Num()
	})
	return r
}
func (s TxnSet) SubsetOf(o TxnSet) bool {
	for t := range s {
		if !o.Has(t) {
			return false
		}
	}
	return true
}
func NewTxnSet(ts ...string) TxnSet {
	r := TxnSet{}
	for _, t := range ts {
		r.Add(Txn(t))
	}
	return r
}

// MyHost is the state of one MySQL server (variables of MySQLEnv.tla).
type MyHost struct {
	Name    string
	Up      bool
	Net     string // ok | isolated (hang) | dubious (1040 at handshake) | refuse
	RO      string // rw | ro | sro
	Offline bool
	Src     string // replication source host, "" = not a replica
	IO      string // Yes | No | Connecting
	SQL     bool
	IOErrno int
	SQLErrno int
	Exec    TxnSet // gtid_executed
	Recv    TxnSet // relay log: received, not yet applied
	RecvAll TxnSet // Retrieved_Gtid_Set (since last CHANGE/RESET)
	Discarded []string // unapplied relay log content dropped by the last RESET REPLICA ALL / CHANGE SOURCE
	Pend    TxnSet // in binlog, waiting for semi-sync ack
	SsM, SsS, SsSAct bool
	Wsc     int
	Flush   int // innodb_flush_log_at_trx_commit
	SyncBin int // sync_binlog
	Lag     float64 // Seconds_Behind_Source while both threads run
	LagNull bool    // report NULL even while running
	ExtraDataLag int64 // bytes the IO thread is behind beyond missing txns
	StartedAt time.Time
	NextTxn int
	SemiSyncPlugin bool
	LockWait int // session lock_wait_timeout of the last SET SESSION (per connection in reality; here per caller)
	Stmts   []string // statement log "by:stmt(arg)=res"
	Events  []string // SLAVESIDE_DISABLED events "schema.name"
	ReplMonTS float64 // unix ts in repl_mon table; 0 = table missing
	IOFailCount int // the next n starts of the IO thread fail with a transient error (1045)
	KillIneffective bool // KILL does not release sessions waiting for a semi-sync ack (stuck commits)
	Stalled bool // both replication threads report "running" but nothing is fetched or applied (slow disk, long transaction)
}

// HostView is the cheap projected state written into traces.
type HostView struct {
	Up      bool     `json:"up"`
	Net     string   `json:"net"`
	RO      string   `json:"ro"`
	Offline bool     `json:"offline"`
	Src     string   `json:"src"`
	IO      string   `json:"io"`
	SQL     bool     `json:"sql"`
	IOErr   int      `json:"ioerr"`
	SQLErr  int      `json:"sqlerr"`
	Exec    []string `json:"exec"`
	Recv    []string `json:"recv"`
	Pend    []string `json:"pend"`
	SsM     bool     `json:"ssm"`
	SsS     bool     `json:"sss"`
	SsSAct  bool     `json:"sssact"`
	Wsc     int      `json:"wsc"`
	Dur     string   `json:"dur"`
	DataLag int64    `json:"datalag"`
}

func (h *MyHost) View() HostView {
	dur := "safe"
	if h.Flush != 1 || h.SyncBin != 1 {
		dur = fmt.Sprintf("%d/%d", h.Flush, h.SyncBin)
	}
	return HostView{Up: h.Up, Net: h.Net, RO: h.RO, Offline: h.Offline, Src: h.Src, IO: h.IO, SQL: h.SQL,
		IOErr: h.IOErrno, SQLErr: h.SQLErrno, Exec: h.Exec.Sorted(), Recv: h.Recv.Sorted(), Pend: h.Pend.Sorted(),
		SsM: h.SsM, SsS: h.SsS, SsSAct: h.SsSAct, Wsc: h.Wsc, Dur: dur}
}

// DataLagOf: bytes the IO thread of r is behind its source's binlog end (ground truth).
func (w *MyWorld) DataLagOf(r *MyHost) int64 {
	src := w.Hosts[r.Src]
	if src == nil {
		return 0
	}
	missing := 0
	for t := range w.binlogOf(src) {
		if !r.Exec.Has(t) && !r.Recv.Has(t) {
			missing++
		}
	}
	return 1000*int64(missing) + r.ExtraDataLag
}

// SQLCall is what the scheduler hook sees for each statement.
type SQLCall struct {
	By   string // mysync instance (from the MySQL user name) or "" for others
	At   string // target host
	Stmt string // statement kind
	Arg  string
	Mut  bool
}

// Decision of the hook for a call.
type Decision struct {
	Err   *MyErr        // answer this error instead of executing
	Hang  bool          // never answer
	Delay time.Duration // answer after this (virtual) delay
	Drop  bool          // close the connection instead of answering
}

// MyHook gates statements.  Before may block (scheduler); After runs under no lock.
type MyHook interface {
	BeforeSQL(c *SQLCall) Decision
	AfterSQL(c *SQLCall, res string)
}

// TraceEvent is one line of the recorded trace.
type TraceEvent struct {
	N    int       `json:"n"`
	T    int64     `json:"t"` // virtual ms since scenario start
	K    string    `json:"k"` // sql | zk | app | env
	By   string    `json:"by"`
	At   string    `json:"at"`
	Op   string    `json:"op"`
	Arg  string    `json:"arg"`
	Res  string    `json:"res"`
	Mut  bool      `json:"mut"`
	Post *HostView `json:"post,omitempty"`
	Val  string    `json:"val,omitempty"`
	Chg  bool      `json:"chg,omitempty"` // sql: the statement changed the server's state
}

// MyWorld is the set of servers plus the client workload bookkeeping.
type MyWorld struct {
	mu     sync.Mutex
	Hosts  map[string]*MyHost
	Order  []string
	Acked  TxnSet
	AckedBy map[Txn]string
	AckLog []string // "host:txn" in order
	Hook   MyHook
	Log    func(ev TraceEvent)
	connID uint32
	openConns atomic.Int64
	conns  map[string][]net.Conn // by target host
	instConns map[string][]net.Conn // by instance
	deadInst map[string]bool
	// network partitions between an instance (mysync on host X) and a MySQL host
	blocked map[string]bool // "inst>host"
	severed map[string]bool // "inst>host": statements fail at once
	Version [3]int
	done    chan struct{}
}

// Shutdown releases every parked (hanging) statement so that goroutines can exit.
func (w *MyWorld) Shutdown() {
	w.mu.Lock()
	select {
	case <-w.done:
	default:
		close(w.done)
	}
	w.mu.Unlock()
}

func (w *MyWorld) sleepOrDone(d time.Duration) {
	t := time.NewTimer(d)
	defer t.Stop()
	select {
	case <-w.done:
	case <-t.C:
	}
}

func NewMyWorld(names ...string) *MyWorld {
	w := &MyWorld{Hosts: map[string]*MyHost{}, Acked: TxnSet{}, AckedBy: map[Txn]string{}, conns: map[string][]net.Conn{},
		instConns: map[string][]net.Conn{}, deadInst: map[string]bool{}, blocked: map[string]bool{}, Version: [3]int{8, 0, 32}, done: make(chan struct{})}
	for _, n := range names {
		w.AddHost(n)
	}
	return w
}

func (w *MyWorld) AddHost(n string) *MyHost {
	h := &MyHost{Name: n, Up: true, Net: "ok", RO: "sro", IO: "No", Exec: TxnSet{}, Recv: TxnSet{}, RecvAll: TxnSet{}, Pend: TxnSet{},
		Wsc: 1, Flush: 1, SyncBin: 1, StartedAt: time.Now().Add(-time.Hour), SemiSyncPlugin: true, LockWait: 31536000}
	w.Hosts[n] = h
	w.Order = append(w.Order, n)
	return h
}

func (w *MyWorld) TryLock() bool { return w.mu.TryLock() }
func (w *MyWorld) Lock()   { w.mu.Lock() }
func (w *MyWorld) Unlock() { w.mu.Unlock() }

func (w *MyWorld) H(n string) *MyHost { return w.Hosts[n] }

func (w *MyWorld) logEv(ev TraceEvent) {
	if w.Log != nil {
		w.Log(ev)
	}
}

// HostUUID maps host name -> server uuid text (deterministic).
func HostUUID(name string) string {
	hex := fmt.Sprintf("%x", []byte(name))
	if len(hex) > 12 {
		hex = hex[len(hex)-12:]
	}
	return "00000000-0000-0000-0000-" + strings.Repeat("0", 12-len(hex)) + hex
}

// GtidText renders a set in MySQL syntax.
func GtidText(s TxnSet) string {
	by := map[string][]int{}
	for t := range s {
		by[t.Origin()] = append(by[t.Origin()], t.Num())
	}
	var origins []string
	for o := range by {
		origins = append(origins, o)
	}
	sort.Slice(origins, func(i, j int) bool { return HostUUID(origins[i]) < HostUUID(origins[j]) })
	var parts []string
	for _, o := range origins {
		ns := by[o]
		sort.Ints(ns)
		p := HostUUID(o)
		for i := 0; i < len(ns); {
			j := i
			for j+1 < len(ns) && ns[j+1] == ns[j]+1 {
				j++
			}
			if i == j {
				p += fmt.Sprintf(":%d", ns[i])
			} else {
				p += fmt.Sprintf(":%d-%d", ns[i], ns[j])
			}
			i = j + 1
		}
		parts = append(parts, p)
	}
	return strings.Join(parts, ",")
}

// ---- connectivity -----------------------------------------------------------

// Dial is registered with mysql.RegisterDialContext: addr is "host:port".
func (w *MyWorld) Dial(addr string, deadline time.Time) (net.Conn, error) {
	host := addr
	if i := strings.LastIndexByte(addr, ':'); i >= 0 {
		host = addr[:i]
	}
	w.mu.Lock()
	h := w.Hosts[host]
	if h == nil || !h.Up || h.Net == "refuse" {
		w.mu.Unlock()
		time.Sleep(20 * time.Millisecond) // a refused dial costs a round trip (keeps busy retry loops live on the virtual clock)
		// what net.Dialer returns: an *net.OpError (a net.Error whose Timeout() is false) around ECONNREFUSED
		return nil, &net.OpError{Op: "dial", Net: "tcp", Err: os.NewSyscallError("connect", syscall.ECONNREFUSED)}
	}
	if h.Net == "isolated" {
		w.mu.Unlock()
		d := time.Until(deadline)
		if deadline.IsZero() || d > time.Hour {
			d = time.Hour
		}
		if d > 0 {
			time.Sleep(d)
		}
		// like net's timeout error, it matches context.DeadlineExceeded
		// a dial that ran into the context deadline: *net.OpError with Timeout() true, matching context.DeadlineExceeded
		return nil, &net.OpError{Op: "dial", Net: "tcp", Err: context.DeadlineExceeded}
	}
	cl, sv := net.Pipe()
	w.connID++
	id := w.connID
	w.conns[host] = append(w.conns[host], sv)
	w.mu.Unlock()
	go w.serve(sv, host, id)
	return cl, nil
}

func (w *MyWorld) closeConnsLocked(host string) []net.Conn {
	cs := w.conns[host]
	w.conns[host] = nil
	return cs
}

// KillInstance: the mysync process `inst` dies: all its MySQL connections are
// closed and every later statement of it is refused.
func (w *MyWorld) KillInstance(inst string) {
	w.mu.Lock()
	w.deadInst[inst] = true
	cs := w.instConns[inst]
	w.instConns[inst] = nil
	w.mu.Unlock()
	for _, c := range cs {
		c.Close()
	}
}

func (w *MyWorld) ReviveInstance(inst string) {
	w.mu.Lock()
	w.deadInst[inst] = false
	w.mu.Unlock()
}

// Block / Unblock traffic from one mysync instance to one MySQL host (hang).
func (w *MyWorld) Block(inst, host string)   { w.mu.Lock(); w.blocked[inst+">"+host] = true; w.mu.Unlock() }
// IsBlocked (caller holds the world lock).
func (w *MyWorld) IsBlocked(inst, host string) bool { return w.blocked[inst+">"+host] }
func (w *MyWorld) Unblock(inst, host string) { w.mu.Lock(); delete(w.blocked, inst+">"+host); w.mu.Unlock() }

// Sever / Unsever: statements of one mysync instance to one MySQL host fail at once (the connection is reset),
// unlike Block, which lets them hang until the caller's deadline.
func (w *MyWorld) Sever(inst, host string) {
	w.mu.Lock()
	if w.severed == nil {
		w.severed = map[string]bool{}
	}
	w.severed[inst+">"+host] = true
	w.mu.Unlock()
}
func (w *MyWorld) Unsever(inst, host string) { w.mu.Lock(); delete(w.severed, inst+">"+host); w.mu.Unlock() }

// ---- world actions (environment) ----------------------------------------------

func (w *MyWorld) envEv(op, at, arg, res string) {
	var post *HostView
	if h := w.Hosts[at]; h != nil {
		v := h.View()
		post = &v
	}
	w.logEv(TraceEvent{K: "env", At: at, Op: op, Arg: arg, Res: res, Mut: true, Post: post})
}

// Crash stops mysqld on host.
func (w *MyWorld) Crash(host string) {
	w.mu.Lock()
	h := w.Hosts[host]
	h.Up = false
	cs := w.closeConnsLocked(host)
	// replicas of it go to Connecting
	for _, r := range w.Hosts {
		if r.Src == host && r.IO == "Yes" {
			r.IO = "Connecting"
			r.IOErrno = 2003
		}
	}
	w.envEv("Crash", host, "", "ok")
	w.mu.Unlock()
	for _, c := range cs {
		c.Close()
	}
}

// Restart brings mysqld back: super_read_only, offline, semi-sync off,
// pending commits recovered into gtid_executed without acknowledgement (E2, E6).
func (w *MyWorld) Restart(host string, crashRecovery bool) {
	w.mu.Lock()
	h := w.Hosts[host]
	h.Up = true
	h.RO = "sro"
	h.Offline = true
	for t := range h.Pend {
		h.Exec.Add(t)
	}
	h.Pend = TxnSet{}
	h.SsM, h.SsS, h.SsSAct = false, false, false
	h.Flush, h.SyncBin = 1, 1
	h.StartedAt = time.Now()
	if h.Src != "" {
		h.SQL = true
		w.startIOLocked(h)
	}
	w.envEv("Restart", host, "", "ok")
	w.mu.Unlock()
}

// SetNet changes reachability of a host: ok | isolated | dubious | refuse.
func (w *MyWorld) SetNet(host, mode string) {
	w.mu.Lock()
	h := w.Hosts[host]
	h.Net = mode
	var cs []net.Conn
	if mode == "dubious" {
		// only new client connections are refused (1040): replication links are unaffected
		cs = w.closeConnsLocked(host)
	} else if mode != "ok" {
		if mode != "isolated" {
			cs = w.closeConnsLocked(host)
		}
		for _, r := range w.Hosts {
			if r.Src == host && r.IO == "Yes" {
				r.IO = "Connecting"
				r.IOErrno = 2003
			}
		}
		if h.Src != "" && h.IO == "Yes" {
			h.IO = "Connecting"
			h.IOErrno = 2003
		}
	} else {
		for _, r := range w.Hosts {
			if (r.Src == host || r.Name == host) && r.IO == "Connecting" {
				w.startIOLocked(r)
			}
		}
	}
	w.envEv("SetNet", host, mode, "ok")
	w.mu.Unlock()
	for _, c := range cs {
		c.Close()
	}
}

func (w *MyWorld) reachableLocked(a, b *MyHost) bool {
	okNet := func(n string) bool { return n == "ok" || n == "dubious" }
	return a.Up && b.Up && okNet(a.Net) && okNet(b.Net)
}

func (w *MyWorld) binlogOf(h *MyHost) TxnSet {
	s := h.Exec.Clone()
	for t := range h.Pend {
		s.Add(t)
	}
	return s
}

// startIOLocked: (re)start the IO thread of r: latch the semi-sync slave flag,
// check GTID auto-position consistency (E4) and connectivity.
func (w *MyWorld) startIOLocked(r *MyHost) {
	r.SsSAct = r.SsS
	if r.IOFailCount > 0 {
		r.IOFailCount--
		r.IO = "No"
		r.IOErrno = 1045
		return
	}
	src := w.Hosts[r.Src]
	if src == nil || !w.reachableLocked(r, src) {
		r.IO = "Connecting"
		r.IOErrno = 2003
		return
	}
	// E4: replica has more transactions of the source's own uuid than the source
	sb := w.binlogOf(src)
	for t := range r.Exec {
		if t.Origin() == src.Name && !sb.Has(t) {
			r.IO = "No"
			r.IOErrno = 13114
			return
		}
	}
	r.IO = "Yes"
	r.IOErrno = 0
}

// ClientCommit: the workload commits one transaction on host (returns txn and
// outcome acked | pending | refused).
func (w *MyWorld) ClientCommit(host string) (Txn, string) {
	w.mu.Lock()
	defer w.mu.Unlock()
	h := w.Hosts[host]
	if h == nil || !h.Up || h.Net != "ok" || h.RO != "rw" || h.Offline {
		w.envEv("ClientCommit", host, "", "refused")
		return "", "refused"
	}
	h.NextTxn++
	for h.Exec.Has(Txn(fmt.Sprintf("%s:%d", host, h.NextTxn))) || h.Pend.Has(Txn(fmt.Sprintf("%s:%d", host, h.NextTxn))) {
		h.NextTxn++
	}
	t := Txn(fmt.Sprintf("%s:%d", host, h.NextTxn))
	if h.SsM && h.Wsc > 0 {
		h.Pend.Add(t)
		w.envEv("ClientCommit", host, string(t), "pending")
		w.ackLocked(h)
		if !h.Pend.Has(t) {
			return t, "acked"
		}
		return t, "pending"
	}
	h.Exec.Add(t)
	w.Acked.Add(t)
	w.AckedBy[t] = host
	w.AckLog = append(w.AckLog, host+"/"+string(t))
	w.envEv("ClientAck", host, string(t), "acked")
	return t, "acked"
}

// ackLocked releases pending commits of master h that have enough semi-sync acks.
func (w *MyWorld) ackLocked(h *MyHost) {
	for _, ts := range h.Pend.Sorted() {
		t := Txn(ts)
		cnt := 0
		for _, r := range w.Hosts {
			if r.Src == h.Name && r.Up && r.IO == "Yes" && r.SsSAct && (r.Recv.Has(t) || r.Exec.Has(t)) {
				cnt++
			}
		}
		if !h.SsM || cnt >= h.Wsc {
			delete(h.Pend, t)
			h.Exec.Add(t)
			w.Acked.Add(t)
			w.AckedBy[t] = h.Name
			w.AckLog = append(w.AckLog, h.Name+"/"+string(t))
			w.envEv("ClientAck", h.Name, string(t), "acked")
		}
	}
}

// releasePendingNoAckLocked: waiting sessions are killed / server restarted: locally
// committed, client gets no acknowledgement (E2).
func (w *MyWorld) releasePendingNoAckLocked(h *MyHost) {
	for t := range h.Pend {
		h.Exec.Add(t)
	}
	h.Pend = TxnSet{}
}

// Fetch: the IO thread of r downloads everything available (max = -1) or at most max txns.
func (w *MyWorld) Fetch(rn string, max int) int {
	w.mu.Lock()
	defer w.mu.Unlock()
	return w.fetchLocked(w.Hosts[rn], max)
}

func (w *MyWorld) fetchLocked(r *MyHost, max int) int {
	if r == nil || !r.Up || r.Src == "" || r.IO != "Yes" || r.Stalled {
		return 0
	}
	src := w.Hosts[r.Src]
	if src == nil || !w.reachableLocked(r, src) {
		return 0
	}
	n := 0
	for _, ts := range w.binlogOf(src).Sorted() {
		t := Txn(ts)
		if r.Exec.Has(t) || r.Recv.Has(t) {
			continue
		}
		if max >= 0 && n >= max {
			break
		}
		r.Recv.Add(t)
		r.RecvAll.Add(t)
		n++
	}
	if n > 0 {
		w.envEv("Fetch", r.Name, strconv.Itoa(n), "ok")
		w.ackLocked(src)
	}
	return n
}

// Apply: the SQL thread of r applies the relay log.
func (w *MyWorld) Apply(rn string, max int) int {
	w.mu.Lock()
	defer w.mu.Unlock()
	return w.applyLocked(w.Hosts[rn], max)
}

func (w *MyWorld) applyLocked(r *MyHost, max int) int {
	if r == nil || !r.Up || !r.SQL || r.Stalled {
		return 0
	}
	n := 0
	for _, ts := range r.Recv.Sorted() {
		if max >= 0 && n >= max {
			break
		}
		t := Txn(ts)
		delete(r.Recv, t)
		r.Exec.Add(t)
		n++
	}
	if n > 0 {
		w.envEv("Apply", r.Name, strconv.Itoa(n), "ok")
	}
	return n
}

// Saturate runs replication to a fixed point (eager world policy).
// Ragged: every replica fetches and applies a bounded, caller-chosen number of
// transactions (pick(host, "fetch"|"apply") -> max), then acknowledgements are delivered.
func (w *MyWorld) Ragged(pick func(host, what string) int) {
	w.mu.Lock()
	defer w.mu.Unlock()
	for _, name := range w.Order {
		r := w.Hosts[name]
		w.fetchLocked(r, pick(name, "fetch"))
		w.applyLocked(r, pick(name, "apply"))
	}
	for _, name := range w.Order {
		w.ackLocked(w.Hosts[name])
	}
}

func (w *MyWorld) Saturate() {
	w.mu.Lock()
	defer w.mu.Unlock()
	for i := 0; i < 10; i++ {
		n := 0
		for _, name := range w.Order {
			r := w.Hosts[name]
			n += w.fetchLocked(r, -1)
			n += w.applyLocked(r, -1)
		}
		for _, name := range w.Order {
			w.ackLocked(w.Hosts[name])
		}
		if n == 0 {
			return
		}
	}
}

// ---- serving one connection ----------------------------------------------------

var (
	reSpace       = regexp.MustCompile(`\s+`)
	reLockTimeout = regexp.MustCompile(`(?i)^SET SESSION lock_wait_timeout = (\d+)$`)
	reChange      = regexp.MustCompile(`(?i)^CHANGE (?:REPLICATION SOURCE|MASTER) TO (?:SOURCE|MASTER)_HOST = '([^']*)'`)
	reWaitCount   = regexp.MustCompile(`(?i)^SET GLOBAL rpl_semi_sync_master_wait_for_slave_count = '?(\d+)'?$`)
	reFlush       = regexp.MustCompile(`(?i)^SET GLOBAL innodb_flush_log_at_trx_commit = '?(\d+)'?$`)
	reSyncBin     = regexp.MustCompile(`(?i)^SET GLOBAL sync_binlog = '?(\d+)'?$`)
	reKill        = regexp.MustCompile(`(?i)^KILL '?(\d+)'?$`)
	reChan        = regexp.MustCompile(`(?i) FOR CHANNEL '([^']*)'$`)
	reReplMonDelay = regexp.MustCompile(`(?i)^SELECT FLOOR\(CAST\('([^']*)' AS DECIMAL`)
)

// OpenConns is the number of client connections currently served.
func (w *MyWorld) OpenConns() int { return int(w.openConns.Load()) }

func (w *MyWorld) serve(c net.Conn, host string, id uint32) {
	w.openConns.Add(1)
	defer w.openConns.Add(-1)
	defer c.Close()
	m := &myConn{c: c}
	w.mu.Lock()
	h := w.Hosts[host]
	var greet *MyErr
	if h.Net == "dubious" {
		greet = &MyErr{Code: 1040, State: "08004", Msg: "Too many connections"}
	}
	w.mu.Unlock()
	user, err := m.handshake(id, greet)
	if err != nil {
		return
	}
	inst := strings.TrimPrefix(user, "mysync_")
	w.mu.Lock()
	if w.deadInst[inst] {
		w.mu.Unlock()
		time.Sleep(200 * time.Millisecond) // a dead process does nothing; its zombie goroutine unwinds slowly
		return
	}
	w.instConns[inst] = append(w.instConns[inst], c)
	w.mu.Unlock()
	lockWait := 31536000
	for {
		pkt, err := m.readPacket()
		if err != nil || len(pkt) == 0 {
			return
		}
		switch pkt[0] {
		case myComQuit:
			return
		case myComPing, myComResetConn, myComInitDB:
			if w.gone(host, inst) {
				return
			}
			if m.writeOK() != nil {
				return
			}
			continue
		case myComQuery:
		default:
			if m.writeErr(&MyErr{Code: 1047, State: "08S01", Msg: "Unknown command (fake server supports the text protocol only; use interpolateParams=true)"}) != nil {
				return
			}
			continue
		}
		q := strings.TrimSpace(reSpace.ReplaceAllString(string(pkt[1:]), " "))
		if mm := reLockTimeout.FindStringSubmatch(q); mm != nil {
			lockWait, _ = strconv.Atoi(mm[1])
			if m.writeOK() != nil {
				return
			}
			continue
		}
		res, myerr, closeConn := w.execute(inst, host, q, lockWait)
		if closeConn {
			return
		}
		switch {
		case myerr != nil:
			err = m.writeErr(myerr)
		case res != nil:
			err = m.writeResult(res)
		default:
			err = m.writeOK()
		}
		if err != nil {
			return
		}
	}
}

func (w *MyWorld) gone(host, inst string) bool {
	w.mu.Lock()
	defer w.mu.Unlock()
	h := w.Hosts[host]
	return h == nil || !h.Up || w.deadInst[inst]
}

type stmtInfo struct {
	kind string
	arg  string
	mut  bool
}

func classify(q string) stmtInfo {
	u := strings.ToUpper(q)
	chanArg := ""
	if mm := reChan.FindStringSubmatch(q); mm != nil {
		chanArg = mm[1]
	}
	has := func(s string) bool { return strings.HasPrefix(u, s) }
	switch {
	case u == "SELECT 1 AS OK":
		return stmtInfo{"Ping", "", false}
	case has("SELECT SYS.VERSION_MAJOR()"):
		return stmtInfo{"Version", "", false}
	case has("SHOW REPLICA STATUS") || has("SHOW SLAVE STATUS"):
		return stmtInfo{"ReplicaStatus", chanArg, false}
	case has("SELECT @@GLOBAL.GTID_EXECUTED"):
		return stmtInfo{"GtidExecuted", "", false}
	case has("SELECT @@SERVER_UUID"):
		return stmtInfo{"UUID", "", false}
	case has("SELECT @@READ_ONLY"):
		return stmtInfo{"IsReadOnly", "", false}
	case has("SELECT @@GLOBAL.OFFLINE_MODE"):
		return stmtInfo{"IsOffline", "", false}
	case has("SELECT @@RPL_SEMI_SYNC_MASTER_ENABLED"):
		return stmtInfo{"SemiSyncStatus", "", false}
	case has("SELECT @@GLOBAL.INNODB_FLUSH_LOG_AT_TRX_COMMIT"):
		return stmtInfo{"ReplSettings", "", false}
	case u == "SHOW BINARY LOGS":
		return stmtInfo{"BinaryLogs", "", false}
	case has("SELECT COUNT(*) <> 0 AS ISWAITING"):
		return stmtInfo{"WaitingAck", "", false}
	case has("SELECT ID FROM INFORMATION_SCHEMA.PROCESSLIST"):
		return stmtInfo{"ProcessIDs", "", false}
	case has("SELECT UNIX_TIMESTAMP(DATE_SUB(NOW()"):
		return stmtInfo{"StartupTime", "", false}
	case has("SELECT EVENT_SCHEMA, EVENT_NAME, DEFINER"):
		return stmtInfo{"ListEvents", "", false}
	case has("SELECT UNIX_TIMESTAMP(TS) AS TS FROM"):
		return stmtInfo{"ReplMonTS", "", false}
	case has("SELECT FLOOR(CAST("):
		arg := ""
		if mm := reReplMonDelay.FindStringSubmatch(q); mm != nil {
			arg = mm[1]
		}
		return stmtInfo{"ReplMonDelay", arg, false}
	case has("SELECT CHANNEL_NAME AS CHANNELNAME") || has("SELECT SOURCE_HOST AS SOURCEHOST"):
		return stmtInfo{"ExtReplTables", "", false}
	case u == "SET GLOBAL SUPER_READ_ONLY = 1":
		return stmtInfo{"SetSuperReadOnly", "", true}
	case u == "SET GLOBAL READ_ONLY = 1, SUPER_READ_ONLY = 0":
		return stmtInfo{"SetReadOnlyNoSuper", "", true}
	case u == "SET GLOBAL READ_ONLY = 0":
		return stmtInfo{"SetWritable", "", true}
	case has("STOP REPLICA IO_THREAD") || has("STOP SLAVE IO_THREAD"):
		return stmtInfo{"StopIO", chanArg, true}
	case has("START REPLICA IO_THREAD") || has("START SLAVE IO_THREAD"):
		return stmtInfo{"StartIO", chanArg, true}
	case has("STOP REPLICA SQL_THREAD") || has("STOP SLAVE SQL_THREAD"):
		return stmtInfo{"StopSQL", chanArg, true}
	case has("START REPLICA SQL_THREAD") || has("START SLAVE SQL_THREAD"):
		return stmtInfo{"StartSQL", chanArg, true}
	case has("STOP REPLICA") || has("STOP SLAVE"):
		return stmtInfo{"StopReplica", chanArg, true}
	case has("START REPLICA") || has("START SLAVE"):
		return stmtInfo{"StartReplica", chanArg, true}
	case has("RESET REPLICA ALL") || has("RESET SLAVE ALL"):
		return stmtInfo{"ResetReplicaAll", chanArg, true}
	case has("CHANGE REPLICATION SOURCE TO") || has("CHANGE MASTER TO"):
		arg := ""
		if mm := reChange.FindStringSubmatch(q); mm != nil {
			arg = mm[1]
		}
		return stmtInfo{"ChangeSource", arg, true}
	case u == "SET GLOBAL RPL_SEMI_SYNC_MASTER_ENABLED = 1, RPL_SEMI_SYNC_SLAVE_ENABLED = 0":
		return stmtInfo{"SemiSyncSetMaster", "", true}
	case u == "SET GLOBAL RPL_SEMI_SYNC_SLAVE_ENABLED = 1, RPL_SEMI_SYNC_MASTER_ENABLED = 0":
		return stmtInfo{"SemiSyncSetSlave", "", true}
	case u == "SET GLOBAL RPL_SEMI_SYNC_SLAVE_ENABLED = 0, RPL_SEMI_SYNC_MASTER_ENABLED = 0":
		return stmtInfo{"SemiSyncDisable", "", true}
	case has("SET GLOBAL RPL_SEMI_SYNC_MASTER_WAIT_FOR_SLAVE_COUNT"):
		arg := ""
		if mm := reWaitCount.FindStringSubmatch(q); mm != nil {
			arg = mm[1]
		}
		return stmtInfo{"SetWaitCount", arg, true}
	case u == "SET GLOBAL OFFLINE_MODE = ON":
		return stmtInfo{"SetOffline", "", true}
	case u == "SET GLOBAL OFFLINE_MODE = OFF":
		return stmtInfo{"SetOnline", "", true}
	case has("SET GLOBAL INNODB_FLUSH_LOG_AT_TRX_COMMIT"):
		arg := ""
		if mm := reFlush.FindStringSubmatch(q); mm != nil {
			arg = mm[1]
		}
		return stmtInfo{"SetFlush", arg, true}
	case has("SET GLOBAL SYNC_BINLOG"):
		arg := ""
		if mm := reSyncBin.FindStringSubmatch(q); mm != nil {
			arg = mm[1]
		}
		return stmtInfo{"SetSyncBinlog", arg, true}
	case has("KILL "):
		arg := ""
		if mm := reKill.FindStringSubmatch(q); mm != nil {
			arg = mm[1]
		}
		return stmtInfo{"Kill", arg, true}
	case has("ALTER DEFINER"):
		return stmtInfo{"EnableEvent", "", true}
	case has("CREATE TABLE IF NOT EXISTS"):
		return stmtInfo{"CreateReplMon", "", true}
	case has("INSERT INTO"):
		return stmtInfo{"UpdateReplMon", "", true}
	}
	return stmtInfo{"Unknown", q, false}
}

func yesNo(b bool) string {
	if b {
		return "Yes"
	}
	return "No"
}

func b01(b bool) int64 {
	if b {
		return 1
	}
	return 0
}

// execute gates, applies and logs one statement.
func (w *MyWorld) execute(inst, host, q string, lockWait int) (*MyResult, *MyErr, bool) {
	si := classify(q)
	call := &SQLCall{By: inst, At: host, Stmt: si.kind, Arg: si.arg, Mut: si.mut}
	w.mu.Lock()
	blocked := w.blocked[inst+">"+host]
	if w.severed[inst+">"+host] {
		w.mu.Unlock()
		return nil, nil, true
	}
	if hh := w.Hosts[host]; hh != nil && hh.Net == "isolated" {
		blocked = true // an isolated host answers nothing, on established connections either
	}
	// "island": the whole machine is cut off the network - its own mysync still talks to the
	// local server, nobody else does, and it reaches no other server
	if hh := w.Hosts[host]; hh != nil && hh.Net == "island" && inst != host {
		blocked = true
	}
	if hi := w.Hosts[inst]; hi != nil && hi.Net == "island" && inst != host {
		blocked = true
	}
	hook := w.Hook
	w.mu.Unlock()
	if blocked {
		w.sleepOrDone(24 * time.Hour) // the caller's context deadline closes the connection long before
		return nil, nil, true
	}
	if hook != nil {
		d := hook.BeforeSQL(call)
		if d.Delay > 0 {
			time.Sleep(d.Delay)
		}
		if d.Hang {
			w.mu.Lock()
			w.logEv(TraceEvent{K: "sql", By: inst, At: host, Op: si.kind, Arg: si.arg, Res: "hang", Mut: si.mut})
			w.mu.Unlock()
			w.sleepOrDone(24 * time.Hour)
			return nil, nil, true
		}
		if d.Drop {
			return nil, nil, true
		}
		if d.Err != nil {
			w.mu.Lock()
			w.logEv(TraceEvent{K: "sql", By: inst, At: host, Op: si.kind, Arg: si.arg, Res: fmt.Sprintf("injected:%d", d.Err.Code), Mut: si.mut})
			w.mu.Unlock()
			hook.AfterSQL(call, fmt.Sprintf("injected:%d", d.Err.Code))
			return nil, d.Err, false
		}
	}
	// read-only statements blocked by in-flight commits wait outside the lock
	if si.kind == "SetSuperReadOnly" || si.kind == "SetReadOnlyNoSuper" {
		waited := 0
		for {
			w.mu.Lock()
			h := w.Hosts[host]
			busy := h != nil && h.Up && len(h.Pend) > 0
			w.mu.Unlock()
			if !busy {
				break
			}
			if waited >= lockWait {
				w.mu.Lock()
				w.logEv(TraceEvent{K: "sql", By: inst, At: host, Op: si.kind, Res: "err:1205", Mut: true})
				w.mu.Unlock()
				if hook != nil {
					hook.AfterSQL(call, "err:1205")
				}
				return nil, &MyErr{Code: 1205, State: "HY000", Msg: "Lock wait timeout exceeded; try restarting transaction"}, false
			}
			time.Sleep(time.Second)
			waited++
		}
	}
	w.mu.Lock()
	h := w.Hosts[host]
	if h == nil || !h.Up || w.deadInst[inst] {
		w.mu.Unlock()
		return nil, nil, true
	}
	var before string
	if si.mut {
		before = fmt.Sprintf("%+v", h.View())
	}
	res, myerr := w.applyLocked2(h, si, inst)
	r := "ok"
	if myerr != nil {
		r = fmt.Sprintf("err:%d", myerr.Code)
	}
	ev := TraceEvent{K: "sql", By: inst, At: host, Op: si.kind, Arg: si.arg, Res: r, Mut: si.mut}
	if si.mut && (si.kind == "ResetReplicaAll" || si.kind == "ChangeSource") && myerr == nil {
		ev.Val = strings.Join(h.Discarded, ",")
	}
	if si.mut {
		v := h.View()
		ev.Post = &v
		ev.Chg = fmt.Sprintf("%+v", v) != before
		h.Stmts = append(h.Stmts, fmt.Sprintf("%s:%s(%s)=%s", inst, si.kind, si.arg, r))
	}
	w.logEv(ev)
	w.mu.Unlock()
	if hook != nil {
		hook.AfterSQL(call, r)
	}
	if w.gone(host, inst) {
		// the server (or the calling process) died after applying the statement and
		// before the answer was delivered: the caller sees a broken connection
		w.mu.Lock()
		w.logEv(TraceEvent{K: "sql", By: inst, At: host, Op: si.kind, Arg: si.arg, Res: "reply_lost", Mut: false})
		w.mu.Unlock()
		return nil, nil, true
	}
	return res, myerr, false
}

func oneRow(cols []MyCol, cells ...*string) *MyResult {
	return &MyResult{Cols: cols, Rows: [][]*string{cells}}
}

func (w *MyWorld) masterBinlogSize(h *MyHost) int64 {
	return 10000 + 1000*int64(len(h.Exec)+len(h.Pend))
}

// applyLocked2 implements the statement semantics (must hold w.mu).
func (w *MyWorld) applyLocked2(h *MyHost, si stmtInfo, inst string) (*MyResult, *MyErr) {
	I := func(n string) MyCol { return MyCol{n, myTypeLongLong} }
	S := func(n string) MyCol { return MyCol{n, myTypeVarString} }
	F := func(n string) MyCol { return MyCol{n, myTypeDouble} }
	switch si.kind {
	case "Ping":
		return oneRow([]MyCol{I("Ok")}, ip(1)), nil
	case "Version":
		return oneRow([]MyCol{I("MajorVersion"), I("MinorVersion"), I("PatchVersion")},
			ip(int64(w.Version[0])), ip(int64(w.Version[1])), ip(int64(w.Version[2]))), nil
	case "ReplicaStatus":
		if si.arg != "" {
			return nil, &MyErr{Code: 3074, State: "HY000", Msg: "Replication channel '" + si.arg + "' does not exist."}
		}
		pre := "Source"
		rep := "Replica"
		lagName := "Seconds_Behind_Source"
		if !(w.Version[0] > 8 || (w.Version[0] == 8 && (w.Version[1] > 0 || w.Version[2] >= 22))) {
			pre, rep, lagName = "Master", "Slave", "Seconds_Behind_Master"
		}
		cols := []MyCol{S(pre + "_Host"), I(pre + "_Port"), S(pre + "_Log_File"), I("Read_" + pre + "_Log_Pos"),
			S(rep + "_IO_Running"), S(rep + "_SQL_Running"), S("Last_Error"), S("Retrieved_Gtid_Set"), S("Executed_Gtid_Set"),
			I("Last_IO_Errno"), S("Last_IO_Error"), I("Last_SQL_Errno"), F(lagName)}
		if h.Src == "" {
			return &MyResult{Cols: cols}, nil
		}
		var lag *string
		if h.IO == "Yes" && h.SQL && !h.LagNull {
			s := strconv.FormatFloat(h.Lag, 'f', -1, 64)
			lag = &s
		}
		readPos := int64(0)
		if src := w.Hosts[h.Src]; src != nil {
			missing := 0
			for t := range w.binlogOf(src) {
				if !h.Exec.Has(t) && !h.Recv.Has(t) {
					missing++
				}
			}
			readPos = w.masterBinlogSize(src) - 1000*int64(missing) - h.ExtraDataLag
			if readPos < 4 {
				readPos = 4
			}
		}
		ioErr, sqlErr := "", ""
		if h.IOErrno != 0 {
			ioErr = fmt.Sprintf("io error %d", h.IOErrno)
		}
		if h.SQLErrno != 0 {
			sqlErr = fmt.Sprintf("sql error %d", h.SQLErrno)
		}
		return oneRow(cols, sp(h.Src), ip(3306), sp("binlog.000001"), ip(readPos), sp(h.IO), sp(yesNo(h.SQL)), sp(sqlErr),
			sp(GtidText(h.RecvAll)), sp(GtidText(h.Exec)), ip(int64(h.IOErrno)), sp(ioErr), ip(int64(h.SQLErrno)), lag), nil
	case "GtidExecuted":
		return oneRow([]MyCol{S("Executed_Gtid_Set")}, sp(GtidText(h.Exec))), nil
	case "UUID":
		return oneRow([]MyCol{S("server_uuid")}, sp(HostUUID(h.Name))), nil
	case "IsReadOnly":
		return oneRow([]MyCol{I("ReadOnly"), I("SuperReadOnly")}, ip(b01(h.RO != "rw")), ip(b01(h.RO == "sro"))), nil
	case "IsOffline":
		return oneRow([]MyCol{I("OfflineMode")}, ip(b01(h.Offline))), nil
	case "SemiSyncStatus":
		if !h.SemiSyncPlugin {
			return nil, &MyErr{Code: 1193, State: "HY000", Msg: "Unknown system variable 'rpl_semi_sync_master_enabled'"}
		}
		return oneRow([]MyCol{I("MasterEnabled"), I("SlaveEnabled"), I("WaitSlaveCount")}, ip(b01(h.SsM)), ip(b01(h.SsS)), ip(int64(h.Wsc))), nil
	case "ReplSettings":
		return oneRow([]MyCol{I("InnodbFlushLogAtTrxCommit"), I("SyncBinlog")}, ip(int64(h.Flush)), ip(int64(h.SyncBin))), nil
	case "BinaryLogs":
		return oneRow([]MyCol{S("Log_name"), I("File_size"), S("Encrypted")}, sp("binlog.000001"), ip(w.masterBinlogSize(h)), sp("No")), nil
	case "WaitingAck":
		return oneRow([]MyCol{I("IsWaiting")}, ip(b01(len(h.Pend) > 0))), nil
	case "ProcessIDs":
		r := &MyResult{Cols: []MyCol{I("ID")}}
		for i := range h.Pend.Sorted() {
			r.Rows = append(r.Rows, []*string{ip(int64(1000 + i))})
		}
		return r, nil
	case "StartupTime":
		return oneRow([]MyCol{F("LastStartup")}, sp(strconv.FormatInt(h.StartedAt.Unix(), 10))), nil
	case "ListEvents":
		r := &MyResult{Cols: []MyCol{S("EVENT_SCHEMA"), S("EVENT_NAME"), S("DEFINER")}}
		for _, e := range h.Events {
			p := strings.SplitN(e, ".", 2)
			r.Rows = append(r.Rows, []*string{sp(p[0]), sp(p[1]), sp("root@localhost")})
		}
		return r, nil
	case "ReplMonTS":
		if h.ReplMonTS == 0 {
			return nil, &MyErr{Code: 1146, State: "42S02", Msg: "Table 'mysql.mysync_repl_mon' doesn't exist"}
		}
		return oneRow([]MyCol{S("ts")}, sp(strconv.FormatFloat(h.ReplMonTS, 'f', 3, 64))), nil
	case "ReplMonDelay":
		if h.ReplMonTS == 0 {
			return nil, &MyErr{Code: 1146, State: "42S02", Msg: "Table 'mysql.mysync_repl_mon' doesn't exist"}
		}
		ts, _ := strconv.ParseFloat(si.arg, 64)
		d := int64(ts - h.ReplMonTS)
		return oneRow([]MyCol{I("delay")}, ip(d)), nil
	case "ExtReplTables":
		return nil, &MyErr{Code: 1146, State: "42S02", Msg: "Table 'mysql.replication_settings' doesn't exist"}
	case "Unknown":
		return nil, &MyErr{Code: 1064, State: "42000", Msg: "fake server: unrecognised statement: " + si.arg}

	// ---- state-changing statements ----
	case "SetSuperReadOnly":
		h.RO = "sro"
	case "SetReadOnlyNoSuper":
		h.RO = "ro"
	case "SetWritable":
		h.RO = "rw"
	case "StopIO":
		if si.arg != "" {
			return nil, &MyErr{Code: 3074, State: "HY000", Msg: "channel does not exist"}
		}
		h.IO = "No"
	case "StartIO":
		if h.Src == "" {
			return nil, &MyErr{Code: 1200, State: "HY000", Msg: "The server is not configured as replica; fix in config file or with CHANGE REPLICATION SOURCE TO"}
		}
		w.startIOLocked(h)
	case "StopSQL":
		h.SQL = false
	case "StartSQL":
		if h.Src == "" {
			return nil, &MyErr{Code: 1200, State: "HY000", Msg: "The server is not configured as replica"}
		}
		if h.SQLErrno == 0 || !permanentSQL(h.SQLErrno) {
			h.SQL = true
			h.SQLErrno = 0
		}
	case "StopReplica":
		if si.arg != "" {
			return nil, &MyErr{Code: 3074, State: "HY000", Msg: "channel does not exist"}
		}
		h.IO = "No"
		h.SQL = false
	case "StartReplica":
		if h.Src == "" {
			return nil, &MyErr{Code: 1200, State: "HY000", Msg: "The server is not configured as replica; fix in config file or with CHANGE REPLICATION SOURCE TO"}
		}
		if h.IO != "Yes" {
			w.startIOLocked(h)
		}
		if h.SQLErrno == 0 || !permanentSQL(h.SQLErrno) {
			h.SQL = true
			h.SQLErrno = 0
		}
	case "ResetReplicaAll":
		if h.IO != "No" || h.SQL {
			return nil, &MyErr{Code: 3081, State: "HY000", Msg: "This operation cannot be performed with running replication threads; run STOP REPLICA FOR CHANNEL '' first"}
		}
		h.Src = ""
		h.Discarded = h.Recv.Sorted() // received, never applied, gone with the relay log
		h.Recv = TxnSet{}
		h.RecvAll = TxnSet{}
		h.IOErrno, h.SQLErrno = 0, 0
	case "ChangeSource":
		if h.IO != "No" || h.SQL {
			return nil, &MyErr{Code: 3021, State: "HY000", Msg: "This operation cannot be performed with a running replica io thread; run STOP REPLICA IO_THREAD FOR CHANNEL '' first."}
		}
		h.Src = si.arg
		h.Discarded = h.Recv.Sorted()
		h.Recv = TxnSet{}
		h.RecvAll = TxnSet{}
		h.IOErrno, h.SQLErrno = 0, 0
	case "SemiSyncSetMaster", "SemiSyncSetSlave", "SemiSyncDisable", "SetWaitCount":
		if !h.SemiSyncPlugin {
			return nil, &MyErr{Code: 1193, State: "HY000", Msg: "Unknown system variable 'rpl_semi_sync_master_enabled'"}
		}
		switch si.kind {
		case "SemiSyncSetMaster":
			h.SsM, h.SsS = true, false
		case "SemiSyncSetSlave":
			h.SsS, h.SsM = true, false
		case "SemiSyncDisable":
			h.SsS, h.SsM = false, false
		case "SetWaitCount":
			n, _ := strconv.Atoi(si.arg)
			if n < 1 {
				return nil, &MyErr{Code: 1231, State: "42000", Msg: "Variable 'rpl_semi_sync_master_wait_for_slave_count' can't be set to the value of '0'"}
			}
			h.Wsc = n
		}
		w.ackLocked(h)
	case "SetOffline":
		h.Offline = true
		w.releasePendingNoAckLocked(h)
	case "SetOnline":
		h.Offline = false
	case "SetFlush":
		h.Flush, _ = strconv.Atoi(si.arg)
	case "SetSyncBinlog":
		h.SyncBin, _ = strconv.Atoi(si.arg)
	case "Kill":
		if !h.KillIneffective {
			w.releasePendingNoAckLocked(h)
		}
	case "EnableEvent":
		if len(h.Events) > 0 {
			h.Events = h.Events[1:]
		}
	case "CreateReplMon":
		if h.ReplMonTS == 0 {
			h.ReplMonTS = 1
		}
	case "UpdateReplMon":
		if h.ReplMonTS == 0 {
			return nil, &MyErr{Code: 1146, State: "42S02", Msg: "Table 'mysql.mysync_repl_mon' doesn't exist"}
		}
		if h.RO == "rw" {
			h.ReplMonTS = float64(time.Now().UnixMilli()) / 1000
		}
	}
	return nil, nil
}

func permanentSQL(code int) bool { return code == 1146 || code == 1118 }
