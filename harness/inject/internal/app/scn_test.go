//go:build verif

package app

// Scenario engine: shapes, requests, fault points, world policies, observers.

import (
	"encoding/json"
	"fmt"
	"sort"
	"strings"
	"sync"
	"time"

	"github.com/yandex/mysync/internal/config"
	"github.com/yandex/mysync/internal/verifsim"
)

// hostShape overrides the converged state of one MySQL server.
type hostShape struct {
	Exec []string `json:"exec,omitempty"` // extra executed txns (besides the base)
	Recv []string `json:"recv,omitempty"` // received, not applied
	Pend []string `json:"pend,omitempty"` // master only: waiting for ack
	Down bool     `json:"down,omitempty"`
	Net  string   `json:"net,omitempty"`
	NoSS bool     `json:"noss,omitempty"` // semi-sync slave off
	IOStopped bool `json:"iostopped,omitempty"`
	SQLStopped bool `json:"sqlstopped,omitempty"` // the applier thread is stopped (operator / non-fatal error): received transactions stay unapplied
}

type reqSpec struct {
	Kind string `json:"kind"` // to | from | auto | forced | forcedto | worker | none
	To   string `json:"to,omitempty"`
	From string `json:"from,omitempty"`
}

// faultSpec: at the occ-th occurrence of (stmt at host) after arming do `Kind`.
type faultSpec struct {
	Chan string `json:"chan"` // sql | zk
	Stmt string `json:"stmt"`
	At   string `json:"at"`
	Occ  int    `json:"occ"`
	Kind string `json:"kind"` // fail | hang | diebefore | dieafter | crashmgr | zkloss | zkfail
	Errno int   `json:"errno,omitempty"`
	Times int   `json:"times,omitempty"` // with Occ = 0: only the first Times occurrences (0 = every one)
	By        string `json:"by,omitempty"` // count only the calls of this mysync instance
	Target    string `json:"target,omitempty"` // crashhost_after: the server that dies
	FromStart bool `json:"fromstart,omitempty"` // occurrences are counted from the very start (incl. the start-up activations)
}

type vScenario struct {
	ID      string               `json:"id"`
	Hosts   []string             `json:"hosts"`
	Cascade map[string]string    `json:"cascade,omitempty"`
	Master  string               `json:"master"`
	Manager string               `json:"manager"`
	W       int                  `json:"w"`
	Base    int                  `json:"base"`
	Shape   map[string]hostShape `json:"shape,omitempty"`
	Active  []string             `json:"active,omitempty"` // published list (default: all HA)
	Req     reqSpec              `json:"req"`
	Fault   *faultSpec           `json:"fault,omitempty"`
	Policy  string               `json:"policy"` // eager | lazy
	Rounds  int                  `json:"rounds"`
	Cfg     map[string]any       `json:"cfg,omitempty"`
	Prio    map[string]int64     `json:"prio,omitempty"`
	Extra   any                  `json:"extra,omitempty"` // driver-specific plan (kept for attribution / replay)
}

func (sc *vScenario) json() string {
	b, _ := json.Marshal(sc)
	return string(b)
}

func applyCfg(cfg *config.Config, m map[string]any) {
	for k, v := range m {
		switch k {
		case "semi_sync":
			cfg.SemiSync = v.(bool)
		case "failover":
			cfg.Failover = v.(bool)
		case "master_first":
			cfg.MasterFirstAdjustSSOrder = v.(bool)
		case "failover_delay":
			cfg.FailoverDelay = time.Duration(toInt(v)) * time.Second
		case "failover_cooldown":
			cfg.FailoverCooldown = time.Duration(toInt(v)) * time.Second
		case "inactivation_delay":
			cfg.InactivationDelay = time.Duration(toInt(v)) * time.Second
		case "max_attempts":
			cfg.SwitchoverMaxAttempts = toInt(v)
		case "switchover_timeout":
			cfg.SwitchoverTimeout = time.Duration(toInt(v)) * time.Second
		case "catchup_timeout":
			cfg.SlaveCatchUpTimeout = time.Duration(toInt(v)) * time.Second
		case "lock_ttl":
			cfg.Zookeeper.LockHeldTTL = time.Duration(toInt(v)) * time.Second
		case "resetup_crashed":
			cfg.ResetupCrashedHosts = v.(bool)
		case "disable_ro_on_lost":
			cfg.DisableSetReadonlyOnLost = v.(bool)
		case "aggressive_repair":
			cfg.ReplicationRepairAggressiveMode = v.(bool)
		case "repair_max_attempts":
			cfg.ReplicationRepairMaxAttempts = toInt(v)
		case "repair_cooldown":
			cfg.ReplicationRepairCooldown = time.Duration(toInt(v)) * time.Second
		case "maint_disable_ss":
			cfg.DisableSemiSyncReplicationOnMaintenance = v.(bool)
		case "keep_super_writable":
			cfg.KeepSuperWritableOnCriticalDiskUsage = v.(bool)
		case "semi_sync_enable_lag":
			cfg.SemiSyncEnableLag = int64(toInt(v))
		case "force_switchover":
			cfg.ForceSwitchover = v.(bool)
		case "manager_switchover":
			cfg.ManagerSwitchover = v.(bool)
		case "offline_enable_lag":
			cfg.OfflineModeEnableLag = time.Duration(toInt(v)) * time.Second
		case "offline_disable_lag":
			cfg.OfflineModeDisableLag = time.Duration(toInt(v)) * time.Second
		case "offline_pct":
			cfg.OfflineModeMaxOfflinePct = toInt(v)
		case "offline_sep":
			cfg.OfflineModeAZSeparator = v.(string)
		case "offline_interval":
			cfg.OfflineModeEnableInterval = time.Duration(toInt(v)) * time.Second
		case "critical_disk":
			cfg.CriticalDiskUsage = float64(toInt(v))
		case "not_critical_disk":
			cfg.NotCriticalDiskUsage = float64(toInt(v))
		case "stream_from_lag":
			cfg.StreamFromReasonableLag = time.Duration(toInt(v)) * time.Second
		case "priority_max_lag":
			cfg.PriorityChoiceMaxLag = time.Duration(toInt(v)) * time.Second
		case "async":
			cfg.ASync = v.(bool)
		case "async_allowed_lag":
			cfg.AsyncAllowedLag = time.Duration(toInt(v)) * time.Second
		case "repl_mon":
			cfg.ReplMon = v.(bool)
		default:
			panic("unknown cfg key " + k)
		}
	}
}

func toInt(v any) int {
	switch x := v.(type) {
	case int:
		return x
	case float64:
		return int(x)
	case int64:
		return int(x)
	}
	panic(fmt.Sprintf("not an int: %v", v))
}

// ---- hook: fault injection + world policy + call census ------------------------------

type vHook struct {
	s       *vSim
	mu      sync.Mutex
	armed   bool
	fault   *faultSpec
	fired   bool
	counts  map[string]int // "chan|stmt|at" -> occurrences since arming
	census  []string       // ordered mutating call points seen while armed: "chan|stmt|at|occ"
	policy  string
	onFire  func()
	mutOnly bool
	pendingZk *faultSpec
	blipKey   string // zkblip: "client|op|key" whose retries fail too
	blipLeft  int
	byN       int
	extra     verifsim.MyHook // property-specific hook consulted first
}

func newHook(s *vSim, policy string) *vHook {
	return &vHook{s: s, counts: map[string]int{}, policy: policy}
}

func (h *vHook) arm(f *faultSpec) {
	h.mu.Lock()
	h.armed = true
	h.fault = f
	h.fired = false
	h.counts = map[string]int{}
	h.census = nil
	h.mu.Unlock()
}

func (h *vHook) disarm() {
	h.mu.Lock()
	h.armed = false
	h.mu.Unlock()
}

// match returns the fault to apply to this call (nil if none).
func (h *vHook) match(ch, stmt, at string, mut bool, by ...string) *faultSpec {
	h.mu.Lock()
	defer h.mu.Unlock()
	if !h.armed {
		return nil
	}
	key := ch + "|" + stmt + "|" + at
	h.counts[key]++
	occ := h.counts[key]
	if mut {
		h.census = append(h.census, fmt.Sprintf("%s|%d", key, occ))
	}
	f := h.fault
	if f == nil || f.Chan != ch || f.Stmt != stmt || f.At != at {
		return nil
	}
	if f.By != "" {
		// occurrences are those of one caller only (e.g. the manager's own probes of the master)
		if len(by) == 0 || by[0] != f.By {
			return nil
		}
		h.byN++
		occ = h.byN
	}
	if f.Occ == 0 {
		if f.Times > 0 && occ > f.Times {
			return nil
		}
		return f // persistent fault: every occurrence (or the first Times ones), armed from the start
	}
	if h.fired || f.Occ != occ {
		return nil
	}
	h.fired = true
	return f
}

func (h *vHook) BeforeSQL(c *verifsim.SQLCall) verifsim.Decision {
	if c.By == "" || c.By == "world" {
		return verifsim.Decision{}
	}
	if h.extra != nil {
		if d := h.extra.BeforeSQL(c); d.Err != nil || d.Hang || d.Drop || d.Delay > 0 {
			return d
		}
	}
	f := h.match("sql", c.Stmt, c.At, c.Mut, c.By)
	if f == nil {
		return verifsim.Decision{}
	}
	h.s.appEv(c.By, "Fault", fmt.Sprintf("%s %s@%s#%d", f.Kind, f.Stmt, f.At, f.Occ), "")
	switch f.Kind {
	case "fail":
		code := uint16(f.Errno)
		if code == 0 {
			code = 1105
		}
		return verifsim.Decision{Err: &verifsim.MyErr{Code: code, State: "HY000", Msg: "injected failure"}}
	case "hang":
		return verifsim.Decision{Hang: true}
	case "diebefore":
		h.s.W.Crash(c.At)
		return verifsim.Decision{Drop: true}
	case "crashmgr_before":
		h.s.kill(c.By)
		return verifsim.Decision{Drop: true}
	}
	// dieafter / crashmgr / zkloss act in AfterSQL
	h.mu.Lock()
	h.fired = false // re-arm for the After phase
	h.mu.Unlock()
	return verifsim.Decision{}
}

func (h *vHook) AfterSQL(c *verifsim.SQLCall, res string) {
	if c.By == "" || c.By == "world" {
		return
	}
	h.mu.Lock()
	f := h.fault
	hit := h.armed && f != nil && !h.fired && f.Chan == "sql" && f.Stmt == c.Stmt && f.At == c.At &&
		h.counts["sql|"+c.Stmt+"|"+c.At] == f.Occ && (f.Kind == "dieafter" || f.Kind == "crashmgr" || f.Kind == "zkloss" || f.Kind == "zkexpire" || f.Kind == "zkexpire_other" || f.Kind == "crashhost_after")
	if hit {
		h.fired = true
	}
	armed := h.armed
	h.mu.Unlock()
	if hit {
		switch f.Kind {
		case "dieafter":
			h.s.W.Crash(c.At)
		case "crashhost_after":
			// another server (f.Target, e.g. the master) dies right after this call was answered
			h.s.appEv(c.By, "Fault", fmt.Sprintf("crash of %s after %s@%s#%d", f.Target, f.Stmt, f.At, f.Occ), "")
			h.s.W.Crash(f.Target)
		case "crashmgr":
			h.s.kill(c.By)
		case "zkloss":
			h.s.appEv(c.By, "ZkLoss", "", "")
			h.s.Z.Cut(c.By)
		case "zkexpire", "zkexpire_other":
			h.expire(c.By, f.Kind == "zkexpire_other")
		}
	}
	if armed && c.Mut && (c.Stmt == "SetSuperReadOnly" || c.Stmt == "StopIO") {
		h.s.freezeSeen.Store(true)
	}
	if armed && c.Mut && h.policy == "eager" {
		h.s.worldEager()
	}
}

func (h *vHook) BeforeZk(client, op, path string) (int32, bool) {
	mut := op == "Create" || op == "Delete" || op == "SetData"
	key := strings.TrimPrefix(path, vNS+"/")
	if strings.HasPrefix(key, "health/") || strings.HasPrefix(key, "resetup_status") {
		return 0, false
	}
	h.mu.Lock()
	if h.blipLeft > 0 {
		if h.blipKey == client+"|"+op+"|"+key {
			h.blipLeft--
			h.mu.Unlock()
			return -4, false
		}
		h.blipLeft = 0 // another call: the blip is over
	}
	h.mu.Unlock()
	f := h.match("zk", op, key, mut)
	if f == nil {
		return 0, false
	}
	h.s.appEv(client, "Fault", fmt.Sprintf("%s %s@%s#%d", f.Kind, f.Stmt, f.At, f.Occ), "")
	switch f.Kind {
	case "zkfail":
		return -4, false // connection loss
	case "hang":
		// a coordination call "hangs" when the connection goes silent: pings are
		// dropped too, the client library times out and the session may expire
		h.s.Z.Blackhole(client)
		return 0, true
	case "crashmgr_before":
		go h.s.kill(client)
		return 0, true
	case "zkloss":
		go h.s.Z.Cut(client)
		return 0, true
	case "zkblip":
		// the coordination service is lost for this ONE call: the request and the client's retries of it are answered
		// with a connection loss, the session (and the lock) survive and the very next call works again
		h.mu.Lock()
		h.blipKey, h.blipLeft = client+"|"+op+"|"+key, 4
		h.mu.Unlock()
		return -4, false
	case "zkexpire", "zkexpire_other":
		// the session is expired by the server right before this request is processed
		h.expire(client, f.Kind == "zkexpire_other")
		return 0, false
	case "crashmgr_after", "zkloss_after":
		h.mu.Lock()
		h.pendingZk = f
		h.mu.Unlock()
		return 0, false
	}
	return 0, false
}

// AfterZk: the operation was applied; the answer has not been sent yet
func (h *vHook) AfterZk(client, op, path string, code int32) bool {
	h.mu.Lock()
	f := h.pendingZk
	h.pendingZk = nil
	h.mu.Unlock()
	if f == nil {
		return false
	}
	switch f.Kind {
	case "crashmgr_after":
		h.s.kill(client)
		return true
	case "zkloss_after":
		h.s.appEv(client, "ZkLoss", "", "")
		h.s.Z.Cut(client)
		return true
	}
	return false
}

// expire ends the sessions of `by` on the server (the client library opens a new one at
// once); with other=true another live instance runs one activation right away, so a
// candidate can take the manager lock before `by` asks for it again.
func (h *vHook) expire(by string, other bool) {
	h.s.appEv(by, "ZkExpire", "", "")
	h.s.Z.ExpireClient(by)
	if !other {
		return
	}
	for _, x := range h.s.hosts {
		if in := h.s.insts[x]; x != by && in != nil && !in.dead {
			time.Sleep(50 * time.Millisecond)
			h.s.tick(x)
			return
		}
	}
}

func (s *vSim) hookFired() bool {
	h, ok := s.hook.(*vHook)
	if !ok {
		return false
	}
	h.mu.Lock()
	defer h.mu.Unlock()
	return h.fired
}

// eager world policy: a client commits wherever writes are accepted, then
// replication runs to saturation and acknowledgements are delivered.
func (s *vSim) worldEager() {
	for _, h := range s.hosts {
		s.W.ClientCommit(h)
	}
	s.W.Saturate()
}

// ---- building a scenario ----------------------------------------------------------

func (s *vSim) applyShape(sc *vScenario) {
	s.buildConverged(sc.Master, sc.W, sc.Base, sc.Cascade)
	s.W.Lock()
	for h, sh := range sc.Shape {
		x := s.W.Hosts[h]
		for _, t := range sh.Exec {
			x.Exec.Add(verifsim.Txn(t))
		}
		for _, t := range sh.Recv {
			x.Recv.Add(verifsim.Txn(t))
			x.RecvAll.Add(verifsim.Txn(t))
		}
		for _, t := range sh.Pend {
			x.Pend.Add(verifsim.Txn(t))
		}
		if sh.NoSS {
			x.SsS, x.SsSAct = false, false
		}
		if sh.IOStopped {
			x.IO = "No"
		}
		if sh.SQLStopped {
			x.SQL = false
		}
	}
	// txn counters past everything present
	for _, x := range s.W.Hosts {
		for _, y := range s.W.Hosts {
			for t := range y.Exec {
				if t.Origin() == x.Name && t.Num() > x.NextTxn {
					x.NextTxn = t.Num()
				}
			}
			for t := range y.Recv {
				if t.Origin() == x.Name && t.Num() > x.NextTxn {
					x.NextTxn = t.Num()
				}
			}
			for t := range y.Pend {
				if t.Origin() == x.Name && t.Num() > x.NextTxn {
					x.NextTxn = t.Num()
				}
			}
		}
	}
	s.W.Unlock()
	for h, p := range sc.Prio {
		if _, casc := sc.Cascade[h]; !casc {
			s.Z.Put(vNS+"/ha_nodes/"+h, fmt.Sprintf(`{"priority":%d}`, p))
		}
	}
	s.publishConverged(sc.Master, sc.Cascade)
	if sc.Active != nil {
		b, _ := json.Marshal(sc.Active)
		s.Z.Put(vNS+"/"+pathActiveNodes, string(b))
	}
}

// fileRequest writes the switch key the way the CLI / a worker / the manager does.
func (s *vSim) fileRequest(sc *vScenario) {
	r := sc.Req
	if r.Kind == "none" || r.Kind == "" || r.Kind == "auto" {
		return
	}
	sw := Switchover{From: r.From, To: r.To, InitiatedBy: "verif@" + sc.Manager, InitiatedAt: time.Now()}
	switch r.Kind {
	case "to", "from":
		sw.Cause = CauseManual
		sw.MasterTransition = SwitchoverTransition
	case "forced":
		sw.Cause = CauseManual
		sw.MasterTransition = FailoverTransition
	case "forcedto":
		sw.Cause = CauseManual
		sw.MasterTransition = FailoverTransition
		sw.From = ""
	case "worker":
		sw.Cause = CauseWorker // no transition, as the project's worker writes it
	}
	b, _ := json.Marshal(&sw)
	s.Z.Put(vNS+"/"+pathCurrentSwitch, string(b))
}

func sortedKeys[T any](m map[string]T) []string {
	var r []string
	for k := range m {
		r = append(r, k)
	}
	sort.Strings(r)
	return r
}
