//go:build verif

package app

// C19 driver: (1) registries x status x lag x settings x failing call through the real
// Syncer.Sync on fakes; (2) switchovers with a lagging target (turbo phase).

import (
	"fmt"
	"math/rand"
	"os"
	"strings"
	"testing"
	"testing/synctest"
	"time"

	app_dcs "github.com/yandex/mysync/internal/app/dcs"
	"github.com/yandex/mysync/internal/config"
	"github.com/yandex/mysync/internal/verifsim"
)

type optHost struct {
	IsMaster  bool   `json:"ismaster"`
	Lag       int    `json:"lag"`
	DurBefore string `json:"durbefore"`
	DurAfter  string `json:"durafter"`
	RegBefore bool   `json:"regbefore"`
	RegAfter  bool   `json:"regafter"`
	Status    string `json:"status"`
}

type optDrop struct {
	Host        string `json:"host"`
	Restored    bool   `json:"restored"`
	ClusterHost bool   `json:"clusterhost"`
}

type optRow struct {
	Kind      string             `json:"kind"`
	Scn       string             `json:"scn"`
	Hosts     map[string]optHost `json:"hosts"`
	MasterDur string             `json:"masterdur"`
	LowMark   int                `json:"lowmark"`
	HighMark  int                `json:"highmark"`
	Drops     []optDrop          `json:"drops"`
	Completed bool               `json:"completed"`
	Faulted   bool               `json:"faulted"`
	Seq       int                `json:"seq"`
}

type c19Hook struct {
	n, at  int
	fired  *bool
	zk     bool
}

func (h *c19Hook) BeforeSQL(c *verifsim.SQLCall) verifsim.Decision {
	if c.By == "" || !c.Mut {
		return verifsim.Decision{}
	}
	h.n++
	if h.n == h.at && !h.zk {
		*h.fired = true
		return verifsim.Decision{Err: &verifsim.MyErr{Code: 1105, State: "HY000", Msg: "injected failure"}}
	}
	return verifsim.Decision{}
}
func (h *c19Hook) AfterSQL(c *verifsim.SQLCall, res string) {}

func TestVerifC19(t *testing.T) {
	out := vNewRows(t, "rows.ndjson")
	defer out.close()
	meta := vNewRows(t, "meta.ndjson")
	defer meta.close()
	si, sn := vShard()
	budget := vEnvInt("VERIF_RUNS", 300)
	if os.Getenv("VERIF_FULL") != "" {
		budget = 30000
	}
	lags := []int{-1, 10, 59, 60, 61, 119, 120, 121, 500}
	durs := [][2]int{{1, 1}, {2, 1000}, {2, 1}}
	all := []string{"h1", "h2", "h3", "h4", "h5", "h6"}
	rng := rand.New(rand.NewSource(int64(vEnvInt("VERIF_SEED", 1))*977 + int64(si)))
	part := os.Getenv("VERIF_PART")
	if si < 12 && part != "switch" {
		synctest.Test(t, func(t *testing.T) {
			s := vNewSim(t, all, nil, func(cfg *config.Config) {
				cfg.OptimizationConfig.LowReplicationMark = 60 * time.Second
				cfg.OptimizationConfig.HighReplicationMark = 120 * time.Second
			})
			defer s.shutdown()
			s.buildConverged("h1", 1, 3, nil)
			in := s.startInstance("h1")
			s.tick("h1")
			app := in.app
			_ = app.cluster.UpdateHostsInfo()
			var drops []optDrop
			durOf := func(x *verifsim.MyHost) string { return fmt.Sprintf("%d/%d", x.Flush, x.SyncBin) }
			s.onEv = func(ev *verifsim.TraceEvent, wl bool) {
				if ev.K == "zk" && strings.HasPrefix(ev.At, "optimization_nodes/") && ev.Op == "Delete" && ev.Res == "ok" && ev.By != "tool" {
					h := strings.TrimPrefix(ev.At, "optimization_nodes/")
					d := optDrop{Host: h}
					if s.W.TryLock() {
						x, m := s.W.Hosts[h], s.W.Hosts["h1"]
						d.ClusterHost = x != nil && h != "h6x"
						d.Restored = x != nil && durOf(x) == durOf(m)
						s.W.Unlock()
					}
					drops = append(drops, d)
				}
			}
			fired := false
			hook := &c19Hook{fired: &fired}
			s.setHook(hook)
			for run := 0; run < budget; run++ {
				n := 1 + rng.Intn(5)
				id := fmt.Sprintf("c19-sync-%d-%d", si, run)
				hs := map[string]optHost{}
				s.Z.Remove(vNS + "/optimization_nodes")
				s.W.Lock()
				m := s.W.Hosts["h1"]
				m.Flush, m.SyncBin = 1, 1
				hs["h1"] = optHost{IsMaster: true, Lag: -1, DurBefore: "1/1"}
				s.W.Unlock()
				for k := 0; k < n; k++ {
					h := all[1+k]
					lag := lags[rng.Intn(len(lags))]
					d := durs[rng.Intn(len(durs))]
					reg := rng.Intn(4) != 0
					status := []string{"", "enabled"}[rng.Intn(2)]
					s.W.Lock()
					x := s.W.Hosts[h]
					x.Flush, x.SyncBin = d[0], d[1]
					x.Lag = float64(lag)
					x.LagNull = lag < 0
					s.W.Unlock()
					if reg {
						s.Z.Put(vNS+"/optimization_nodes/"+h, fmt.Sprintf(`{"status":"%s"}`, status))
					}
					hs[h] = optHost{Lag: lag, DurBefore: fmt.Sprintf("%d/%d", d[0], d[1]), RegBefore: reg, Status: status}
				}
				if rng.Intn(6) == 0 {
					// the master itself registered by mistake
					s.Z.Put(vNS+"/optimization_nodes/h1", `{"status":""}`)
					x := hs["h1"]
					x.RegBefore = true
					hs["h1"] = x
				}
				for seq := 0; seq < 2; seq++ {
					drops = nil
					fired = false
					hook.n = 0
					hook.at = 0
					if rng.Intn(3) == 0 {
						hook.at = 1 + rng.Intn(6)
					}
					state := app.getClusterStateFromDB()
					adapter := app_dcs.NewOptimizationClusterAdapter(app.cluster, state, "h1")
					err := app.optSyncer.Sync(adapter)
					row := optRow{Kind: "sync", Scn: id, Hosts: map[string]optHost{}, MasterDur: "1/1", LowMark: 60, HighMark: 120, Drops: append([]optDrop{}, drops...),
						Completed: err == nil, Faulted: fired, Seq: seq}
					reg := map[string]bool{}
					for _, c := range s.Z.ChildrenOf(vNS + "/optimization_nodes") {
						reg[c] = true
					}
					s.W.Lock()
					for h, v := range hs {
						v.DurAfter = durOf(s.W.Hosts[h])
						v.RegAfter = reg[h]
						row.Hosts[h] = v
					}
					s.W.Unlock()
					out.emit(row)
					// next sync starts from this one's end state
					for h, v := range row.Hosts {
						v.DurBefore, v.RegBefore = v.DurAfter, v.RegAfter
						hs[h] = v
					}
				}
			}
		})
	}
	// ---- part 2: switchovers with a lagging target (the pre-switchover speed-up phase) ----
	k := 0
	for _, rq := range []reqSpec{{Kind: "to", To: "h2"}, {Kind: "from", From: "h1"}} {
		if part == "sync" {
			break
		}
		for _, lag := range []int{0, 90, 300} {
			for _, pol := range []string{"lazy", "eager"} {
				k++
				if k%sn != si {
					continue
				}
				id := fmt.Sprintf("c19-switch-%s%s%s-lag%d-%s", rq.Kind, rq.To, rq.From, lag, pol)
				sc := vScenario{ID: id, Hosts: []string{"h1", "h2", "h3"}, Master: "h1", Manager: "h3", W: 1, Base: 3, Req: rq, Policy: pol, Rounds: 8,
					Cfg: map[string]any{"catchup_timeout": 4}}
				res := vRun(t, &sc, vRunOpts{setup: func(s *vSim) {
					s.W.Lock()
					s.W.Hosts["h2"].Lag = float64(lag)
					s.W.Hosts["h3"].Lag = float64(lag)
					s.W.Unlock()
				}})
				if res.skipped {
					continue
				}
				for _, p := range res.promos {
					out.emit(p)
				}
				for _, a := range res.atts {
					out.emit(a)
				}
				meta.emit(map[string]any{"scn": id, "scenario": sc})
			}
		}
	}
	// a replica that is ALREADY being optimised (registered, relaxed) when a switchover to another node is requested
	for _, rq := range []reqSpec{{Kind: "to", To: "h2"}, {Kind: "to", To: "h3"}, {Kind: "from", From: "h1"}, {Kind: "auto"}} {
		if part == "sync" {
			break
		}
		for _, status := range []string{"", "enabled"} {
			k++
			if k%sn != si {
				continue
			}
			id := fmt.Sprintf("c19-preopt-%s%s%s-st%s", rq.Kind, rq.To, rq.From, status)
			sc := vScenario{ID: id, Hosts: []string{"h1", "h2", "h3"}, Master: "h1", Manager: "h3", W: 1, Base: 3, Req: rq, Policy: "lazy", Rounds: 8,
				Shape: map[string]hostShape{}, Cfg: map[string]any{"catchup_timeout": 4}}
			if rq.Kind == "auto" {
				sc.Shape["h1"] = hostShape{Down: true}
			}
			res := vRun(t, &sc, vRunOpts{setup: func(s *vSim) {
				s.W.Lock()
				x := s.W.Hosts["h2"]
				x.Flush, x.SyncBin = 2, 1000
				x.Lag = 200
				s.W.Unlock()
				s.Z.Put(vNS+"/optimization_nodes/h2", fmt.Sprintf(`{"status":"%s"}`, status))
			}})
			if res.skipped {
				continue
			}
			for _, p := range res.promos {
				out.emit(p)
			}
			for _, a := range res.atts {
				out.emit(a)
			}
			meta.emit(map[string]any{"scn": id, "scenario": sc})
		}
	}
	meta.emit(map[string]any{"summary": true, "runs": out.n, "bases": out.n, "stragglers": vStragglers})
}
