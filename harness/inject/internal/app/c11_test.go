//go:build verif

package app

// C11 driver: GTID relation x replication state x read-only x stuck commits x resetup file,
// interleavings of the host's recovery check with manager iterations and a further switchover.

import (
	"github.com/yandex/mysync/internal/config"
	"time"
	"testing/synctest"
	"encoding/json"
	"fmt"
	"os"
	"strings"
	"testing"

	"github.com/yandex/mysync/internal/verifsim"
)

func TestVerifC11(t *testing.T) {
	out := vNewRows(t, "rows.ndjson")
	defer out.close()
	meta := vNewRows(t, "meta.ndjson")
	defer meta.close()
	si, sn := vShard()
	k := 0
	runs := 0
	for _, rel := range []string{"behind", "equal", "ahead", "diverged"} {
		for _, repl := range []string{"running", "ioerror", "sqlerror", "none"} {
			for _, ro := range []string{"sro", "rw", "rw_cannot_fence"} {
				for _, stuck := range []bool{false, true} {
					for _, rfile := range []bool{false, true} {
						for _, order := range []string{"hostfirst", "managerfirst", "withswitch"} {
							k++
							if k%sn != si {
								continue
							}
							if stuck && repl != "none" && repl != "running" {
								// commits stuck on an ex-master that still thinks it is a master, or that was already
								// re-pointed (stale-master repair whose offline/semi-sync step failed)
								continue
							}
							id := fmt.Sprintf("c11-%s-%s-%s-st%v-rf%v-%s", rel, repl, ro, stuck, rfile, order)
							hosts := []string{"h1", "h2", "h3"}
							sc := vScenario{ID: id, Hosts: hosts, Master: "h1", Manager: "h3", W: 1, Base: 3, Req: reqSpec{Kind: "none"}, Policy: "flow", Rounds: 10,
								Cfg: map[string]any{"failover": false}}
							if stuck && repl == "running" {
								sc.Rounds = 75 // the resetup marker of a stuck host is written after one minute
							}
							if order == "withswitch" {
								sc.Req = reqSpec{Kind: "to", To: "h3"}
								sc.Manager = "h1"
							}
							if ro == "rw_cannot_fence" {
								// the manager's attempts to make it read-only keep failing: it stays writable
								sc.Fault = &faultSpec{Chan: "sql", Stmt: "SetSuperReadOnly", At: "h2", Occ: 0, Kind: "fail"}
							}
							var rows []map[string]any
							marked := true
							res := vRun(t, &sc, vRunOpts{
								setup: func(s *vSim) {
									s.Z.Put(vNS+"/"+pathRecovery+"/h2", "null")
									s.Z.Put(vNS+"/"+pathActiveNodes, `["h1","h3"]`)
									s.W.Lock()
									h1, h2, h3 := s.W.Hosts["h1"], s.W.Hosts["h2"], s.W.Hosts["h3"]
									switch rel {
									case "behind":
										h1.Exec.Add("h1:50")
										h3.Exec.Add("h1:50")
									case "ahead":
										h2.Exec.Add("h2:9")
									case "diverged":
										h1.Exec.Add("h1:50")
										h3.Exec.Add("h1:50")
										h2.Exec.Add("h2:9")
									}
									h2.RO = strings.SplitN(ro, "_", 2)[0]
									h2.SsS, h2.SsSAct = false, false
									switch repl {
									case "ioerror":
										h2.IO, h2.IOErrno = "No", 13114
									case "sqlerror":
										h2.SQL, h2.SQLErrno = false, 1146
									case "none":
										h2.Src, h2.IO, h2.SQL = "", "No", false
										h2.Offline = true
									}
									if stuck {
										h2.Pend.Add("h2:77")
										h2.SsM = true
										h2.KillIneffective = true
									}
									s.W.Unlock()
									if rfile {
										os.MkdirAll(s.dir+"/h2", 0o755)
										os.WriteFile(s.dir+"/h2/mysync.resetup", []byte{}, 0o644)
									}
									prev := s.onEv
									s.onEv = func(ev *verifsim.TraceEvent, wl bool) {
										if prev != nil {
											prev(ev, wl)
										}
										if ev.K == "zk" && strings.HasPrefix(ev.At, pathRecovery+"/") && ev.Op == "Delete" && ev.Res == "ok" {
											h := strings.TrimPrefix(ev.At, pathRecovery+"/")
											row := map[string]any{"kind": "clear", "scn": id, "by": ev.By, "host": h, "src": "?", "ro": "?", "ioerr": -1, "sqlerr": -1, "execsubset": false}
											if s.W.TryLock() {
												x := s.W.Hosts[h]
												m := s.W.Hosts[s.lastMasterStr()]
												row["src"], row["ro"], row["ioerr"], row["sqlerr"] = x.Src, x.RO, x.IOErrno, x.SQLErrno
												if m != nil {
													// "holds": executed or sitting in its binlog waiting for an acknowledgement
													hold := x.Exec.Clone()
													for t := range x.Pend {
														hold.Add(t)
													}
													row["execsubset"] = hold.SubsetOf(m.Exec)
												}
												s.W.Unlock()
											}
											if h == "h2" {
												marked = false
											}
											rows = append(rows, row)
										}
										if ev.K == "zk" && ev.At == pathActiveNodes && ev.Res == "ok" && (ev.Op == "SetData" || ev.Op == "Create") && ev.By != "tool" {
											var v []string
											json.Unmarshal([]byte(ev.Arg), &v)
											bad := false
											for _, x := range v {
												if x == "h2" && marked && s.lastMasterStr() != "h2" {
													bad = true
												}
											}
											rows = append(rows, map[string]any{"kind": "listed", "scn": id, "value": v, "markedlisted": bad})
										}
									}
								},
								perRound: func(s *vSim, round int) bool {
									// interleaving: the marked host's recovery check before or after the manager's tick
									if order == "hostfirst" {
										s.recovery("h2")
									}
									return false
								},
								finish: func(s *vSim, r *vRunResult) {
									s.W.Lock()
									x := s.W.Hosts["h2"]
									m := s.W.Hosts[s.lastMasterStr()]
									hold := x.Exec.Clone()
									for t := range x.Pend {
										hold.Add(t)
									}
									sub := m != nil && hold.SubsetOf(m.Exec)
									end := map[string]any{"kind": "end", "scn": id, "host": "h2", "isreplica": x.Src != "", "execsubset": sub,
										"replerror": x.IOErrno != 0 || x.SQLErrno != 0, "ro": x.RO, "resetupfile": false, "marked": false, "resetupfile0": rfile, "stuck": stuck}
									s.W.Unlock()
									end["resetupfile"] = s.fileExists("h2", "resetup")
									_, mk := s.zkGet(pathRecovery + "/h2")
									end["marked"] = mk
									rows = append(rows, end)
								}})
							runs++
							if res.skipped {
								continue
							}
							for _, p := range res.promos {
								rows = append(rows, map[string]any{"kind": "listed", "scn": id, "value": []string{p.P}, "markedlisted": p.P == "h2" && marked})
							}
							for _, r := range rows {
								out.emit(r)
							}
							meta.emit(map[string]any{"scn": id, "scenario": sc})
						}
					}
				}
			}
		}
	}
	// marking: switchovers / repairs that must mark the old / second master
	for _, v := range []string{"failover_dead_master", "switchover_master_ahead", "second_master",
		"second_master+StopReplica", "second_master+ChangeSource", "second_master+StartReplica", "second_master+SetOffline"} {
	  // history: a fresh tree, or one in which an earlier recovery has come and gone (ClearRecovery removes the mark,
	  // the parent node stays for ever)
	  for _, parent := range []bool{false, true} {
		v, parent := v, parent
		k++
		if k%sn != si {
			continue
		}
		id := "c11-mark-" + v
		if parent {
			id += "+after_earlier_recovery"
		}
		hosts := []string{"h1", "h2", "h3"}
		sc := vScenario{ID: id, Hosts: hosts, Master: "h1", Manager: "h2", W: 1, Base: 3, Req: reqSpec{Kind: "none"}, Policy: "flow", Rounds: 8, Shape: map[string]hostShape{},
			Cfg: map[string]any{"catchup_timeout": 4}}
		who := "h1"
		switch v {
		case "failover_dead_master":
			sc.Req = reqSpec{Kind: "auto"}
			sc.Shape["h1"] = hostShape{Down: true}
		case "switchover_master_ahead":
			// the old master cannot be frozen and holds a transaction nobody else has
			sc.Req = reqSpec{Kind: "forced", From: "h1"}
			sc.Shape["h1"] = hostShape{Exec: []string{"h1:300"}}
			sc.Fault = &faultSpec{Chan: "sql", Stmt: "SetSuperReadOnly", At: "h1", Occ: 0, Kind: "fail"}
			sc.Policy = "lazy"
		case "second_master":
			who = "h3"
		}
		if strings.HasPrefix(v, "second_master+") {
			// one step of the stale-master repair fails once: the host must be marked all the same
			who = "h3"
			sc.Fault = &faultSpec{Chan: "sql", Stmt: strings.TrimPrefix(v, "second_master+"), At: "h3", Occ: 0, Times: 1, Kind: "fail"}
		}
		seen := false
		markedNow := false
		var listed []map[string]any
		res := vRun(t, &sc, vRunOpts{setup: func(s *vSim) {
			if parent {
				s.Z.Put(vNS+"/"+pathRecovery, "null")
			}
			if strings.HasPrefix(v, "second_master") {
				s.W.Lock()
				x := s.W.Hosts["h3"]
				x.Src, x.IO, x.SQL, x.RO = "", "No", false, "rw"
				s.W.Unlock()
			}
			prev := s.onEv
			s.onEv = func(ev *verifsim.TraceEvent, wl bool) {
				if prev != nil {
					prev(ev, wl)
				}
				if ev.K == "zk" && ev.At == pathRecovery+"/"+who && ev.Op == "Create" && ev.Res == "ok" {
					seen = true
					markedNow = true
				}
				if ev.K == "zk" && ev.At == pathRecovery+"/"+who && ev.Op == "Delete" && ev.Res == "ok" {
					markedNow = false
				}
				// while marked (and not the recorded master) the host must not be in any published list
				if ev.K == "zk" && ev.At == pathActiveNodes && ev.Res == "ok" && (ev.Op == "SetData" || ev.Op == "Create") && ev.By != "tool" {
					var val []string
					json.Unmarshal([]byte(ev.Arg), &val)
					bad := false
					for _, x := range val {
						if x == who && markedNow && s.lastMasterStr() != who {
							bad = true
						}
					}
					listed = append(listed, map[string]any{"kind": "listed", "scn": id, "value": val, "markedlisted": bad})
				}
			}
		}})
		runs++
		if res.skipped {
			continue
		}
		out.emit(map[string]any{"kind": "mustmark", "scn": id, "host": who, "markseen": seen})
		for _, r := range listed {
			out.emit(r)
		}
		meta.emit(map[string]any{"scn": id, "scenario": sc})
	  }
	}
	// ---- part 3: the decision table of checkRecovery, cell by cell (Recovery.tla) ----
	bools := []bool{false, true}
	for _, rfile := range bools {
		for _, status := range bools {
			for _, stuck := range bools {
				for _, stucklong := range bools {
					for _, ismaster := range bools {
						for _, rel := range []string{"within", "ahead"} {
							for _, replerr := range bools {
								for _, ro := range bools {
									if (stucklong && !stuck) || (!status && replerr) || (ismaster && rel == "ahead") {
										continue
									}
									k++
									if k%sn != si {
										continue
									}
									id := fmt.Sprintf("c11-decide-rf%v-st%v-stuck%v-long%v-m%v-%s-err%v-ro%v", rfile, status, stuck, stucklong, ismaster, rel, replerr, ro)
									dec := c11Decide(t, id, rfile, status, stuck, stucklong, ismaster, rel, replerr, ro)
									runs++
									out.emit(map[string]any{"kind": "decide", "scn": id, "rfile": rfile, "status": status, "stuck": stuck, "stucklong": stucklong,
										"ismaster": ismaster, "rel": rel, "replerr": replerr, "ro": ro, "decision": dec})
									meta.emit(map[string]any{"scn": id, "scenario": map[string]any{"id": id}})
								}
							}
						}
					}
				}
			}
		}
	}
	meta.emit(map[string]any{"summary": true, "runs": runs, "bases": runs, "stragglers": vStragglers})
	_ = verifsim.Txn("")
}

// c11Decide builds one cell of the observation product around host h2 (marked for recovery, its mysync alone is
// running), runs the REAL recovery check and reports what it did: "clear" (mark removed), "resetup" (marker file
// written), "none", or "panic: ...".
func c11Decide(t *testing.T, id string, rfile, status, stuck, stucklong, ismaster bool, rel string, replerr, ro bool) (dec string) {
	dec = "none"
	if out := os.Getenv("VERIF_OUT"); out != "" {
		_ = os.WriteFile(out+"/current.json", []byte(fmt.Sprintf(`{"id":%q}`, id)), 0o644)
	}
	defer func() {
		if r := recover(); r != nil && !strings.Contains(fmt.Sprint(r), "blocked goroutines remain") {
			panic(r)
		}
	}()
	synctest.Test(t, func(t *testing.T) {
		hosts := []string{"h1", "h2", "h3"}
		s := vNewSim(t, hosts, nil, func(cfg *config.Config) { cfg.Failover = false })
		defer s.shutdown()
		sc := &vScenario{ID: id, Hosts: hosts, Master: "h1", Manager: "h2", W: 1, Base: 3, Policy: "frozen"}
		s.applyShape(sc)
		hook := newHook(s, "frozen")
		s.setHook(hook)
		s.Z.Hook = hook
		master := "h1"
		if ismaster {
			master = "h2"
		}
		s.Z.Put(vNS+"/"+pathMasterNode, fmt.Sprintf("%q", master))
		s.Z.Put(vNS+"/"+pathRecovery+"/h2", "null")
		s.W.Lock()
		h2 := s.W.Hosts["h2"]
		if !status {
			h2.Src, h2.IO, h2.SQL = "", "No", false
		}
		if replerr {
			h2.IO, h2.IOErrno = "No", 13114
		}
		if stuck {
			h2.Pend.Add("h2:77")
			h2.SsM = true
			h2.KillIneffective = true
		}
		if rel == "ahead" {
			h2.Exec.Add("h2:9")
		}
		h2.RO = "sro"
		if !ro {
			h2.RO = "rw"
		}
		s.W.Unlock()
		in := s.startInstance("h2")
		if rfile {
			os.MkdirAll(s.dir+"/h2", 0o755)
			os.WriteFile(s.dir+"/h2/mysync.resetup", []byte{}, 0o644)
		}
		if !in.app.dcs.WaitConnected(10 * time.Second) {
			t.Fatal("h2 cannot connect")
		}
		s.recovery("h2")
		if stucklong {
			time.Sleep(61 * time.Second)
			s.recovery("h2")
		}
		if len(in.panics) > 0 {
			dec = "panic: " + in.panics[0]
			return
		}
		if _, marked := s.zkGet(pathRecovery + "/h2"); !marked {
			dec = "clear"
		} else if !rfile && s.fileExists("h2", "resetup") {
			dec = "resetup"
		}
	})
	return dec
}
