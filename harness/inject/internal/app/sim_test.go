//go:build verif

package app

// Deterministic cluster simulation: REAL mysync code (App, zkDCS, Cluster,
// Node) on the wire-level fakes of internal/verifsim, inside testing/synctest.

import (
	"runtime/debug"
	"bytes"
	"context"
	"encoding/json"
	"fmt"
	"net"
	"os"
	"path/filepath"
	"runtime"
	"sort"
	"strings"
	"sync"
	"sync/atomic"
	"testing"
	"time"

	mysqldrv "github.com/go-sql-driver/mysql"
	"github.com/go-zookeeper/zk"
	"github.com/rs/zerolog"

	nodestate "github.com/yandex/mysync/internal/app/node_state"
	"github.com/yandex/mysync/internal/app/resetup"
	"github.com/yandex/mysync/internal/config"
	"github.com/yandex/mysync/internal/dcs"
	"github.com/yandex/mysync/internal/mysql"
	"github.com/yandex/mysync/internal/util"
	"github.com/yandex/mysync/internal/verifsim"
)

const vNS = "/mysync"

// the MySQL driver's dialer is process-global: it routes to the current world
var (
	vCurWorldMu sync.Mutex
	vCurWorld   *verifsim.MyWorld
	vDialOnce   sync.Once
)

func vRegisterDial() {
	vDialOnce.Do(func() {
		mysqldrv.RegisterDialContext("tcp", func(ctx context.Context, addr string) (net.Conn, error) {
			vCurWorldMu.Lock()
			w := vCurWorld
			vCurWorldMu.Unlock()
			if w == nil {
				return nil, fmt.Errorf("no world")
			}
			dl, _ := ctx.Deadline()
			return w.Dial(addr, dl)
		})
	})
}

type vInst struct {
	name    string // host it runs on
	app     *App
	zkc     *zk.Conn
	rawDCS  dcs.DCS
	inc     int
	dead    bool
	logBuf  *bytes.Buffer
	dir     string
	hcFile  string
	hcPos   int64
	panics  []string
	acts    int // handler activations so far
	lockLog []bool
	deadCh  chan struct{}
}

type vSim struct {
	t      *testing.T
	W      *verifsim.MyWorld
	Z      *verifsim.ZkServer
	mu     sync.Mutex
	trace  []verifsim.TraceEvent
	start  time.Time
	insts  map[string]*vInst
	allInsts []*vInst
	dir    string
	cfgMod func(*config.Config)
	hook   verifsim.MyHook
	hosts  []string
	keepLog bool
	onEv    func(ev *verifsim.TraceEvent, worldLocked bool)
	tickWG  sync.WaitGroup // handler goroutines (incl. zombies of killed processes)
	maintNow, lastSwitchNow, h1Health string // C05: driver-side copies of tree values (refreshed per round)
	activeNow []string
	lastActiveList []string // C09: last value written to active_nodes
	lastSrcC1 string // C16: source and thread state of the cascade replica at the start of the round
	c1WasRepl bool
	lastMaster atomic.Value // last value written to the master key (string)
	freezeSeen atomic.Bool // a freeze call (read-only / stop IO) was applied: lazy replication may move
}

func (s *vSim) now() int64 { return time.Since(s.start).Milliseconds() }

func (s *vSim) logEv(ev verifsim.TraceEvent) verifsim.TraceEvent {
	s.mu.Lock()
	ev.N = len(s.trace) + 1
	ev.T = s.now()
	s.trace = append(s.trace, ev)
	s.mu.Unlock()
	return ev
}

// observe: the single observer hook, called at the linearisation point of every event
func (s *vSim) observe(ev verifsim.TraceEvent, worldLocked bool) {
	if s.onEv != nil {
		s.onEv(&ev, worldLocked)
	}
}

func (s *vSim) appEv(by, op, arg, res string) {
	s.observe(s.logEv(verifsim.TraceEvent{K: "app", By: by, Op: op, Arg: arg, Res: res}), false)
}

func (s *vSim) appEvVal(by, op, arg, res, val string) {
	s.observe(s.logEv(verifsim.TraceEvent{K: "app", By: by, Op: op, Arg: arg, Res: res, Val: val}), false)
}

// modeProbe: white-box state the mode machine depends on (Daemon.tla): the quorum-loss timer
// (virtual ms since the scenario start, -1 = zero), the maintenance marker file, the hand-over switch
func (s *vSim) modeProbe(in *vInst) string {
	lq := int64(-1)
	if !in.app.lostQuorumTime.IsZero() {
		lq = in.app.lostQuorumTime.Sub(s.start).Milliseconds()
	}
	_, err := os.Stat(in.app.config.Maintenancefile)
	return fmt.Sprintf("%d %v %v %d %d", lq, err == nil, in.app.config.ManagerSwitchover,
		in.app.config.ManagerElectionDelayAfterQuorumLoss.Milliseconds(), in.app.config.ManagerLockAcquireDelayAfterQuorumLoss.Milliseconds())
}

// vNewSim creates the world: MySQL servers `hosts`, a ZooKeeper ensemble whose
// tree registers them as HA nodes (cascade: host -> stream_from).
func vNewSim(t *testing.T, hosts []string, cascade map[string]string, cfgMod func(*config.Config)) *vSim {
	vRegisterDial()
	dir, err := os.MkdirTemp("", "verifsim-")
	if err != nil {
		t.Fatal(err)
	}
	s := &vSim{t: t, W: verifsim.NewMyWorld(hosts...), Z: verifsim.NewZkServer(), start: time.Now(), insts: map[string]*vInst{},
		dir: dir, cfgMod: cfgMod, hosts: hosts}
	s.W.Log = func(ev verifsim.TraceEvent) { s.observe(s.logEv(ev), true) }
	s.Z.Log = func(op verifsim.ZkOp) {
		val := op.PostData
		if !op.PostExists {
			val = ""
		}
		arg := op.Data
		if op.Op == "Children" {
			arg = strings.Join(op.Children, ",")
		}
		if len(op.Removed) > 0 {
			arg = strings.Join(op.Removed, ",")
		}
		mut := op.Op == "Create" || op.Op == "Delete" || op.Op == "SetData" || op.Op == "Expire" || op.Op == "Close" || op.Op == "ToolSet" || op.Op == "ToolDelete"
		if op.Path == vNS+"/"+pathMasterNode && op.Res == "ok" && (op.Op == "Create" || op.Op == "SetData" || op.Op == "ToolSet") {
			var m string
			if json.Unmarshal([]byte(op.Data), &m) == nil {
				s.lastMaster.Store(m)
			}
		}
		s.observe(s.logEv(verifsim.TraceEvent{K: "zk", By: op.Client, At: strings.TrimPrefix(op.Path, vNS+"/"), Op: op.Op, Arg: arg, Res: op.Res, Mut: mut && op.Res == "ok", Val: val}), false)

	}
	vCurWorldMu.Lock()
	vCurWorld = s.W
	vCurWorldMu.Unlock()
	for _, h := range hosts {
		if sf, ok := cascade[h]; ok {
			b, _ := json.Marshal(mysql.CascadeNodeConfiguration{StreamFrom: sf})
			s.Z.Put(vNS+"/"+dcs.PathCascadeNodesPrefix+"/"+h, string(b))
		} else {
			b, _ := json.Marshal(mysql.NodeConfiguration{Priority: 0})
			s.Z.Put(vNS+"/"+dcs.PathHANodesPrefix+"/"+h, string(b))
		}
	}
	return s
}

func (s *vSim) setHook(h verifsim.MyHook) { s.hook = h; s.W.Hook = h }

func (s *vSim) baseConfig(host string, inc int, dir string) *config.Config {
	cfg, err := config.DefaultConfig()
	if err != nil {
		s.t.Fatal(err)
	}
	cfg.Hostname = host
	cfg.MySQL.User = "mysync_" + host
	cfg.MySQL.Password = "secretpw"
	cfg.MySQL.ReplicationUser = "repl"
	cfg.MySQL.ReplicationPassword = "replpw"
	cfg.MySQL.PidFile = filepath.Join(dir, "mysqld.pid")
	cfg.MySQL.ErrorLog = filepath.Join(dir, "error.log")
	cfg.DSNSettings = "?interpolateParams=true"
	cfg.Lockfile = filepath.Join(dir, "mysync.lock")
	cfg.InfoFile = filepath.Join(dir, "mysync.info")
	cfg.Emergefile = filepath.Join(dir, "mysync.emerge")
	cfg.Resetupfile = filepath.Join(dir, "mysync.resetup")
	cfg.Maintenancefile = filepath.Join(dir, "mysync.maintenance")
	cfg.TestDiskUsageFile = filepath.Join(dir, "disk_usage")
	cfg.TestFilesystemReadonlyFile = filepath.Join(dir, "fs_ro")
	cfg.SemiSync = true
	cfg.Failover = true
	cfg.FailoverDelay = 0
	cfg.FailoverCooldown = time.Hour
	cfg.InactivationDelay = 5 * time.Second
	cfg.TickInterval = time.Second
	cfg.HealthCheckInterval = time.Second
	cfg.RecoveryCheckInterval = time.Second
	cfg.DBTimeout = 5 * time.Second
	cfg.DBLostCheckTimeout = time.Second
	cfg.DBSetRoTimeout = 30 * time.Second
	cfg.DBSetRoForceTimeout = 40 * time.Second
	cfg.DcsWaitTimeout = 5 * time.Second
	cfg.SwitchoverMaxAttempts = 3
	cfg.ReplicationRepairCooldown = 10 * time.Second
	cfg.ExcludeUsers = []string{"repl"}
	cfg.CriticalDiskUsage = 95
	cfg.NotCriticalDiskUsage = 90
	cfg.Zookeeper.Hostname = fmt.Sprintf("%s#%d", host, inc)
	cfg.Zookeeper.Namespace = vNS
	cfg.Zookeeper.SessionTimeout = 3 * time.Second
	cfg.Zookeeper.LockHeldTTL = 0
	cfg.Zookeeper.BackoffMaxRetries = 2
	cfg.Zookeeper.BackoffInterval = 10 * time.Millisecond
	cfg.Zookeeper.BackoffMaxInterval = 50 * time.Millisecond
	cfg.Zookeeper.BackoffMaxElapsedTime = time.Second
	cfg.Zookeeper.BackoffRandFactor = 0
	if s.cfgMod != nil {
		s.cfgMod(&cfg)
	}
	cfg.SetDynamicDefaults()
	return &cfg
}

// recording decorator around the real zkDCS: AcquireLock answers are invisible
// on the wire when served from the cache, so they are observed here.
type vRecDCS struct {
	dcs.DCS
	s    *vSim
	inst *vInst
}

func (r *vRecDCS) AcquireLock(path string) bool {
	ok := r.DCS.AcquireLock(path)
	r.inst.lockLog = append(r.inst.lockLog, ok)
	r.s.appEv(r.inst.name, "AcquireLock", path, fmt.Sprint(ok))
	return ok
}

func (r *vRecDCS) ReleaseLock(path string) {
	r.DCS.ReleaseLock(path)
	r.s.appEv(r.inst.name, "ReleaseLock", path, "")
}

// startInstance builds a mysync process for `host` the way NewApp+Run do
// (minus config file, syslog, file lock, signal handling, goroutine wiring).
func (s *vSim) startInstance(host string) *vInst {
	old := s.insts[host]
	inc := 1
	dir := filepath.Join(s.dir, host)
	if old != nil {
		inc = old.inc + 1
	} else {
		os.MkdirAll(dir, 0o755)
		os.WriteFile(filepath.Join(dir, "disk_usage"), []byte("10"), 0o644)
		os.WriteFile(filepath.Join(dir, "fs_ro"), []byte("false"), 0o644)
	}
	in := &vInst{name: host, inc: inc, dir: dir, logBuf: &bytes.Buffer{}, deadCh: make(chan struct{})}
	cfg := s.baseConfig(host, inc, dir)
	var lw zerolog.Logger
	if s.keepLog {
		lw = zerolog.New(zerolog.ConsoleWriter{Out: in.logBuf, NoColor: true, TimeFormat: "15:04:05.000"}).With().Timestamp().Logger()
	} else {
		lw = zerolog.Nop()
	}
	logger := &lw
	s.W.ReviveInstance(host)
	s.Z.Heal(host)
	raw, conn, err := dcs.VerifConnect(s.Z.Dialer(host), &verifsim.StaticHosts{}, &cfg.Zookeeper, logger, func(ev zk.Event) {
		if ev.Type == zk.EventSession {
			s.appEv(host, "ZkSessionEvent", ev.State.String(), "")
		}
	})
	if err != nil {
		s.t.Fatal(err)
	}
	in.zkc = conn
	in.rawDCS = raw
	extRepl, err := mysql.NewExternalReplication(util.Disabled, logger, cfg.ExternalReplicationChannel)
	if err != nil {
		s.t.Fatal(err)
	}
	app := &App{
		state:               stateFirstRun,
		config:              cfg,
		logger:              logger,
		t:                   NewTimings(),
		replRepairState:     make(map[string]*ReplicationRepairState),
		slaveReadPositions:  make(map[string]string),
		externalReplication: extRepl,
		switchHelper:        mysql.NewSwitchHelper(cfg),
		offlineModeFilter:   NewOfflineModeFilter(cfg, logger),
	}
	app.lagResetupper = resetup.NewLagResetupper(logger, app, cfg.ResetupHostLag.Seconds())
	app.dcs = &vRecDCS{DCS: raw, s: s, inst: in}
	app.appDCS = NewAppDCS(app.dcs, cfg, logger)
	app.cluster, err = mysql.NewCluster(cfg, logger, app.dcs)
	if err != nil {
		s.t.Fatal(err)
	}
	in.app = app
	s.insts[host] = in
	s.allInsts = append(s.allInsts, in)
	s.appEv(host, "Start", fmt.Sprint(inc), "")
	return in
}

// kill: the process dies: connections drop, the ZooKeeper session is left to expire.
func (s *vSim) kill(host string) {
	in := s.insts[host]
	if in == nil || in.dead {
		return
	}
	in.dead = true
	close(in.deadCh)
	s.appEv(host, "Kill", "", "")
	s.W.KillInstance(host)
	s.Z.Cut(host)
	// NB: the node handles are NOT closed here: the zombie handler goroutine may still
	// be inside a retry loop, and "database is closed" errors cost no virtual time
	go in.zkc.Close()
}

func (s *vSim) closeNodes(in *vInst) {
	c := in.app.cluster
	if c == nil {
		return
	}
	seen := map[*mysql.Node]bool{}
	for _, h := range c.AllNodeHosts() {
		if n := c.Get(h); n != nil && !seen[n] {
			seen[n] = true
			_ = n.Close()
		}
	}
	if n := c.Local(); n != nil && !seen[n] {
		_ = n.Close()
	}
}

// shutdown ends the scenario: every instance is stopped so that the bubble can drain.
func (s *vSim) shutdown() {
	for _, in := range s.allInsts {
		if !in.dead {
			in.dead = true
			close(in.deadCh)
			s.W.KillInstance(in.name)
			s.Z.Cut(in.name)
			in.zkc.Close()
		}
	}
	s.W.Shutdown()
	s.tickWG.Wait() // every handler goroutine has unwound
	for _, in := range s.allInsts {
		s.closeNodes(in)
	}
	// let stragglers (zk client close, pool cleaners, zombie handlers of killed
	// processes) run to completion on the virtual clock before the bubble ends
	time.Sleep(3 * time.Minute)
	vCurWorldMu.Lock()
	if vCurWorld == s.W {
		vCurWorld = nil
	}
	vCurWorldMu.Unlock()
	os.RemoveAll(s.dir)
}

// tick runs one iteration of Run's loop body for the instance: handlers are
// called until the state stops changing.  Panics are recovered (the process
// would have died) and recorded.  The body runs in its own goroutine so that a
// process killed in the middle of a handler does not hold up the driver: its
// goroutine unwinds in the background (every external call of it fails).
func (s *vSim) tick(host string) (final appState) {
	in := s.insts[host]
	if in == nil || in.dead {
		return ""
	}
	done := make(chan appState, 1)
	s.tickWG.Add(1)
	go func() {
		defer s.tickWG.Done()
		done <- s.tickBody(in)
	}()
	select {
	case st := <-done:
		return st
	case <-in.deadCh:
		return "DEAD"
	}
}

func (s *vSim) tickBody(in *vInst) (final appState) {
	host := in.name
	app := in.app
	handlers := map[appState](func() appState){
		stateFirstRun:    app.stateFirstRun,
		stateManager:     app.stateManager,
		stateCandidate:   app.stateCandidate,
		stateLost:        app.stateLost,
		stateMaintenance: app.stateMaintenance,
	}
	defer func() {
		if r := recover(); r != nil {
			buf := make([]byte, 4096)
			buf = buf[:runtime.Stack(buf, false)]
			in.panics = append(in.panics, fmt.Sprint(r)+vPanicSite())
			s.appEv(host, "Panic", string(app.state), fmt.Sprintf("%v\n%s", r, buf))
			final = "PANIC"
		}
	}()
	for i := 0; i < 6; i++ {
		if in.dead {
			return "DEAD"
		}
		st := app.state
		in.acts++
		s.appEvVal(host, "Enter", string(st), "", s.modeProbe(in))
		next := handlers[st]()
		if in.dead {
			s.appEv(host, "ExitDead", string(st), string(next))
			return "DEAD"
		}
		s.appEvVal(host, "Exit", string(st), string(next), s.modeProbe(in))
		if next == app.state {
			break
		}
		app.state = next
	}
	return app.state
}

// health runs the body of healthChecker once.
func (s *vSim) health(host string) {
	in := s.insts[host]
	if in == nil || in.dead {
		return
	}
	defer func() {
		if r := recover(); r != nil {
			in.panics = append(in.panics, fmt.Sprint(r)+vPanicSite())
			s.appEv(host, "Panic", "healthChecker", fmt.Sprint(r))
		}
	}()
	app := in.app
	s.appEv(host, "Enter", "health", "")
	hc := app.getLocalNodeState()
	in.hcFile, in.hcPos = hc.UpdateBinlogStatus(in.hcFile, in.hcPos)
	err := app.SetHealthState(app.config.Hostname, hc)
	s.appEv(host, "Exit", "health", fmt.Sprint(err))
}

// recovery runs the body of recoveryChecker once.
func (s *vSim) recovery(host string) {
	in := s.insts[host]
	if in == nil || in.dead {
		return
	}
	defer func() {
		if r := recover(); r != nil {
			in.panics = append(in.panics, fmt.Sprint(r)+vPanicSite())
			s.appEv(host, "Panic", "recoveryChecker", fmt.Sprint(r))
		}
	}()
	app := in.app
	s.appEv(host, "Enter", "recovery", "")
	app.checkRecovery()
	app.checkCrashRecovery()
	app.SetResetupStatus()
	s.appEv(host, "Exit", "recovery", "")
}

// round = every live instance: health check, recovery check, one tick; then 1s passes.
func (s *vSim) round(world func()) {
	hs := append([]string{}, s.hosts...)
	sort.Strings(hs)
	for _, h := range hs {
		s.health(h)
	}
	for _, h := range hs {
		s.recovery(h)
	}
	for _, h := range hs {
		s.tick(h)
		if world != nil {
			world()
		}
	}
	time.Sleep(time.Second)
}

func (s *vSim) lastMasterStr() string {
	m, _ := s.lastMaster.Load().(string)
	return m
}

// ---- ground truth helpers -------------------------------------------------------

func (s *vSim) zkGet(key string) (string, bool) {
	d, _, _, ok := s.Z.NodeInfo(vNS + "/" + key)
	return d, ok
}

func (s *vSim) zkMaster() string {
	d, ok := s.zkGet(pathMasterNode)
	if !ok {
		return ""
	}
	var m string
	json.Unmarshal([]byte(d), &m)
	return m
}

func (s *vSim) zkActive() []string {
	d, ok := s.zkGet(pathActiveNodes)
	if !ok {
		return nil
	}
	var a []string
	json.Unmarshal([]byte(d), &a)
	return a
}

func (s *vSim) fileExists(host, which string) bool {
	in := s.insts[host]
	if in == nil {
		return false
	}
	var p string
	switch which {
	case "emerge":
		p = in.app.config.Emergefile
	case "resetup":
		p = in.app.config.Resetupfile
	case "maintenance":
		p = in.app.config.Maintenancefile
	}
	_, err := os.Stat(p)
	return err == nil
}

// buildConverged puts the world into a healthy semi-sync cluster: master
// writable/online with semi-sync master on (wait count = min(replicas, w)),
// every other HA host a running semi-sync replica, the tree holding master,
// active_nodes and fresh health records are NOT written (instances do that).
func (s *vSim) buildConverged(master string, w int, txns int, cascade map[string]string) {
	s.W.Lock()
	defer s.W.Unlock()
	m := s.W.Hosts[master]
	for i := 1; i <= txns; i++ {
		m.Exec.Add(verifsim.Txn(fmt.Sprintf("%s:%d", master, i)))
	}
	m.NextTxn = txns
	nrep := 0
	for _, h := range s.hosts {
		if h == master {
			continue
		}
		r := s.W.Hosts[h]
		r.RO = "sro"
		r.Offline = false
		r.SQL = true
		r.IO = "Yes"
		r.Exec = m.Exec.Clone()
		if sf, ok := cascade[h]; ok {
			r.Src = sf
			continue
		}
		r.Src = master
		r.SsS, r.SsSAct = true, true
		nrep++
	}
	m.RO = "rw"
	m.Offline = false
	m.Src = ""
	n := nrep + 1
	req := n / 2
	if w < req {
		req = w
	}
	if req > 0 {
		m.SsM = true
		m.Wsc = req
	}
}

func (s *vSim) publishConverged(master string, cascade map[string]string) {
	b, _ := json.Marshal(master)
	s.Z.Put(vNS+"/"+pathMasterNode, string(b))
	var act []string
	for _, h := range s.hosts {
		if _, ok := cascade[h]; !ok {
			act = append(act, h)
		}
	}
	sort.Strings(act)
	b, _ = json.Marshal(act)
	s.Z.Put(vNS+"/"+pathActiveNodes, string(b))
}

func (s *vSim) traceCopy() []verifsim.TraceEvent {
	s.mu.Lock()
	defer s.mu.Unlock()
	return append([]verifsim.TraceEvent{}, s.trace...)
}

func (s *vSim) dumpTrace(path string) {
	f, err := os.Create(path)
	if err != nil {
		return
	}
	defer f.Close()
	enc := json.NewEncoder(f)
	for _, ev := range s.traceCopy() {
		enc.Encode(ev)
	}
}

var _ = nodestate.NodeState{}


// vPanicSite names the innermost frames of mysync's own code on the panicking stack.
func vPanicSite() string {
	var sites []string
	for _, ln := range strings.Split(string(debug.Stack()), "\n") {
		ln = strings.TrimSpace(ln)
		if strings.HasPrefix(ln, "/repo/internal/") && !strings.Contains(ln, "zzverif_") {
			if i := strings.IndexByte(ln, ' '); i > 0 {
				ln = ln[:i]
			}
			sites = append(sites, strings.TrimPrefix(ln, "/repo/"))
			if len(sites) == 6 {
				break
			}
		}
	}
	return " @ " + strings.Join(sites, " < ")
}
