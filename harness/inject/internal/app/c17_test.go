//go:build verif

package app

// C17 driver: zone layouts x percentages x separators x lags x statuses x pass sequences
// through the real repairOfflineMode.

import (
	"encoding/json"
	"fmt"
	"math/rand"
	"os"
	"strings"
	"testing"
	"testing/synctest"
	"time"

	nodestate "github.com/yandex/mysync/internal/app/node_state"
	"github.com/yandex/mysync/internal/config"
	"github.com/yandex/mysync/internal/mysql"
	"github.com/yandex/mysync/internal/verifsim"
)

type offHost struct {
	Zone          string  `json:"zone"`
	Lag           float64 `json:"lag"`
	Offline       bool    `json:"offline"`
	Broken        bool    `json:"broken"`
	IsMaster      bool    `json:"ismaster"`
	ResetupStatus bool    `json:"resetupstatus"`
	ResetupFresh  bool    `json:"resetupfresh"`
	StartAgoH     int     `json:"startagoh"` // the server was started this many hours ago
	StatusOld     bool    `json:"statusold"` // the resetup status was written two hours ago (else now)
	Standalone    bool    `json:"standalone"` // not the recorded master, but it has no replication configured (freshly restored / reset / stale master)
}

type offEvent struct {
	Op     string `json:"op"`
	Host   string `json:"host"`
	Reason string `json:"reason"`
}

type offRow struct {
	Kind        string             `json:"kind"`
	Hosts       map[string]offHost `json:"hosts"`
	Events      []offEvent         `json:"events"`
	MasterRW    bool               `json:"masterrw"`
	MasterOffline bool             `json:"masteroffline"`
	MasterMarked bool              `json:"mastermarked"`
	EnableLag   int                `json:"enablelag"`
	DisableLag  int                `json:"disablelag"`
	Pct         int                `json:"pct"`
	Sep         string             `json:"sep"`
	IntervalMs  int64              `json:"intervalms"`
	LastShutdownAgeMs int64        `json:"lastshutdownagems"`
	Pass        int                `json:"pass"`
}

// independent statement of the zone rule: prefix before the first occurrence of the separator
func myZone(name, sep string) string {
	if sep == "" {
		return ""
	}
	for i := 0; i+len(sep) <= len(name); i++ {
		if name[i:i+len(sep)] == sep {
			return name[:i]
		}
	}
	return ""
}

func TestVerifC17(t *testing.T) {
	out := vNewRows(t, "rows.ndjson")
	defer out.close()
	meta := vNewRows(t, "meta.ndjson")
	defer meta.close()
	si, sn := vShard()
	seed := int64(vEnvInt("VERIF_SEED", 1))
	budget := vEnvInt("VERIF_RUNS", 400)
	if os.Getenv("VERIF_FULL") != "" {
		budget = 20000
	}
	all := []string{"m-1", "za-1", "za-2", "za-3", "zb-1", "zb-2", "zcx1"}
	pcts := []int{0, 1, 32, 33, 34, 49, 50, 51, 99, 100}
	seps := []string{"-", "", "x"}
	lags := []float64{-1, 5, 10, 11, 100, 101, 1000}
	cells := 0
	for pi, pct := range pcts {
		for _, sep := range seps {
			if (pi*3+len(sep))%sn != si%3 && false {
				continue
			}
			cfgPct, cfgSep := pct, sep
			cells++
			if cells%sn != si {
				continue
			}
			rng := rand.New(rand.NewSource(seed*1000 + int64(cells)))
			synctest.Test(t, func(t *testing.T) {
				s := vNewSim(t, all, nil, func(cfg *config.Config) {
					cfg.OfflineModeEnableLag = 100 * time.Second
					cfg.OfflineModeDisableLag = 10 * time.Second
					cfg.OfflineModeMaxOfflinePct = cfgPct
					cfg.OfflineModeAZSeparator = cfgSep
					cfg.OfflineModeEnableInterval = 60 * time.Second
				})
				defer s.shutdown()
				s.buildConverged("m-1", 1, 3, nil)
				in := s.startInstance("m-1")
				s.tick("m-1")
				app := in.app
				_ = app.cluster.UpdateHostsInfo()
				var events []offEvent
				var cur map[string]offHost
				var masterRW bool
				seen := map[string]bool{}
				s.onEv = func(ev *verifsim.TraceEvent, wl bool) {
					if ev.K == "sql" && ev.Res == "ok" && (ev.Op == "SetOffline" || ev.Op == "SetOnline") {
						reason := ""
						if ev.Op == "SetOffline" {
							h := cur[ev.At]
							if h.Broken {
								reason = "broken" // explainable by either rule: judged accordingly
							} else {
								reason = "lag"
							}
							seen[ev.At] = true
						}
						events = append(events, offEvent{ev.Op, ev.At, reason})
					}
				}
				for run := 0; run < budget/10+1; run++ {
					// a random situation, then 1-3 passes over it (the world is updated between passes)
					nrep := 1 + rng.Intn(6)
					perm := rng.Perm(6)
					hs := map[string]offHost{}
					masterOffline := rng.Intn(5) == 0
					masterMarked := rng.Intn(6) == 0
					masterRW = rng.Intn(5) != 0
					hs["m-1"] = offHost{Zone: myZone("m-1", cfgSep), IsMaster: true, Offline: masterOffline, Lag: -1}
					for k := 0; k < nrep; k++ {
						name := all[1+perm[k]]
						h := offHost{Zone: myZone(name, cfgSep), Lag: lags[rng.Intn(len(lags))], Offline: rng.Intn(3) == 0, Broken: rng.Intn(5) == 0,
							ResetupStatus: rng.Intn(5) == 0}
						// freshness = the status was written after THIS server's last start; servers start at different times
						h.StartAgoH = []int{1, 10}[rng.Intn(2)]
						h.StatusOld = rng.Intn(3) == 0
						h.ResetupFresh = !h.StatusOld || h.StartAgoH == 10
						hs[name] = h
					}
					if run%6 == 5 {
						// a dedicated situation: one host that is not the recorded master has NO replica status at all (freshly
						// restored, reset, or a stale master) and is offline; everybody else is a healthy online replica. Its lag is
						// unknown: the replica policy must leave it alone (and the master policy is not meant for it)
						first := true
						for name, h := range hs {
							if h.IsMaster {
								continue
							}
							h.Lag, h.Offline, h.Broken, h.ResetupStatus = 5, false, false, false
							if first {
								h.Standalone, h.Lag, h.Offline = true, -1, true
								first = false
							}
							hs[name] = h
						}
					}
					lastAge := []int64{-1, 1000, 200000}[rng.Intn(3)]
					masterStartIdx := rng.Intn(2)
					// materialise: tree
					s.Z.Remove(vNS + "/" + pathRecovery)
					if masterMarked {
						s.Z.Put(vNS+"/"+pathRecovery+"/m-1", "null")
					}
					s.Z.Remove(vNS + "/" + pathLastShutdownNodeTime)
					if lastAge >= 0 {
						b, _ := json.Marshal(time.Now().Add(-time.Duration(lastAge) * time.Millisecond))
						s.Z.Put(vNS+"/"+pathLastShutdownNodeTime, string(b))
					}
					for name, h := range hs {
						if h.IsMaster {
							continue
						}
						ut := time.Now()
						if h.StatusOld {
							ut = time.Now().Add(-2 * time.Hour)
						}
						b, _ := json.Marshal(mysql.ResetupStatus{Status: h.ResetupStatus, UpdateTime: ut})
						s.Z.Put(vNS+"/"+pathResetupStatus+"/"+name, string(b))
					}
					npass := 1 + rng.Intn(2)
					for pass := 0; pass < npass; pass++ {
						// world + clusterState from hs
						cs := map[string]*nodestate.NodeState{}
						s.W.Lock()
						for name, h := range hs {
							x := s.W.Hosts[name]
							x.Offline = h.Offline
							x.StartedAt = time.Now().Add(-time.Duration(h.StartAgoH) * time.Hour)
							if h.IsMaster {
								x.StartedAt = time.Now().Add(-time.Duration([]int{30, 20 * 60}[masterStartIdx]) * time.Minute)
							}
							ns := &nodestate.NodeState{PingOk: true, IsMaster: h.IsMaster, IsOffline: h.Offline, IsReadOnly: !h.IsMaster || !masterRW}
							if h.Standalone {
								// what getNodeState reports for a server without replication: "is master" (= empty replica status)
								ns.IsMaster = true
								ns.MasterState = &nodestate.MasterState{}
							} else if !h.IsMaster {
								ns.SlaveState = &nodestate.SlaveState{MasterHost: "m-1", ReplicationState: mysql.ReplicationRunning}
								if h.Lag >= 0 {
									l := h.Lag
									ns.SlaveState.ReplicationLag = &l
								}
								if h.Broken {
									ns.SlaveState.ReplicationState = mysql.ReplicationError
									ns.SlaveState.LastSQLErrno = 1146
								}
							} else {
								ns.MasterState = &nodestate.MasterState{}
							}
							cs[name] = ns
						}
						s.W.Unlock()
						events = nil
						cur = hs
						seen = map[string]bool{}
						age := int64(-1)
						if d, ok := s.zkGet(pathLastShutdownNodeTime); ok {
							var tm time.Time
							if json.Unmarshal([]byte(d), &tm) == nil {
								age = time.Since(tm).Milliseconds()
							}
						}
						app.repairOfflineMode(cs, "m-1")
						hostsCopy := map[string]offHost{}
						for k, v := range hs {
							hostsCopy[k] = v
						}
						out.emit(offRow{Kind: "offline", Hosts: hostsCopy, Events: append([]offEvent{}, events...), MasterRW: masterRW, MasterOffline: hs["m-1"].Offline,
							MasterMarked: masterMarked, EnableLag: 100, DisableLag: 10, Pct: cfgPct, Sep: cfgSep, IntervalMs: 60000, LastShutdownAgeMs: age, Pass: pass})
						// next pass sees the effect of this one
						for _, e := range events {
							h := hs[e.Host]
							h.Offline = e.Op == "SetOffline"
							hs[e.Host] = h
						}
						time.Sleep(time.Second)
					}
				}
			})
		}
	}
	meta.emit(map[string]any{"summary": true, "runs": out.n, "bases": out.n, "stragglers": vStragglers})
	_ = strings.Join
	_ = fmt.Sprint
}
