//go:build verif

package app

// C14 binding: the real filterOutNodeFromPositions + getMostDesirableNode.

import (
	"github.com/yandex/mysync/internal/mysql"
	"github.com/yandex/mysync/internal/config"
	"encoding/json"
	"fmt"
	"math/rand"
	"os"
	"path/filepath"
	"testing"
	"time"

	"github.com/rs/zerolog"
	"github.com/yandex/mysync/internal/mysql/gtids"
)

type candPos struct {
	Prio int64 `json:"prio"`
	Lag  int   `json:"lag"`
	Set  []int `json:"set"`
}

type candRow struct {
	Pos   []candPos `json:"pos"`
	B     int       `json:"b"`
	From  int       `json:"from"`
	Res   int       `json:"res"`
	Hang  bool      `json:"hang"`
	Panic string    `json:"panic"`
}

const vUnknownLag = 2000000000 // milliseconds

func candSetText(set []int) string {
	var s vSet
	for _, n := range set {
		s = append(s, vTxn{"a", "", n})
	}
	return vFormat(s)
}

// candVia: "" = the pure function with an explicit bound; "optimise" = through App.getMostDesirableReplicaToOptimize
var candVia string

func candOne(out string, pos []candPos, b, from int) candRow {
	row := candRow{Pos: pos, B: b, From: from}
	if row.Pos == nil {
		row.Pos = []candPos{}
	}
	// record the input first: an unrecoverable crash (stack overflow of a
	// non-terminating recursion) is attributed to this row by the checker
	cur, _ := json.Marshal(&row)
	_ = os.WriteFile(filepath.Join(out, "current.json"), cur, 0o644)
	positions := []nodePosition{}
	for i, p := range pos {
		set := p.Set
		positions = append(positions, nodePosition{host: fmt.Sprintf("h%d", i+1), gtidset: gtids.ParseGtidSet(candSetText(set)), lag: float64(p.Lag) / 1000, priority: p.Prio})
	}
	fromHost := ""
	if from > 0 {
		fromHost = fmt.Sprintf("h%d", from)
	}
	type result struct {
		host string
		err  error
		pan  string
	}
	ch := make(chan result, 1)
	logger := zerolog.Nop()
	go func() {
		var r result
		defer func() {
			if x := recover(); x != nil {
				r.pan = fmt.Sprint(x)
			}
			ch <- r
		}()
		p2 := positions
		if fromHost != "" {
			p2 = filterOutNodeFromPositions(positions, fromHost)
		}
		if candVia == "optimise" {
			// the call site of the turbo phase: the bound is the replication mark of the optimisation settings, NOT the
			// promotion bound (which is configured to a different value here on purpose)
			cfg, _ := config.DefaultConfig()
			cfg.OptimizationConfig.HighReplicationMark = time.Duration(b) * time.Millisecond
			cfg.PriorityChoiceMaxLag = time.Duration(b)*time.Millisecond/2 + 7*time.Second
			app := &App{logger: &logger, config: &cfg, switchHelper: mysql.NewSwitchHelper(&cfg)}
			r.host, r.err = app.getMostDesirableReplicaToOptimize(p2)
			return
		}
		r.host, r.err = getMostDesirableNode(&logger, p2, time.Duration(b)*time.Millisecond)
	}()
	select {
	case r := <-ch:
		row.Panic = r.pan
		if r.err == nil && r.pan == "" {
			fmt.Sscanf(r.host, "h%d", &row.Res)
		}
	case <-time.After(5 * time.Second):
		row.Hang = true
	}
	return row
}

func TestVerifCandidate(t *testing.T) {
	out := vOutDir(t)
	w := vNewRows(t, "rows.ndjson")
	defer w.close()
	sets := [][]int{{}, {1}, {2}, {1, 2}}
	// lags and bounds are in MILLISECONDS in the rows (the specification is unit-agnostic); 1500 is a bound that is
	// not a whole number of seconds
	bounds := []int{0, 1000, 60000, 1500}
	maxExh := vEnvInt("VERIF_MAXEXH", 2)
	hangs := 0
	for _, b := range bounds {
		lags := []int{0, b, b + 1000, 2*b + 2000, vUnknownLag}
		if b > 1000 {
			// b+1 vs 1 and 2b+1 vs b+1: the difference is EXACTLY the bound while the larger lag is above it
			lags = append(lags, b-1000, 1000, 2*b+1000)
		}
		if b == 1500 {
			// multiples of 125 ms only: exactly representable in binary floating point, so "smaller by exactly the bound" is
			// not blurred by rounding (0.8-0.5 > 0.3 in float64)
			lags = []int{0, 1000, 1250, 1500, 1625, 2500, 3125, vUnknownLag}
		}
		var grid []candPos
		for _, pr := range []int64{0, 1, 2} {
			for _, lg := range lags {
				for _, s := range sets {
					grid = append(grid, candPos{pr, lg, s})
				}
			}
		}
		var rec func(cur []candPos)
		rec = func(cur []candPos) {
			for from := 0; from <= len(cur); from++ {
				r := candOne(out, cur, b, from)
				if r.Hang {
					hangs++
				}
				w.emit(r)
			}
			if len(cur) == maxExh || hangs > 3 {
				return
			}
			for _, g := range grid {
				rec(append(append([]candPos{}, cur...), g))
			}
		}
		rec(nil)
	}
	// lists of 3..5 nodes, random over a finer grid
	rng := rand.New(rand.NewSource(int64(vEnvInt("VERIF_SEED", 1))))
	sets3 := [][]int{{}, {1}, {2}, {1, 2}, {1, 2, 3}, {3}, {1, 3}}
	for i := 0; i < vEnvInt("VERIF_RANDOM", 12000) && hangs <= 3; i++ {
		b := []int{0, 1000, 5000, 60000, 1500, 500}[rng.Intn(6)]
		n := 3 + rng.Intn(3)
		lagc := []int{0, 1000, b, b + 1000, 2 * b, 2*b + 1000, 2*b + 2000, 3*b + 3000, vUnknownLag, 7000, b + 250, b - 250, 1250, 375}
		for k := range lagc {
			if lagc[k] < 0 {
				lagc[k] = 0
			}
		}
		var cur []candPos
		eqPrio := rng.Intn(3) == 0
		for j := 0; j < n; j++ {
			pr := int64(rng.Intn(3))
			if eqPrio {
				pr = 1
			}
			cur = append(cur, candPos{pr, lagc[rng.Intn(len(lagc))], sets3[rng.Intn(len(sets3))]})
		}
		r := candOne(out, cur, b, rng.Intn(n+1))
		if r.Hang {
			hangs++
		}
		w.emit(r)
		if i%4 == 0 && b > 0 {
			// the same list through the call site of the turbo phase (its own configured bound)
			candVia = "optimise"
			r2 := candOne(out, cur, b, 0)
			candVia = ""
			if r2.Hang {
				hangs++
			}
			w.emit(r2)
		}
	}
}
