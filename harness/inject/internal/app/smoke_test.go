//go:build verif

package app

import (
	"fmt"
	"os"
	"testing"
	"testing/synctest"
)

func TestVerifSimSmoke(t *testing.T) {
	synctest.Test(t, func(t *testing.T) {
		hosts := []string{"h1", "h2", "h3"}
		s := vNewSim(t, hosts, nil, nil)
		s.keepLog = os.Getenv("VERIF_DEBUG") != ""
		defer s.shutdown()
		s.buildConverged("h1", 1, 3, nil)
		for _, h := range hosts {
			s.startInstance(h)
		}
		for i := 0; i < 5; i++ {
			s.round(s.W.Saturate)
		}
		tr := s.traceCopy()
		fmt.Printf("events=%d master=%q active=%v states=", len(tr), s.zkMaster(), s.zkActive())
		for _, h := range hosts {
			fmt.Printf("%s:%s ", h, s.insts[h].app.state)
		}
		fmt.Println()
		if s.keepLog {
			for _, h := range hosts {
				fmt.Println("=== log", h)
				fmt.Println(s.insts[h].logBuf.String())
			}
			for _, ev := range tr {
				if ev.Mut || ev.K == "app" {
					fmt.Printf("%d t=%d %s by=%s at=%s %s(%s)=%s\n", ev.N, ev.T, ev.K, ev.By, ev.At, ev.Op, ev.Arg, ev.Res)
				}
			}
		}
		if s.zkMaster() != "h1" {
			t.Fatalf("master = %q", s.zkMaster())
		}
		// client commit goes through semi-sync
		txn, res := s.W.ClientCommit("h1")
		fmt.Println("commit", txn, res)
		s.W.Saturate()
		s.W.Lock()
		fmt.Println("acked", s.W.Acked.Sorted(), "h2 exec", s.W.Hosts["h2"].Exec.Sorted())
		s.W.Unlock()
	})
}
