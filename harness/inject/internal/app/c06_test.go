//go:build verif

package app

// C06 driver: request lifecycle histories (attempt limit, timeout, abort, no
// overwrite, one outcome, success means done).

import (
	"strings"
	"sync"
	"encoding/json"
	"fmt"
	"testing"
	"time"

	"github.com/yandex/mysync/internal/verifsim"
)

type reqAttempt struct {
	By        string `json:"by"`
	RunBefore int    `json:"runbefore"`
	RunAfter  int    `json:"runafter"` // -1: key gone
	Ended     string `json:"ended"`    // success | failed | rejected | aborted | unknown
	Promoted  string `json:"promoted"`
}

type reqRow struct {
	Kind        string       `json:"kind"` // "req"
	Scn         string       `json:"scn"`
	Ident       string       `json:"ident"`
	Cause       string       `json:"cause"`
	Trans       string       `json:"trans"`
	HasInitTime bool         `json:"hasinittime"`
	Limit       int          `json:"limit"`
	TimeoutS    int          `json:"timeouts"`
	Light       bool         `json:"light"`
	Success     int          `json:"success"`  // success records naming it
	Rejected    int          `json:"rejected"` // rejection records naming it
	OpDelete    int          `json:"opdelete"` // operator deletes while pending
	Gone        bool         `json:"gone"`     // key no longer holds it at the end
	MaxRun      int          `json:"maxrun"`   // max run_count observed in the key after a manager activation ended
	Overwritten bool         `json:"overwritten"`
	SurvivedDeadline bool    `json:"surviveddeadline"` // still pending after the first manager activation that STARTED later than initiated_at+timeout and ran to its exit
	RejectNoQuorumAfterRun bool `json:"rejectnoquorumafterrun"`
	Attempts    []reqAttempt `json:"attempts"`
	SuccessOK   bool         `json:"successok"` // at the success record: recorded master = promoted host and it is writable
	ManagerRan  bool         `json:"managerran"`
	Interleaved bool         `json:"interleaved"` // two instances inside attempts on it at the same time
}

type swJSON struct {
	From        string `json:"from"`
	To          string `json:"to"`
	Cause       string `json:"cause"`
	InitiatedBy string `json:"initiated_by"`
	InitiatedAt time.Time `json:"initiated_at"`
	Trans       string `json:"master_transition"`
	StartedBy   string `json:"started_by"`
	StartedAt   time.Time `json:"started_at"`
	Result      *struct {
		Ok    bool   `json:"ok"`
		Error string `json:"error"`
	} `json:"result"`
	RunCount int `json:"run_count"`
}

func (s swJSON) ident() string {
	return fmt.Sprintf("%s|%s|%s|%s|%d", s.InitiatedBy, s.Cause, s.From, s.To, s.InitiatedAt.UnixNano())
}

// digestRequests walks the trace and summarises every request identity.
func digestRequests(scn string, trace []verifsim.TraceEvent, limit, timeoutS int, light bool, start time.Time, masterAt func(n int) (string, string)) []reqRow {
	rows := map[string]*reqRow{}
	var order []string
	cur := ""           // identity currently in the key
	curRun := 0
	type act struct {
		startT int64
		ident  string
		runBefore int
		started bool
		promoted string
	}
	acts := map[string]*act{}
	get := func(sw swJSON) *reqRow {
		id := sw.ident()
		r := rows[id]
		if r == nil {
			r = &reqRow{Kind: "req", Scn: scn, Ident: id, Cause: sw.Cause, Trans: sw.Trans, HasInitTime: !sw.InitiatedAt.IsZero(),
				Limit: limit, TimeoutS: timeoutS, Light: light, Attempts: []reqAttempt{}, SuccessOK: true}
			rows[id] = r
			order = append(order, id)
		}
		return r
	}
	deadline := map[string]int64{} // ident -> ms after which a starting activation must resolve it
	inAttempt := map[string]string{} // ident -> instance inside an attempt
	for _, ev := range trace {
		switch {
		case ev.K == "app" && ev.Op == "Enter" && ev.Arg == "Manager":
			acts[ev.By] = &act{startT: ev.T, ident: cur, runBefore: curRun}
		case ev.K == "app" && (ev.Op == "Exit" || ev.Op == "ExitDead") && ev.Arg == "Manager":
			a := acts[ev.By]
			delete(acts, ev.By)
			if a == nil {
				continue
			}
			if a.ident != "" {
				r := rows[a.ident]
				if r != nil && ev.Op == "Exit" {
					r.ManagerRan = true
					if cur == a.ident {
						if curRun > r.MaxRun {
							r.MaxRun = curRun
						}
						if dl, ok := deadline[a.ident]; ok && a.startT > dl {
							r.SurvivedDeadline = true
						}
					}
				}
				if a.started && r != nil {
					at := reqAttempt{By: ev.By, RunBefore: a.runBefore, RunAfter: -1, Ended: "unknown", Promoted: a.promoted}
					if cur == a.ident {
						at.RunAfter = curRun
						at.Ended = "failed"
					} else if r.Success > 0 {
						at.Ended = "success"
					} else if r.Rejected > 0 {
						at.Ended = "rejected"
					} else if r.OpDelete > 0 {
						at.Ended = "aborted"
					}
					if ev.Op == "ExitDead" {
						at.Ended = "cut"
					}
					r.Attempts = append(r.Attempts, at)
					if inAttempt[a.ident] == ev.By {
						delete(inAttempt, a.ident)
					}
				}
			}
		case ev.K == "sql" && ev.Op == "SetWritable" && ev.Res == "ok":
			if a := acts[ev.By]; a != nil {
				a.promoted = ev.At
			}
		case ev.K == "zk" && ev.At == pathCurrentSwitch && ev.Res == "ok" && (ev.Op == "Create" || ev.Op == "SetData" || ev.Op == "ToolSet"):
			var sw swJSON
			if json.Unmarshal([]byte(ev.Arg), &sw) != nil {
				continue
			}
			id := sw.ident()
			r := get(sw)
			if cur != "" && cur != id && ev.By != "tool" {
				rows[cur].Overwritten = true
			}
			if cur != "" && cur != id && ev.By == "tool" {
				// an operator/worker replaced it: the old one was removed by the operator
				rows[cur].OpDelete++
				rows[cur].Gone = true
			}
			cur = id
			curRun = sw.RunCount
			if !sw.InitiatedAt.IsZero() {
				deadline[id] = sw.InitiatedAt.Sub(start).Milliseconds() + int64(timeoutS)*1000
			}
			if ev.By != "tool" && !sw.StartedAt.IsZero() && sw.Result == nil {
				if a := acts[ev.By]; a != nil {
					a.started = true
					a.ident = id
				}
				if other, ok := inAttempt[id]; ok && other != ev.By {
					r.Interleaved = true
				}
				inAttempt[id] = ev.By
			}
		case ev.K == "zk" && ev.At == pathCurrentSwitch && ev.Res == "ok" && (ev.Op == "Delete" || ev.Op == "ToolDelete"):
			if cur != "" {
				if ev.By == "tool" {
					rows[cur].OpDelete++
				}
				rows[cur].Gone = true
			}
			cur = ""
			curRun = 0
		case ev.K == "zk" && (ev.At == pathLastSwitch || ev.At == pathLastRejectedSwitch) && ev.Res == "ok" && (ev.Op == "Create" || ev.Op == "SetData"):
			var sw swJSON
			if json.Unmarshal([]byte(ev.Arg), &sw) != nil {
				continue
			}
			r := get(sw)
			if ev.At == pathLastSwitch {
				r.Success++
				m, ro := masterAt(ev.N)
				a := acts[ev.By]
				if a == nil || a.promoted == "" || m != a.promoted || ro != "rw" {
					r.SuccessOK = false
				}
			} else {
				r.Rejected++
				if sw.RunCount > 0 && sw.Result != nil && len(sw.Result.Error) >= 9 && sw.Result.Error[:9] == "no quorum" {
					r.RejectNoQuorumAfterRun = true
				}
			}
		}
	}
	if cur != "" {
		// still pending at the end
	}
	var out []reqRow
	for _, id := range order {
		r := rows[id]
		if cur != id {
			r.Gone = true
		} else {
			r.Gone = false
		}
		out = append(out, *r)
	}
	return out
}

func TestVerifC06(t *testing.T) {
	w := vNewRows(t, "rows.ndjson")
	defer w.close()
	meta := vNewRows(t, "meta.ndjson")
	defer meta.close()
	si, sn := vShard()
	hosts := []string{"h1", "h2", "h3"}
	A := "h1:101"
	type variant struct {
		name   string
		req    reqSpec
		fault  *faultSpec
		shape  map[string]hostShape
		policy string
		abort  int // round at which the operator deletes the key (-1 never)
		second string // "" | worker: an external worker writes another request at round 3 ; auto: master dies at round 2
		light  bool
	}
	stuck := map[string]hostShape{"h1": {Exec: []string{A}}, "h2": {}, "h3": {Exec: []string{A}}} // h2 must catch up
	clean := map[string]hostShape{"h1": {Exec: []string{A}}, "h2": {Exec: []string{A}}, "h3": {Exec: []string{A}}}
	var vars []variant
	vars = append(vars, variant{"racefile", reqSpec{Kind: "none"}, nil, clean, "flow", -1, "race", false})
	for _, rq := range []reqSpec{{Kind: "to", To: "h2"}, {Kind: "from", From: "h1"}, {Kind: "forced", From: "h1"}, {Kind: "worker", To: "h2"}} {
		vars = append(vars,
			variant{"clean", rq, nil, clean, "flow", -1, "", false},
			variant{"catchupstuck", rq, nil, stuck, "frozen", -1, "", false},
			variant{"changefail", rq, &faultSpec{Chan: "sql", Stmt: "ChangeSource", At: "h3", Occ: 0, Kind: "fail"}, clean, "flow", -1, "", false},
			variant{"freezefail", rq, &faultSpec{Chan: "sql", Stmt: "StopIO", At: "h3", Occ: 0, Kind: "fail"}, clean, "flow", -1, "", false},
			variant{"promotefail", rq, &faultSpec{Chan: "sql", Stmt: "ResetReplicaAll", At: "h2", Occ: 0, Kind: "fail"}, clean, "flow", -1, "", false},
			variant{"writablefail", rq, &faultSpec{Chan: "sql", Stmt: "SetWritable", At: "h2", Occ: 0, Kind: "fail"}, clean, "flow", -1, "", false},
			variant{"abort", rq, nil, stuck, "frozen", 2, "", false},
			variant{"abortlate", rq, &faultSpec{Chan: "sql", Stmt: "ChangeSource", At: "h3", Occ: 0, Kind: "fail"}, clean, "flow", 4, "", false},
			variant{"secondworker", rq, &faultSpec{Chan: "sql", Stmt: "ChangeSource", At: "h3", Occ: 0, Kind: "fail"}, clean, "flow", -1, "worker", false},
			variant{"masterdies", rq, &faultSpec{Chan: "sql", Stmt: "ChangeSource", At: "h3", Occ: 0, Kind: "fail"}, clean, "flow", -1, "auto", false},
			variant{"light", rq, &faultSpec{Chan: "sql", Stmt: "ChangeSource", At: "h3", Occ: 0, Kind: "fail"}, clean, "flow", -1, "", true},
		)
	}
	// the status query of the catch-up wait fails for as long as the manager stays in the activation that re-pointed the
	// new master (a MySQL-side failure lasting arbitrarily long): the attempt must fail and be counted
	for _, rq := range []reqSpec{{Kind: "to", To: "h2"}, {Kind: "worker", To: "h2"}} {
		vars = append(vars, variant{"catchupqueryfail", rq, nil, stuck, "frozen", -1, "", false})
	}
	runs := 0
	k := 0
	for _, v := range vars {
		for _, limit := range []int{1, 2, 3} {
			for _, tmo := range []int{12, 3600} {
				if v.name == "catchupqueryfail" && limit != 2 {
					continue
				}
				k++
				if k%sn != si {
					continue
				}
				id := fmt.Sprintf("c06-%s-%s%s%s-l%d-t%d", v.name, v.req.Kind, v.req.To, v.req.From, limit, tmo)
				sc := vScenario{ID: id, Hosts: hosts, Master: "h1", Manager: "h3", W: 1, Base: 3, Req: v.req, Policy: v.policy, Rounds: 40,
					Shape: v.shape, Fault: v.fault,
					Cfg: map[string]any{"catchup_timeout": 2, "max_attempts": limit, "switchover_timeout": tmo, "failover": v.second == "auto" || v.second == "race"}}
				var start time.Time
				var snaps = map[int][2]string{}
				var cq *c06CatchupQueryHook
				res := vRun(t, &sc, vRunOpts{keepTrace: true,
					extraHook: func(s *vSim) verifsim.MyHook {
						if v.name != "catchupqueryfail" {
							return nil
						}
						cq = &c06CatchupQueryHook{}
						return cq
					},
					setup: func(s *vSim) {
						start = s.start
						if v.light {
							m := Maintenance{InitiatedBy: "verif", InitiatedAt: time.Now(), Mode: LightMode}
							b, _ := json.Marshal(&m)
							s.Z.Put(vNS+"/"+pathMaintenance, string(b))
						}
						prev := s.onEv
						s.onEv = func(ev *verifsim.TraceEvent, wl bool) {
							if cq != nil && ev.K == "app" && ev.Op == "Enter" {
								cq.reset(ev.By)
							}
							if ev.K == "zk" && ev.At == pathLastSwitch && ev.Res == "ok" && (ev.Op == "Create" || ev.Op == "SetData") {
								// ground truth at the success record (tree lock is held: read the
								// master key from the world-independent copy kept below)
								m := s.lastMaster.Load()
								ms, _ := m.(string)
								ro := ""
								if ms != "" {
									s.W.Lock()
									if x := s.W.Hosts[ms]; x != nil {
										ro = x.RO
									}
									s.W.Unlock()
								}
								snaps[ev.N] = [2]string{ms, ro}
							}
							if ev.K == "zk" && ev.At == pathMasterNode && ev.Res == "ok" && (ev.Op == "Create" || ev.Op == "SetData" || ev.Op == "ToolSet") {
								var m string
								json.Unmarshal([]byte(ev.Arg), &m)
								s.lastMaster.Store(m)
							}
							if prev != nil {
								prev(ev, wl)
							}
						}
					},
					perRound: func(s *vSim, round int) bool {
						if v.abort >= 0 && round == v.abort {
							s.Z.Remove(vNS + "/" + pathCurrentSwitch)
						}
						if v.second == "worker" && round == 3 {
							sw := Switchover{To: "h3", Cause: CauseWorker, InitiatedBy: "worker2", InitiatedAt: time.Now()}
							b, _ := json.Marshal(&sw)
							// a well-behaved worker uses create-if-absent
							if _, ok := s.zkGet(pathCurrentSwitch); !ok {
								s.Z.Put(vNS+"/"+pathCurrentSwitch, string(b))
							}
						}
						if (v.second == "auto" || v.second == "race") && round == 2 {
							s.W.Crash("h1")
							s.kill("h1")
						}
						if v.second == "race" && round == 2 {
							// an operator's request lands right AFTER the manager has read "no request" and before it files its own
							// automatic failover in the same iteration: create-if-absent must lose, not overwrite
							s.Z.Hook = &c06RaceHook{inner: s.Z.Hook, s: s}
						}
						return false
					}})
				runs++
				if res.skipped {
					continue
				}
				for _, r := range digestRequests(id, res.trace, limit, tmo, v.light, start, func(n int) (string, string) { x := snaps[n]; return x[0], x[1] }) {
					w.emit(r)
				}
				meta.emit(map[string]any{"scn": id, "scenario": sc})
			}
		}
	}
	meta.emit(map[string]any{"summary": true, "runs": runs, "bases": runs, "stragglers": vStragglers})
}


// c06RaceHook files an operator's request between the manager's read of the (absent) switch key and whatever the
// manager does next in the same iteration.
type c06RaceHook struct {
	inner verifsim.ZkHook
	s     *vSim
	done  bool
}

func (h *c06RaceHook) BeforeZk(client, op, path string) (int32, bool) {
	if h.inner != nil {
		return h.inner.BeforeZk(client, op, path)
	}
	return 0, false
}

func (h *c06RaceHook) AfterZk(client, op, path string, code int32) bool {
	_, _, _, healthy := h.s.Z.NodeInfo(vNS + "/" + pathHealthPrefix + "/h1")
	// ... in the iteration that will file: the dead master's health record has expired
	if !h.done && !healthy && op == "GetData" && path == vNS+"/"+pathCurrentSwitch && code != 0 && client != "tool" {
		h.done = true
		sw := Switchover{To: "h3", Cause: CauseManual, MasterTransition: SwitchoverTransition, InitiatedBy: "operator", InitiatedAt: time.Now()}
		b, _ := json.Marshal(&sw)
		h.s.Z.Put(vNS+"/"+pathCurrentSwitch, string(b))
	}
	if h.inner != nil {
		return h.inner.AfterZk(client, op, path, code)
	}
	return false
}


// c06CatchupQueryHook: once a process has re-pointed and restarted a replica (START REPLICA answered), every later
// gtid_executed query of that process to that server fails, until the process starts its next activation.
type c06CatchupQueryHook struct {
	mu      sync.Mutex
	failing map[string]bool // "by>at"
}

func (h *c06CatchupQueryHook) reset(by string) {
	h.mu.Lock()
	for k := range h.failing {
		if strings.HasPrefix(k, by+">") {
			delete(h.failing, k)
		}
	}
	h.mu.Unlock()
}

func (h *c06CatchupQueryHook) BeforeSQL(c *verifsim.SQLCall) verifsim.Decision {
	h.mu.Lock()
	defer h.mu.Unlock()
	if c.Stmt == "GtidExecuted" && h.failing[c.By+">"+c.At] {
		return verifsim.Decision{Err: &verifsim.MyErr{Code: 1053, State: "08S01", Msg: "Server shutdown in progress"}}
	}
	if c.Stmt == "StartReplica" && c.By != c.At {
		// armed when the statement is issued (the scenario hook forwards only BeforeSQL): the queries that matter come later
		if h.failing == nil {
			h.failing = map[string]bool{}
		}
		h.failing[c.By+">"+c.At] = true
	}
	return verifsim.Decision{}
}

func (h *c06CatchupQueryHook) AfterSQL(c *verifsim.SQLCall, res string) {
	if c.Stmt == "StartReplica" && res == "ok" && c.By != "" && c.By != "world" && c.By != c.At {
		h.mu.Lock()
		if h.failing == nil {
			h.failing = map[string]bool{}
		}
		h.failing[c.By+">"+c.At] = true
		h.mu.Unlock()
	}
}
