//go:build verif

package app

// C01 driver: shape x request grid, every call boundary x {fail, hang, node loss}.

import (
	"fmt"
	"math/rand"
	"os"
	"strings"
	"testing"
)

// GTID shapes relative to a base everybody has.  A = master's 2nd txn, B = 3rd,
// F = a transaction of foreign origin.
func c01ReplicaShapes(master, self string) []hostShape {
	A, B := master+":101", master+":102"
	F := self + ":1"
	return []hostShape{
		{},                                    // has only the base
		{Exec: []string{A}},                   // applied A
		{Recv: []string{A}},                   // received A, not applied
		{Exec: []string{A}, Recv: []string{B}}, // applied A, received B
		{Exec: []string{A, B}},                // everything
		{Exec: []string{B}},                   // gap
		{Recv: []string{A, B}},                // both only received
		{Exec: []string{A, F}},                // foreign-origin transaction (diverged)
		{Exec: []string{A}, NoSS: true},       // not a semi-sync acker
		{Recv: []string{A, B}, SQLStopped: true},                // both received, the applier thread is stopped
		{Exec: []string{A}, Recv: []string{B}, SQLStopped: true}, // applied A, received B, the applier thread is stopped
	}
}

func c01MasterShapes(master string) []hostShape {
	A, B := master+":101", master+":102"
	return []hostShape{
		{Exec: []string{A, B}},
		{Exec: []string{A}, Pend: []string{B}},
		{Exec: []string{A, B}, Down: true},
		{Exec: []string{A, B}, Net: "isolated"},
	}
}

func c01Requests(master string, hosts []string) []reqSpec {
	return []reqSpec{
		{Kind: "to", To: hosts[1]},
		{Kind: "from", From: master},
		{Kind: "auto"},
		{Kind: "forced", From: master},
		{Kind: "worker", To: hosts[2%len(hosts)]},
	}
}

type c01Case struct {
	sc vScenario
}

func c01Base(id string, hosts []string, ms hostShape, rs []hostShape, req reqSpec, policy string, w int) vScenario {
	sc := vScenario{ID: id, Hosts: hosts, Master: hosts[0], Manager: hosts[1], W: w, Base: 3, Req: req, Policy: policy, Rounds: 5,
		Shape: map[string]hostShape{hosts[0]: ms}, Cfg: map[string]any{"catchup_timeout": 4}}
	for i, r := range rs {
		sc.Shape[hosts[i+1]] = r
	}
	if req.Kind == "auto" && !(ms.Down || ms.Net != "") {
		// automatic failover needs a failed master; otherwise nothing is filed (still a valid, trivial case)
	}
	return sc
}

func faultVariants(point string, kinds []string) []*faultSpec {
	p := strings.Split(point, "|")
	var occ int
	fmt.Sscanf(p[3], "%d", &occ)
	var r []*faultSpec
	for _, k := range kinds {
		if p[0] == "zk" && (k == "diebefore" || k == "dieafter" || k == "fail") {
			if k == "fail" {
				r = append(r, &faultSpec{Chan: "zk", Stmt: p[1], At: p[2], Occ: occ, Kind: "zkfail"})
			}
			continue
		}
		if p[0] == "sql" && k == "zkfail" {
			continue
		}
		r = append(r, &faultSpec{Chan: p[0], Stmt: p[1], At: p[2], Occ: occ, Kind: k})
	}
	return r
}

func TestVerifC01(t *testing.T) {
	w := vNewRows(t, "rows.ndjson")
	defer w.close()
	meta := vNewRows(t, "meta.ndjson")
	defer meta.close()
	hosts := []string{"h1", "h2", "h3"}
	seed := int64(vEnvInt("VERIF_SEED", 1))
	rng := rand.New(rand.NewSource(seed))
	budget := vEnvInt("VERIF_RUNS", 1500)
	full := os.Getenv("VERIF_FULL") != ""
	si, sn := vShard()
	ms := c01MasterShapes("h1")
	r2 := c01ReplicaShapes("h1", "h2")
	r3 := c01ReplicaShapes("h1", "h3")
	reqs := c01Requests("h1", hosts)
	kinds := []string{"fail", "hang", "diebefore", "dieafter"}
	type base struct {
		mi, i2, i3, ri int
		policy         string
		w              int
	}
	var bases []base
	for mi := range ms {
		for i2 := range r2 {
			for i3 := range r3 {
				for ri := range reqs {
					for _, pol := range []string{"eager", "lazy"} {
						bases = append(bases, base{mi, i2, i3, ri, pol, 1})
					}
				}
			}
		}
	}
	rng.Shuffle(len(bases), func(a, b int) { bases[a], bases[b] = bases[b], bases[a] })
	// every sample starts with one base per request kind in which a replica with a stopped applier thread holds
	// received transactions that the other replica lacks
	{
		var pinned, rest []base
		have := map[int]bool{}
		for _, b := range bases {
			st2, st3 := r2[b.i2].SQLStopped, r3[b.i3].SQLStopped
			if b.mi == 2 && st2 != st3 && !have[b.ri] && ((st2 && len(r3[b.i3].Exec)+len(r3[b.i3].Recv) == 0) || (st3 && len(r2[b.i2].Exec)+len(r2[b.i2].Recv) == 0)) {
				have[b.ri] = true
				pinned = append(pinned, b)
			} else {
				rest = append(rest, b)
			}
		}
		bases = append(pinned, rest...)
	}
	// async mode (no semi-sync, repl_mon, allowed lag): the escape hatch of the catch-up wait is legitimate for
	// automatic failover only; every 9th base of the run is one of these (replication frozen or lazy, so the
	// chosen node has NOT applied everything when the wait starts)
	// plus the operator-forced failover to a named host (switch --to X --failover), which gets no escape
	reqs = append(reqs, reqSpec{Kind: "forcedto", To: hosts[1]})
	var abases []base
	for _, mi := range []int{2, 0} { // master dead / alive
		for i2 := range r2 {
			for i3 := range r3 {
				for ri := range reqs {
					for _, pol := range []string{"frozen", "lazy"} {
						abases = append(abases, base{mi, i2, i3, ri, pol + "+async", 1})
					}
				}
			}
		}
	}
	rng.Shuffle(len(abases), func(a, b int) { abases[a], abases[b] = abases[b], abases[a] })
	var mixed []base
	for i, b := range bases {
		mixed = append(mixed, b)
		if i%8 == 7 && len(abases) > 0 {
			mixed = append(mixed, abases[0])
			abases = abases[1:]
		}
	}
	bases = append(mixed, abases...)
	// every sample starts with the operator-forced failovers in async mode whose chosen node has an unapplied tail:
	// the escape hatch of the catch-up wait is for AUTOMATIC failover only
	{
		var front []base
		for _, ri := range []int{3, len(reqs) - 1} { // forced (--from --failover), forcedto (--to --failover)
			for _, mi := range []int{2, 0} {
				// the named / chosen host is behind the other replica (which has applied or only received more), or has
				// an unapplied tail of its own
				front = append(front, base{mi, 0, 1, ri, "frozen+async", 1}, base{mi, 0, 2, ri, "lazy+async", 1},
					base{mi, 1, 3, ri, "frozen+async", 1}, base{mi, 2, 0, ri, "frozen+async", 1})
			}
		}
		bases = append(front, bases...)
	}
	runs, nbase, npromo := 0, 0, 0
	emit := func(res *vRunResult) {
		for _, p := range res.promos {
			w.emit(p)
			npromo++
		}
		for _, a := range res.atts {
			w.emit(a)
		}
		for _, a := range res.skels {
			w.emit(a)
		}
		if len(res.panics) > 0 {
			meta.emit(map[string]any{"scn": res.sc.ID, "panics": res.panics, "scenario": res.sc})
		}
	}
	for bi, b := range bases {
		if bi%sn != si {
			continue
		}
		if !full && runs >= budget {
			break
		}
		id := fmt.Sprintf("c01-m%d-a%d-b%d-r%d-%s", b.mi, b.i2, b.i3, b.ri, b.policy)
		pol := strings.TrimSuffix(b.policy, "+async")
		sc := c01Base(id, hosts, ms[b.mi], []hostShape{r2[b.i2], r3[b.i3]}, reqs[b.ri], pol, b.w)
		if pol != b.policy {
			sc.Cfg["semi_sync"] = false
			sc.Cfg["async"] = true
			sc.Cfg["async_allowed_lag"] = 1000000
			sc.Cfg["repl_mon"] = true
		}
		var opts vRunOpts
		if pol != b.policy {
			// async mode: the master's repl_mon timestamp was published while it was alive, every server has the table
			opts.setup = func(s *vSim) {
				s.W.Lock()
				for _, h := range s.W.Hosts {
					h.ReplMonTS = 1000
				}
				s.W.Unlock()
				s.Z.Put(vNS+"/"+pathMasterReplMonTS, `"1000.000"`)
			}
		}
		dryOpts := opts
		dryOpts.censusAll = true
		dry := vRun(t, &sc, dryOpts)
		runs++
		nbase++
		emit(dry)
		meta.emit(map[string]any{"scn": id, "census": len(dry.census), "promos": len(dry.promos), "tree": dry.tree, "scenario": sc})
		// every call boundary x fault kind (sampled in the quick tier)
		points := dry.census
		var cases []*faultSpec
		for _, pt := range points {
			cases = append(cases, faultVariants(pt, kinds)...)
		}
		if !full {
			rng.Shuffle(len(cases), func(a, c int) { cases[a], cases[c] = cases[c], cases[a] })
			lim := vEnvInt("VERIF_FAULTS_PER_BASE", 12)
			if len(cases) > lim {
				cases = cases[:lim]
			}
		}
		for _, f := range cases {
			sc2 := sc
			sc2.Fault = f
			sc2.ID = fmt.Sprintf("%s-%s-%s@%s#%d", id, f.Kind, f.Stmt, f.At, f.Occ)
			res := vRun(t, &sc2, opts)
			runs++
			emit(res)
			if len(res.promos)+len(res.atts) > 0 {
				meta.emit(map[string]any{"scn": sc2.ID, "scenario": sc2})
			}
		}
	}
	meta.emit(map[string]any{"summary": true, "runs": runs, "bases": nbase, "promos": npromo, "stragglers": vStragglers})
}
