//go:build verif

package app

// C16 driver: (1) all stream-from maps over 2-5 hosts x ancestor health through the real
// findBestStreamFrom; (2) cluster runs in which a cascade replica must be moved.

import (
	"strings"
	"encoding/json"
	"fmt"
	"math/rand"
	"os"
	"testing"
	"testing/synctest"
	"time"

	nodestate "github.com/yandex/mysync/internal/app/node_state"
	"github.com/yandex/mysync/internal/config"
	"github.com/yandex/mysync/internal/mysql"
	"github.com/yandex/mysync/internal/verifsim"
)

type resolveRow struct {
	Kind    string            `json:"kind"`
	Host    string            `json:"host"`
	Master  string            `json:"master"`
	SF      map[string]string `json:"sf"`
	Healthy []string          `json:"healthy"`
	Cur     string            `json:"cur"`
	Res     string            `json:"res"`
	Hang    bool              `json:"hang"`
	Panic   string            `json:"panic"`
}

type moveRow struct {
	Kind           string   `json:"kind"`
	Scn            string   `json:"scn"`
	Host           string   `json:"host"`
	NewSrc         string   `json:"newsrc"`
	OldSrc         string   `json:"oldsrc"`
	WasReplicating bool     `json:"wasreplicating"`
	ExecSelf       []string `json:"execself"`
	ExecNew        []string `json:"execnew"`
}

func TestVerifC16(t *testing.T) {
	out := vNewRows(t, "rows.ndjson")
	defer out.close()
	meta := vNewRows(t, "meta.ndjson")
	defer meta.close()
	si, sn := vShard()
	rng := rand.New(rand.NewSource(int64(vEnvInt("VERIF_SEED", 1)) + int64(si)))
	full := os.Getenv("VERIF_FULL") != ""
	// ---- part 1: resolution ----
	synctest.Test(t, func(t *testing.T) {
		all := []string{"m", "h2", "c1", "c2", "c3"}
		casc := map[string]string{"c1": "m", "c2": "m", "c3": "m"}
		s := vNewSim(t, all, casc, func(cfg *config.Config) { cfg.StreamFromReasonableLag = 60 * time.Second })
		defer s.shutdown()
		s.buildConverged("m", 1, 3, casc)
		in := s.startInstance("m")
		s.tick("m")
		app := in.app
		_ = app.cluster.UpdateHostsInfo()
		healthKinds := []string{"healthy", "pingfail", "offline", "lagging", "notrunning", "lagnil"}
		mkState := func(h string, kind string, isMaster bool) *nodestate.NodeState {
			ns := &nodestate.NodeState{PingOk: kind != "pingfail", IsOffline: kind == "offline", IsMaster: isMaster}
			if !isMaster {
				lag := 1.0
				if kind == "lagging" {
					lag = 60
				}
				ns.SlaveState = &nodestate.SlaveState{MasterHost: "m", ReplicationState: mysql.ReplicationRunning, ReplicationLag: &lag}
				if kind == "notrunning" {
					ns.SlaveState.ReplicationState = mysql.ReplicationStopped
				}
				if kind == "lagnil" {
					ns.SlaveState.ReplicationLag = nil
				}
			} else {
				ns.MasterState = &nodestate.MasterState{}
			}
			return ns
		}
		targets := []string{"", "m", "h2", "c1", "c2", "c3"}
		k := 0
		for _, ncasc := range []int{1, 2, 3} {
			cs := []string{"c1", "c2", "c3"}[:ncasc]
			tg := targets[:3+ncasc]
			total := 1
			for range cs {
				total *= len(tg)
			}
			for ix := 0; ix < total; ix++ {
				sf := map[string]string{}
				x := ix
				for _, c := range cs {
					sf[c] = tg[x%len(tg)]
					x /= len(tg)
				}
				// health of the possible ancestors h2, c2, c3 and of the master
				nh := 2 + ncasc - 1
				htotal := 1
				for j := 0; j < nh; j++ {
					htotal *= len(healthKinds)
				}
				for hx := 0; hx < htotal; hx++ {
					if !full && htotal > 40 && rng.Intn(htotal/40) != 0 {
						continue
					}
					k++
					if k%sn != si {
						continue
					}
					kinds := map[string]string{}
					y := hx
					for _, h := range append([]string{"m", "h2"}, cs[1:]...) {
						kinds[h] = healthKinds[y%len(healthKinds)]
						y /= len(healthKinds)
					}
					for _, curMode := range []string{"runningcfg", "runningother", "stopped", "none"} {
						state := map[string]*nodestate.NodeState{}
						var healthy []string
						for _, h := range all[:2+ncasc] {
							kind := kinds[h]
							if h == "c1" {
								kind = "healthy"
							}
							state[h] = mkState(h, kind, h == "m")
							state[h].IsCascade = h[0] == 'c'
							isH := state[h].PingOk && !state[h].IsOffline && (h == "m" || kind == "healthy")
							if isH {
								healthy = append(healthy, h)
							}
						}
						cur := ""
						host := "c1"
						switch curMode {
						case "runningcfg":
							state[host].SlaveState.MasterHost = sf[host]
							cur = sf[host]
						case "runningother":
							state[host].SlaveState.MasterHost = "h2"
							cur = "h2"
						case "stopped":
							state[host].SlaveState.MasterHost = sf[host]
							state[host].SlaveState.ReplicationState = mysql.ReplicationStopped
						case "none":
							state[host].SlaveState = nil
						}
						topo := map[string]mysql.CascadeNodeConfiguration{}
						for c, v := range sf {
							topo[c] = mysql.CascadeNodeConfiguration{StreamFrom: v}
						}
						row := resolveRow{Kind: "resolve", Host: host, Master: "m", SF: sf, Healthy: nn(healthy), Cur: cur}
						ch := make(chan struct{})
						go func() {
							defer func() {
								if r := recover(); r != nil {
									row.Panic = fmt.Sprint(r)
								}
								close(ch)
							}()
							row.Res = app.findBestStreamFrom(app.cluster.Get(host), state, "m", topo)
						}()
						select {
						case <-ch:
						case <-time.After(10 * time.Second):
							row.Hang = true
						}
						sfCopy := map[string]string{}
						for a, b := range sf {
							sfCopy[a] = b
						}
						row.SF = sfCopy
						out.emit(row)
					}
				}
			}
		}
	})
	// ---- part 2: guarded move in cluster runs ----
	relations := []string{"equal", "behind", "ahead", "diverged"}
	k := 0
	for _, rel := range relations {
		for _, how := range []string{"source_dies", "source_lags", "config_changes", "source_offline", "source_returns_behind"} {
			for _, pol := range []string{"flow", "frozen", "flow+race"} {
				// "+race": right before mysync stops the cascade replica, the master commits and the replica gets the
				// transaction through its CURRENT source while the chosen new source does not have it yet
				race := strings.HasSuffix(pol, "+race")
				pol = strings.TrimSuffix(pol, "+race")
				k++
				if k%sn != si {
					continue
				}
				id := fmt.Sprintf("c16-move-%s-%s-%s", rel, how, pol)
				if race {
					id += "-race"
				}
				hosts := []string{"h1", "h2", "h3", "c1"}
				casc := map[string]string{"c1": "h2"}
				sc := vScenario{ID: id, Hosts: hosts, Cascade: casc, Master: "h1", Manager: "h3", W: 1, Base: 3, Req: reqSpec{Kind: "none"},
					Policy: pol, Rounds: 14, Cfg: map[string]any{"failover": false, "stream_from_lag": 30}}
				var rows []moveRow
				var xhook func(s *vSim) verifsim.MyHook
				if race {
					xhook = func(s *vSim) verifsim.MyHook { return &c16RaceHook{s: s} }
				}
				res := vRun(t, &sc, vRunOpts{
					extraHook: xhook,
					setup: func(s *vSim) {
						s.W.Lock()
						c := s.W.Hosts["c1"]
						switch rel {
						case "behind":
							s.W.Hosts["h1"].Exec.Add("h1:50")
							s.W.Hosts["h3"].Exec.Add("h1:50")
						case "ahead":
							// c1 got a transaction through h2 that the other hosts do not have yet
							s.W.Hosts["h2"].Exec.Add("h1:60")
							c.Exec.Add("h1:60")
							s.W.Hosts["h1"].Pend.Add("h1:60")
						case "diverged":
							c.Exec.Add("h2:7")
						}
						s.W.Unlock()
						prev := s.onEv
						s.onEv = func(ev *verifsim.TraceEvent, wl bool) {
							if prev != nil {
								prev(ev, wl)
							}
							if ev.K == "sql" && ev.Op == "ChangeSource" && ev.At == "c1" && ev.Res == "ok" {
								// the world lock is held
								cs := s.W.Hosts["c1"]
								ns := s.W.Hosts[ev.Arg]
								var en []string
								if ns != nil {
									en = ns.Exec.Sorted()
								}
								rows = append(rows, moveRow{Kind: "move", Scn: id, Host: "c1", NewSrc: ev.Arg, OldSrc: s.lastSrcC1, WasReplicating: s.c1WasRepl,
									ExecSelf: nn(cs.Exec.Sorted()), ExecNew: nn(en)})
							}
							if ev.K == "sql" && ev.Op == "StopReplica" && ev.At == "c1" && ev.Res == "ok" {
								// remember whether it was replicating before mysync touched it (world lock held;
								// post-state already stopped: use the value tracked per round)
							}
						}
					},
					perRound: func(s *vSim, round int) bool {
						s.W.Lock()
						c := s.W.Hosts["c1"]
						s.lastSrcC1 = c.Src
						s.c1WasRepl = c.IO == "Yes" && c.SQL
						s.W.Unlock()
						if how == "source_returns_behind" && round >= 3 {
							// the workload goes on while the source is away and after it is back: the cascade replica, parked on
							// the master, keeps up
							s.W.ClientCommit("h1")
							s.W.Saturate()
						}
						if how == "source_returns_behind" && round == 7 {
							// the configured source is back after its downtime: it looks healthy (threads running, no lag
							// reported) but has not fetched what the cascade replica got from the master meanwhile
							s.W.Restart("h2", false)
							s.W.Lock()
							x := s.W.Hosts["h2"]
							x.Offline, x.Stalled, x.Lag, x.IO, x.SQL = false, true, 0, "Yes", true
							s.W.Unlock()
							s.Z.Heal("h2")
							s.startInstance("h2")
						}
						if round == 2 {
							switch how {
							case "source_dies", "source_returns_behind":
								s.W.Crash("h2")
								s.kill("h2")
							case "source_lags":
								s.W.Lock()
								s.W.Hosts["h2"].Lag = 500
								s.W.Unlock()
							case "source_offline":
								s.W.Lock()
								s.W.Hosts["h2"].Offline = true
								s.W.Unlock()
							case "config_changes":
								s.Z.Put(vNS+"/cascade_nodes/c1", `{"stream_from":"h3"}`)
							}
						}
						return false
					}})
				if res.skipped {
					continue
				}
				for _, r := range rows {
					out.emit(r)
				}
				for _, p := range res.promos {
					_ = p
				}
				meta.emit(map[string]any{"scn": id, "scenario": sc, "moves": len(rows)})
			}
		}
	}
	// ---- part 3: cascade replicas are never listed, counted or promoted ----
	for _, rq := range []reqSpec{{Kind: "from", From: "h1"}, {Kind: "auto"}, {Kind: "to", To: "h2"}, {Kind: "none"}} {
		for _, nha := range []int{2, 3} {
			k++
			if k%sn != si {
				continue
			}
			hosts := []string{"h1", "h2", "h3", "c1", "c2"}[:nha]
			hosts = append(hosts, "c1", "c2")
			casc := map[string]string{"c1": "h2", "c2": "c1"}
			id := fmt.Sprintf("c16-count-%s-n%d", rq.Kind, nha)
			sc := vScenario{ID: id, Hosts: hosts, Cascade: casc, Master: "h1", Manager: "h2", W: 1, Base: 3, Req: rq, Policy: "flow", Rounds: 10,
				Shape: map[string]hostShape{}, Cfg: map[string]any{"catchup_timeout": 4}}
			if rq.Kind == "auto" {
				sc.Shape["h1"] = hostShape{Down: true}
			}
			var lists [][]string
			res := vRun(t, &sc, vRunOpts{setup: func(s *vSim) {
				prev := s.onEv
				s.onEv = func(ev *verifsim.TraceEvent, wl bool) {
					if prev != nil {
						prev(ev, wl)
					}
					if ev.K == "zk" && ev.At == pathActiveNodes && ev.Res == "ok" && (ev.Op == "SetData" || ev.Op == "Create") && ev.By != "tool" {
						var v []string
						json.Unmarshal([]byte(ev.Arg), &v)
						lists = append(lists, v)
					}
				}
			}})
			if res.skipped {
				continue
			}
			var promoted []string
			for _, p := range res.promos {
				promoted = append(promoted, p.P)
			}
			for _, l := range lists {
				out.emit(map[string]any{"kind": "count", "scn": id, "listed": nn(l), "promoted": nn(promoted), "cascade": []string{"c1", "c2"},
					"resolved": res.tree.Switch == "", "request": rq.Kind, "ha": nha, "finalmaster": res.tree.Master})
			}
			meta.emit(map[string]any{"scn": id, "scenario": sc, "lists": len(lists), "promos": len(promoted)})
		}
	}
	// ---- part 4: an UNREACHABLE cascade replica is still a cascade replica ----
	// two HA nodes and a cascade replica that is down (or answers dubiously); the master's mysync dies while its server
	// and the HA replica are fine: "all HA replicas replicate" is a veto of the automatic failover, and the count of HA
	// nodes it is compared with must not include the dead cascade replica
	for _, cdown := range []string{"dead", "dubious"} {
		k++
		if k%sn != si {
			continue
		}
		id := "c16-deadcascade-" + cdown
		sc := vScenario{ID: id, Hosts: []string{"h1", "h2", "c1"}, Cascade: map[string]string{"c1": "h2"}, Master: "h1", Manager: "h2", W: 1, Base: 3,
			Req: reqSpec{Kind: "none"}, Policy: "flow", Rounds: 12, Cfg: map[string]any{"failover": true, "failover_delay": 0, "failover_cooldown": 0}}
		filed := 0
		var lists [][]string
		res := vRun(t, &sc, vRunOpts{noInstances: map[string]bool{"c1": true},
			setup: func(s *vSim) {
				if cdown == "dead" {
					s.W.Crash("c1")
				} else {
					s.W.SetNet("c1", "dubious")
				}
				prev := s.onEv
				s.onEv = func(ev *verifsim.TraceEvent, wl bool) {
					if prev != nil {
						prev(ev, wl)
					}
					if ev.K == "zk" && ev.At == pathCurrentSwitch && ev.Res == "ok" && (ev.Op == "Create" || ev.Op == "SetData") && ev.By != "tool" &&
						strings.Contains(ev.Arg, `"cause":"auto"`) && !strings.Contains(ev.Arg, `"started_by":"h`) {
						filed++
					}
					if ev.K == "zk" && ev.At == pathActiveNodes && ev.Res == "ok" && (ev.Op == "SetData" || ev.Op == "Create") && ev.By != "tool" {
						var v []string
						json.Unmarshal([]byte(ev.Arg), &v)
						lists = append(lists, v)
					}
				}
			},
			perRound: func(s *vSim, round int) bool {
				if round == 2 {
					s.kill("h1") // the master's mysync dies; its MySQL server stays up and writable
				}
				return false
			}})
		if res.skipped {
			continue
		}
		out.emit(map[string]any{"kind": "cascveto", "scn": id, "failoversfiled": filed, "cascade": []string{"c1"}})
		for _, l := range lists {
			out.emit(map[string]any{"kind": "count", "scn": id, "listed": nn(l), "promoted": []string{}, "cascade": []string{"c1"},
				"resolved": true, "request": "none", "ha": 2, "finalmaster": res.tree.Master})
		}
		meta.emit(map[string]any{"scn": id, "scenario": sc})
	}
	meta.emit(map[string]any{"summary": true, "runs": out.n, "bases": out.n, "stragglers": vStragglers})
	_ = verifsim.Txn("")
}


// c16RaceHook: a write lands between the manager's state snapshot and its STOP REPLICA on the cascade replica.
type c16RaceHook struct {
	s *vSim
	n int
}

func (h *c16RaceHook) BeforeSQL(c *verifsim.SQLCall) verifsim.Decision {
	if c.Stmt == "StopReplica" && c.At == "c1" && c.By != "" && c.By != "world" && h.n < 3 {
		h.n++
		h.s.W.ClientCommit("h1")
		h.s.W.Lock()
		src := h.s.W.Hosts["c1"].Src
		h.s.W.Unlock()
		// the transaction travels along the replica's current chain only
		if src != "" && src != "h1" {
			h.s.W.Fetch(src, -1)
			h.s.W.Apply(src, -1)
		}
		h.s.W.Fetch("c1", -1)
		h.s.W.Apply("c1", -1)
	}
	return verifsim.Decision{}
}
func (h *c16RaceHook) AfterSQL(c *verifsim.SQLCall, res string) {}
