//go:build verif

package app

import (
	"bufio"
	"encoding/json"
	"fmt"
	"os"
	"path/filepath"
	"sort"
	"strconv"
	"strings"
	"testing"
)

// ---- shared helpers of the injected verification drivers -------------------

func vEnvInt(name string, def int) int {
	if v, err := strconv.Atoi(os.Getenv(name)); err == nil {
		return v
	}
	return def
}

func vOutDir(t *testing.T) string {
	out := os.Getenv("VERIF_OUT")
	if out == "" {
		t.Skip("VERIF_OUT not set")
	}
	return out
}

type vRowWriter struct {
	f  *os.File
	bw *bufio.Writer
	n  int
}

func vNewRows(t *testing.T, name string) *vRowWriter {
	flags := os.O_WRONLY | os.O_CREATE | os.O_TRUNC
	if os.Getenv("VERIF_APPEND") == "1" {
		// the shard is resumed after a crash of the process: completed scenarios are kept
		flags = os.O_WRONLY | os.O_CREATE | os.O_APPEND
	}
	f, err := os.OpenFile(filepath.Join(vOutDir(t), name), flags, 0o644)
	if err != nil {
		t.Fatal(err)
	}
	return &vRowWriter{f: f, bw: bufio.NewWriterSize(f, 1<<20)}
}

func (w *vRowWriter) emit(v any) {
	b, err := json.Marshal(v)
	if err != nil {
		panic(err)
	}
	w.bw.Write(b)
	w.bw.WriteByte('\n')
	w.bw.Flush() // a crash of the process must not lose completed rows
	w.n++
}

func (w *vRowWriter) close() {
	w.bw.Flush()
	w.f.Close()
}

// shard selection: VERIF_SHARD=i/N
func vShard() (int, int) {
	s := os.Getenv("VERIF_SHARD")
	if s == "" {
		return 0, 1
	}
	var i, n int
	fmt.Sscanf(s, "%d/%d", &i, &n)
	if n <= 0 {
		return 0, 1
	}
	return i, n
}

// ---- GTID sets: independent formatter and parser ---------------------------

// vTxn is one transaction <<uuid letter, tag, number>>; JSON form ["a","",1]
type vTxn struct {
	U string
	T string
	N int
}

func (t vTxn) MarshalJSON() ([]byte, error) {
	return json.Marshal([]any{t.U, t.T, t.N})
}

type vSet []vTxn

func vUUID(letter string) string {
	// letter is a short hex word (a, b, c, ...)
	return "00000000-0000-0000-0000-" + strings.Repeat("0", 12-len(letter)) + letter
}

func vLetter(uuid string) string {
	s := strings.TrimLeft(strings.ToLower(uuid[24:]), "0")
	if s == "" {
		s = "0"
	}
	return s
}

func vSortSet(s vSet) vSet {
	r := append(vSet{}, s...)
	sort.Slice(r, func(i, j int) bool {
		if r[i].U != r[j].U {
			return r[i].U < r[j].U
		}
		if r[i].T != r[j].T {
			return r[i].T < r[j].T
		}
		return r[i].N < r[j].N
	})
	return r
}

// vFormat renders a set the way MySQL prints @@gtid_executed:
// uuid:1-3:5:tag:1-2,uuid2:7   (written independently of go-mysql)
func vFormat(s vSet) string {
	s = vSortSet(s)
	var parts []string
	i := 0
	for i < len(s) {
		u := s[i].U
		sb := vUUID(u)
		for i < len(s) && s[i].U == u {
			tag := s[i].T
			if tag != "" {
				sb += ":" + tag
			}
			for i < len(s) && s[i].U == u && s[i].T == tag {
				lo := s[i].N
				hi := lo
				i++
				for i < len(s) && s[i].U == u && s[i].T == tag && s[i].N == hi+1 {
					hi++
					i++
				}
				if lo == hi {
					sb += fmt.Sprintf(":%d", lo)
				} else {
					sb += fmt.Sprintf(":%d-%d", lo, hi)
				}
			}
		}
		parts = append(parts, sb)
	}
	return strings.Join(parts, ",")
}

// vParse parses MySQL GTID text into a set (independent of go-mysql)
func vParse(text string) (vSet, error) {
	var res vSet
	text = strings.TrimSpace(text)
	if text == "" {
		return res, nil
	}
	for _, part := range strings.Split(text, ",") {
		f := strings.Split(strings.TrimSpace(part), ":")
		if len(f) < 2 || len(f[0]) != 36 {
			return nil, fmt.Errorf("bad gtid part %q", part)
		}
		u := vLetter(f[0])
		tag := ""
		for _, x := range f[1:] {
			if x == "" {
				return nil, fmt.Errorf("empty field in %q", part)
			}
			if x[0] < '0' || x[0] > '9' {
				tag = strings.ToLower(x)
				continue
			}
			lo, hi := 0, 0
			if k := strings.IndexByte(x, '-'); k >= 0 {
				a, e1 := strconv.Atoi(x[:k])
				b, e2 := strconv.Atoi(x[k+1:])
				if e1 != nil || e2 != nil {
					return nil, fmt.Errorf("bad interval %q", x)
				}
				lo, hi = a, b
			} else {
				a, e1 := strconv.Atoi(x)
				if e1 != nil {
					return nil, fmt.Errorf("bad interval %q", x)
				}
				lo, hi = a, a
			}
			for n := lo; n <= hi; n++ {
				res = append(res, vTxn{u, tag, n})
			}
		}
	}
	return vSortSet(res), nil
}

func vSubsetsOf(u vSet) []vSet {
	n := len(u)
	res := make([]vSet, 0, 1<<n)
	for mask := 0; mask < 1<<n; mask++ {
		var s vSet
		for i := 0; i < n; i++ {
			if mask&(1<<i) != 0 {
				s = append(s, u[i])
			}
		}
		res = append(res, s)
	}
	return res
}

func vNonNil(s vSet) vSet {
	if s == nil {
		return vSet{}
	}
	return s
}
