//go:build verif

package app

// Mode machine / manager hand-over driver (Daemon.tla): real mysync processes with
// manager_switchover on are stepped through scripts - behaviours of Daemon.tla printed by
// TLC (DaemonGen.tla) and hand-written ones around the timer boundaries - and every
// activation of a state handler becomes a "mode" row judged by TLC (DaemonRows.tla).
//
// Mapping of the model to the simulation: the master h1 runs its health loop only (so that
// the coordination service says it is alive); model nodes n1, n2 (n3) are the processes on
// h2, h3 (h1).  view(n): "sees" nothing severed, "quorum" n cannot reach the master's server,
// "blind" n reaches no other server.  One model time unit = 15 s (ED = 2 units, AD = 3).

import (
	"bufio"
	"encoding/json"
	"fmt"
	"os"
	"strings"
	"testing"
	"time"
)

type hoStep struct {
	A string `json:"a"` // act | tick | disc | reco | restart | view | mainton | maintoff | sleep | edge
	N string `json:"n"`
	D int    `json:"d"` // act: 1 = the activation takes time (connections hang instead of failing); sleep: ms
	V string `json:"v"`
}

const hoUnit = 15 * time.Second

func hoHost(n string) string {
	switch n {
	case "n1":
		return "h2"
	case "n2":
		return "h3"
	case "n3":
		return "h1"
	}
	return n
}

type hoState struct {
	view map[string]string
	slow map[string]bool
}

func (st *hoState) apply(s *vSim, h string, slow bool) {
	others := []string{}
	for _, o := range s.hosts {
		if o != h {
			others = append(others, o)
		}
	}
	for _, o := range others {
		s.W.Unsever(h, o)
		s.W.Unblock(h, o)
	}
	cut := func(o string) {
		if slow {
			s.W.Block(h, o)
		} else {
			s.W.Sever(h, o)
		}
	}
	switch st.view[h] {
	case "quorum":
		cut("h1")
	case "blind":
		for _, o := range others {
			cut(o)
		}
	}
}

// idle row: the owner of the lock node sits in candidate mode (the hand-over observation)
type hoIdleRow struct {
	Kind  string `json:"kind"` // "idle"
	Scn   string `json:"scn"`
	By    string `json:"by"`
	MaxMs int64  `json:"maxms"`
}

func hoRun(t *testing.T, id string, steps []hoStep, w *vRowWriter) {
	hosts := []string{"h1", "h2", "h3"}
	sc := vScenario{ID: id, Hosts: hosts, Master: "h1", Manager: "h2", W: 1, Base: 3, Req: reqSpec{Kind: "none"}, Policy: "eager",
		Cfg: map[string]any{"manager_switchover": true, "failover": false, "failover_cooldown": 0}, Rounds: 1}
	st := &hoState{view: map[string]string{}, slow: map[string]bool{}}
	idleSince := map[string]int64{}
	idleMax := map[string]int64{}
	noteIdle := func(s *vSim) {
		owner := s.Z.OwnerClient(vNS + "/" + pathManagerLock)
		for _, h := range hosts {
			in := s.insts[h]
			if in != nil && !in.dead && owner == h && in.app.state == stateCandidate && in.app.dcs.IsConnected() {
				if _, ok := idleSince[h]; !ok {
					idleSince[h] = s.now()
				}
				if d := s.now() - idleSince[h]; d > idleMax[h] {
					idleMax[h] = d
				}
			} else {
				delete(idleSince, h)
			}
		}
	}
	res := vRun(t, &sc, vRunOpts{
		perRound: func(s *vSim, r int) bool {
			putMaint := func(leave bool) {
				var m Maintenance
				if d, ok := s.zkGet(pathMaintenance); ok {
					json.Unmarshal([]byte(d), &m)
				} else {
					m = Maintenance{InitiatedBy: "operator", InitiatedAt: time.Now(), Mode: FullMode}
				}
				m.ShouldLeave = leave
				b, _ := json.Marshal(&m)
				s.Z.Put(vNS+"/"+pathMaintenance, string(b))
			}
			pass := func(d time.Duration) {
				// time passes in steps of at most a second: every live process keeps its health record fresh
				for d > 0 {
					step := time.Second
					if d < step {
						step = d
					}
					time.Sleep(step)
					d -= step
					if s.now()%5000 < 1000 {
						for _, h := range hosts {
							s.health(h)
						}
					}
					noteIdle(s)
				}
			}
			for _, x := range steps {
				h := hoHost(x.N)
				switch x.A {
				case "act":
					st.apply(s, h, x.D == 1)
					t0 := s.now()
					s.health(h)
					s.tick(h)
					st.apply(s, h, false)
					noteIdle(s)
					if x.D == 1 {
						// the activation "takes one unit": the rest of the unit passes
						if el := time.Duration(s.now()-t0) * time.Millisecond; el < hoUnit {
							pass(hoUnit - el)
						}
					}
				case "tick":
					pass(hoUnit)
				case "sleep":
					pass(time.Duration(x.D) * time.Millisecond)
				case "edge":
					// sleep until the timer of h is exactly ED (+D ms) old
					if in := s.insts[h]; in != nil && !in.app.lostQuorumTime.IsZero() {
						target := in.app.lostQuorumTime.Add(in.app.config.ManagerElectionDelayAfterQuorumLoss + time.Duration(x.D)*time.Millisecond)
						if d := time.Until(target); d > 0 {
							time.Sleep(d)
						}
						noteIdle(s)
					}
				case "edge2":
					// ... exactly ED+AD (+D ms) old
					if in := s.insts[h]; in != nil && !in.app.lostQuorumTime.IsZero() {
						target := in.app.lostQuorumTime.Add(in.app.config.ManagerElectionDelayAfterQuorumLoss +
							in.app.config.ManagerLockAcquireDelayAfterQuorumLoss + time.Duration(x.D)*time.Millisecond)
						if d := time.Until(target); d > 0 {
							time.Sleep(d)
						}
						noteIdle(s)
					}
				case "disc":
					s.Z.Cut(h)
					s.Z.ExpireClient(h)
				case "reco":
					s.Z.Heal(h)
					time.Sleep(200 * time.Millisecond)
				case "restart":
					s.kill(h)
					time.Sleep(100 * time.Millisecond)
					s.Z.Heal(h)
					s.startInstance(h)
				case "restartcut":
					// the process restarts while it cannot reach the coordination service
					s.kill(h)
					time.Sleep(100 * time.Millisecond)
					s.startInstance(h)
					s.Z.Cut(h)
					time.Sleep(100 * time.Millisecond)
				case "view":
					st.view[h] = x.V
				case "mainton":
					if _, ok := s.zkGet(pathMaintenance); !ok {
						putMaint(false)
					}
				case "maintoff":
					if _, ok := s.zkGet(pathMaintenance); ok {
						putMaint(true)
					}
				}
			}
			return true
		},
	})
	if res == nil || res.skipped {
		return
	}
	for _, m := range res.modes {
		w.emit(m)
	}
	for h, d := range idleMax {
		w.emit(hoIdleRow{Kind: "idle", Scn: id, By: h, MaxMs: d})
	}
	if len(res.panics) > 0 {
		w.emit(map[string]any{"kind": "panic", "scn": id, "site": res.panics[0]})
	}
}

func hoSystematic() map[string][]hoStep {
	out := map[string][]hoStep{}
	act := func(n string, d int) hoStep { return hoStep{A: "act", N: n, D: d} }
	view := func(n, v string) hoStep { return hoStep{A: "view", N: n, V: v} }
	sleep := func(ms int) hoStep { return hoStep{A: "sleep", D: ms} }
	rep := func(k int, xs ...hoStep) []hoStep {
		var r []hoStep
		for i := 0; i < k; i++ {
			r = append(r, xs...)
		}
		return r
	}
	cat := func(xs ...[]hoStep) []hoStep {
		var r []hoStep
		for _, x := range xs {
			r = append(r, x...)
		}
		return r
	}
	one := func(xs ...hoStep) []hoStep { return xs }
	// the manager (n1) goes blind and stays blind; every process ticks every `step` ms for `total` ms
	for _, step := range []int{1000, 5000, 7000} {
		for _, slow := range []int{0, 1} {
			k := 100000 / step
			out[fmt.Sprintf("blind-forever-step%d-slow%d", step, slow)] = cat(one(act("n1", 0), view("n1", "blind")),
				rep(k, act("n1", slow), act("n2", 0), sleep(step)))
			// a short blind spell: the master is visible again after two activations
			out[fmt.Sprintf("blind-spell-step%d-slow%d", step, slow)] = cat(one(act("n1", 0), view("n1", "blind"), act("n1", slow), sleep(step), act("n1", slow), view("n1", "sees")),
				rep(k, act("n1", 0), act("n2", 0), sleep(step)))
			// blind, then a quorum without the master
			out[fmt.Sprintf("blind-then-quorum-step%d-slow%d", step, slow)] = cat(one(act("n1", 0), view("n1", "blind"), act("n1", slow), sleep(step), view("n1", "quorum")),
				rep(k/2, act("n1", slow), act("n2", 0), sleep(step)))
		}
	}
	// boundaries of the timer: an activation exactly at ED, one ms before and after; the same at ED+AD
	for _, off := range []int{-1, 0, 1} {
		out[fmt.Sprintf("edge-ED%+d", off)] = cat(one(act("n1", 0), view("n1", "blind"), act("n1", 0), hoStep{A: "edge", N: "n1", D: off}, act("n1", 0), act("n2", 0)),
			rep(12, sleep(5000), act("n1", 0), act("n2", 0)))
		out[fmt.Sprintf("edge-EDAD%+d", off)] = cat(one(act("n1", 0), view("n1", "blind"), act("n1", 0), hoStep{A: "edge", N: "n1", D: 1}, act("n1", 0),
			hoStep{A: "edge2", N: "n1", D: off}, act("n1", 0), act("n2", 0)), rep(4, sleep(5000), act("n1", 0), act("n2", 0)))
		// the activation starts before ED and reaches checkQuorum after it (hanging connections): the release path
		out[fmt.Sprintf("straddle-ED%+d", off)] = cat(one(act("n1", 0), view("n1", "blind"), act("n1", 0), hoStep{A: "edge", N: "n1", D: -2000 + off}, act("n1", 1), act("n2", 0)),
			rep(12, sleep(5000), act("n1", 0), act("n2", 0)))
	}
	// maintenance while the timer runs
	for _, when := range []int{5000, 31000, 50000} {
		out[fmt.Sprintf("maint-during-timer-%d", when)] = cat(one(act("n1", 0), view("n1", "blind"), act("n1", 0), sleep(when), hoStep{A: "mainton"}, act("n1", 0), act("n2", 0), act("n1", 0),
			sleep(5000), hoStep{A: "maintoff"}), rep(20, act("n1", 0), act("n2", 0), sleep(5000)))
	}
	// the stale timer of a short blind spell, and maintenance entered / left at various ages of it
	for _, when := range []int{5000, 29000, 31000, 50000, 80000} {
		out[fmt.Sprintf("maint-stale-timer-%d", when)] = cat(one(act("n1", 0), view("n1", "blind"), act("n1", 0), view("n1", "sees"), sleep(when), hoStep{A: "mainton"},
			act("n1", 0), act("n2", 0), act("n1", 0), act("n2", 0), sleep(5000), hoStep{A: "maintoff"}), rep(20, act("n1", 0), act("n2", 0), sleep(5000)))
		out[fmt.Sprintf("leave-stale-timer-%d", when)] = cat(one(act("n1", 0), hoStep{A: "mainton"}, act("n1", 0), act("n2", 0), act("n1", 0), act("n2", 0)),
			one(hoStep{A: "maintoff"}), rep(20, act("n1", 0), act("n2", 0), sleep(5000)))
	}
	// restart without the coordination service while paused: the marker file keeps the process paused
	out["restart-cut-in-maintenance"] = cat(one(act("n1", 0), hoStep{A: "mainton"}, act("n1", 0), act("n2", 0), act("n1", 0), act("n2", 0), hoStep{A: "restartcut", N: "n2"}),
		rep(3, act("n2", 0), sleep(6000)), one(hoStep{A: "reco", N: "n2"}), rep(3, act("n2", 0), act("n1", 0), sleep(2000)),
		one(hoStep{A: "maintoff"}), rep(6, act("n1", 0), act("n2", 0), sleep(2000)))
	out["restart-cut-no-maintenance"] = cat(one(act("n1", 0), hoStep{A: "restartcut", N: "n2"}), rep(3, act("n2", 0), sleep(6000)),
		one(hoStep{A: "reco", N: "n2"}), rep(3, act("n2", 0), act("n1", 0), sleep(2000)))
	// session loss and restart while the timer runs
	for _, when := range []int{5000, 31000, 80000} {
		out[fmt.Sprintf("disc-during-timer-%d", when)] = cat(one(act("n1", 0), view("n1", "blind"), act("n1", 0), sleep(when), hoStep{A: "disc", N: "n1"}, act("n1", 0), act("n2", 0),
			hoStep{A: "reco", N: "n1"}), rep(20, act("n1", 0), act("n2", 0), sleep(5000)))
		out[fmt.Sprintf("restart-during-timer-%d", when)] = cat(one(act("n1", 0), view("n1", "blind"), act("n1", 0), sleep(when), hoStep{A: "restart", N: "n1"}),
			rep(20, act("n1", 0), act("n2", 0), sleep(5000)))
	}
	return out
}

func TestVerifHandover(t *testing.T) {
	w := vNewRows(t, "rows.ndjson")
	defer w.close()
	meta := vNewRows(t, "meta.ndjson")
	defer meta.close()
	si, sn := vShard()
	type item struct {
		id    string
		steps []hoStep
	}
	var items []item
	sys := hoSystematic()
	for _, id := range sortedKeys(sys) {
		items = append(items, item{"ho-" + id, sys[id]})
	}
	if f := os.Getenv("VERIF_BEHAVIOURS"); f != "" {
		fh, err := os.Open(f)
		if err != nil {
			t.Fatal(err)
		}
		sc := bufio.NewScanner(fh)
		sc.Buffer(make([]byte, 1<<20), 1<<24)
		k := 0
		for sc.Scan() {
			var steps []hoStep
			if json.Unmarshal(sc.Bytes(), &steps) != nil || len(steps) == 0 {
				continue
			}
			k++
			items = append(items, item{fmt.Sprintf("ho-tlc-%d", k), steps})
		}
		fh.Close()
	}
	runs := 0
	for k, it := range items {
		if k%sn != si {
			continue
		}
		if only := os.Getenv("VERIF_ONLY"); only != "" && !strings.Contains(it.id, only) {
			continue
		}
		hoRun(t, it.id, it.steps, w)
		runs++
		meta.emit(map[string]any{"scn": it.id, "scenario": map[string]any{"id": it.id, "extra": it.steps}})
	}
	meta.emit(map[string]any{"summary": true, "runs": runs, "bases": runs, "stragglers": vStragglers})
}
