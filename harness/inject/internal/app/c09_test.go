//go:build verif

package app

// C09 driver: maintenance freezes automation; leaving re-learns the real master.

import (
	"encoding/json"
	"fmt"
	"strings"
	"testing"
	"time"

	"github.com/yandex/mysync/internal/verifsim"
)

func TestVerifC09(t *testing.T) {
	out := vNewRows(t, "rows.ndjson")
	defer out.close()
	meta := vNewRows(t, "meta.ndjson")
	defer meta.close()
	si, sn := vShard()
	k, runs := 0, 0
	hosts := []string{"h1", "h2", "h3"}
	putMaint := func(s *vSim, mode string, leave bool) {
		var m Maintenance
		if d, ok := s.zkGet(pathMaintenance); ok {
			json.Unmarshal([]byte(d), &m)
		} else {
			m = Maintenance{InitiatedBy: "operator", InitiatedAt: time.Now(), Mode: MaintenanceMode(mode)}
		}
		m.ShouldLeave = leave
		b, _ := json.Marshal(&m)
		s.Z.Put(vNS+"/"+pathMaintenance, string(b))
	}
	for _, action := range []string{"none", "move_master", "two_masters", "no_master", "stop_replication", "crash_replica"} {
		for _, disturb := range []string{"none", "restart_manager", "restart_candidate", "zk_loss_manager", "zk_loss_all", "kill_manager", "zk_loss_unacked_candidates", "leave_write_fails"} {
			for _, disSS := range []bool{true, false} {
				for _, pol := range []string{"flow", "eager"} {
					k++
					if k%sn != si {
						continue
					}
					id := fmt.Sprintf("c09-full-%s-%s-ss%v-%s", action, disturb, disSS, pol)
					sc := vScenario{ID: id, Hosts: hosts, Master: "h1", Manager: "h2", W: 1, Base: 3, Req: reqSpec{Kind: "none"}, Policy: pol, Rounds: 16,
						Cfg: map[string]any{"maint_disable_ss": disSS, "failover": true}}
					if disturb == "zk_loss_unacked_candidates" {
						sc.Manager = "h3" // it ticks last: the candidates have not yet seen its acknowledgement
					}
					acked, leaveReq, deleted := false, false, false
					sqlChanges, treeWrites := 0, 0
					var leaveRows []map[string]any
					rebuiltBy := map[string]bool{}
					var changes []string
					atEnter := map[string][2]any{} // instance -> (number of alive masters, the only one) when its activation started
					res := vRun(t, &sc, vRunOpts{
						setup: func(s *vSim) {
							prev := s.onEv
							s.onEv = func(ev *verifsim.TraceEvent, wl bool) {
								if prev != nil {
									prev(ev, wl)
								}
								if ev.K == "app" && ev.Op == "Enter" {
									s.W.Lock()
									n, only := 0, ""
									for _, h := range hosts {
										x := s.W.Hosts[h]
										if x.Up && x.Net == "ok" && x.Src == "" {
											n++
											only = h
										}
									}
									s.W.Unlock()
									atEnter[ev.By] = [2]any{n, only}
								}
								switch {
								case ev.K == "zk" && ev.At == pathMaintenance && ev.Res == "ok" && ev.Op == "SetData" && ev.By != "tool" && strings.Contains(ev.Arg, `"mysync_paused":true`):
									acked = true
								case ev.K == "zk" && ev.At == pathMaintenance && ev.Res == "ok" && ev.Op == "Delete":
									deleted = true
									// ground truth in the leaving activation
									row := map[string]any{"kind": "leave", "scn": id, "by": ev.By, "nmasters": -1, "onlymaster": "", "masterkey": s.lastMasterStr(), "activenonempty": len(s.lastActiveList) > 0,
										"rebuilt": rebuiltBy[ev.By]}
									// what the leaving activation observed when it started (its own repairs come later)
									if e, ok := atEnter[ev.By]; ok {
										row["nmasters"], row["onlymaster"] = e[0], e[1]
									}
									leaveRows = append(leaveRows, row)
								case ev.K == "sql" && ev.Mut && ev.Chg && ev.Res == "ok" && ev.By != "" && ev.By != "world" && acked && !leaveReq && !deleted:
									sqlChanges++
									changes = append(changes, fmt.Sprintf("%s:%s@%s", ev.By, ev.Op, ev.At))
								case ev.K == "zk" && ev.Mut && ev.By != "tool" && (ev.At == pathMasterNode || ev.At == pathActiveNodes) && acked && !leaveReq && !deleted:
									treeWrites++
									changes = append(changes, fmt.Sprintf("%s:%s@%s", ev.By, ev.Op, ev.At))
								}
								if ev.K == "app" && ev.Op == "Enter" {
									rebuiltBy[ev.By] = false
								}
								if ev.K == "zk" && ev.At == pathActiveNodes && ev.Res == "ok" && (ev.Op == "SetData" || ev.Op == "Create") && ev.By != "tool" {
									rebuiltBy[ev.By] = true // the list was published by this process in its current activation
								}
								if ev.K == "zk" && ev.At == pathActiveNodes && ev.Res == "ok" && (ev.Op == "SetData" || ev.Op == "Create") {
									var v []string
									json.Unmarshal([]byte(ev.Arg), &v)
									s.lastActiveList = v
								}
								if ev.K == "zk" && ev.At == pathActiveNodes && ev.Res == "ok" && ev.Op == "Delete" {
									s.lastActiveList = nil
								}
							}
						},
						perRound: func(s *vSim, round int) bool {
							switch round {
							case 1:
								putMaint(s, "full", false)
							case 2:
								if disturb == "zk_loss_unacked_candidates" {
									s.Z.Cut("h1")
									s.Z.Cut("h2")
								}
							case 4:
								// the operator works on the cluster by hand
								s.W.Lock()
								h1, h2, h3 := s.W.Hosts["h1"], s.W.Hosts["h2"], s.W.Hosts["h3"]
								switch action {
								case "move_master":
									h1.RO = "sro"
									h2.Src, h2.IO, h2.SQL, h2.RO = "", "No", false, "rw"
									h1.Src, h1.IO, h1.SQL = "h2", "Yes", true
									h3.Src = "h2"
								case "two_masters":
									h2.Src, h2.IO, h2.SQL, h2.RO = "", "No", false, "rw"
								case "no_master":
									h1.Src, h1.IO, h1.SQL, h1.RO = "h2", "Yes", true, "sro"
								case "stop_replication":
									h3.IO, h3.SQL = "No", false
								}
								s.W.Unlock()
								if action == "crash_replica" {
									s.W.Crash("h3")
								}
							case 5:
								switch disturb {
								case "restart_manager":
									s.kill("h2")
									s.startInstance("h2")
								case "kill_manager":
									s.kill("h2")
								case "restart_candidate":
									s.kill("h3")
									s.startInstance("h3")
								case "zk_loss_manager":
									s.Z.Cut("h2")
								case "zk_loss_all":
									for _, h := range hosts {
										s.Z.Cut(h)
									}
								}
							case 8:
								if disturb == "zk_loss_manager" {
									s.Z.Heal("h2")
								}
								if disturb == "zk_loss_all" {
									for _, h := range hosts {
										s.Z.Heal(h)
									}
								}
								if disturb == "zk_loss_unacked_candidates" {
									s.Z.Heal("h1")
									s.Z.Heal("h2")
								}
							case 10:
								leaveReq = true
								if disturb == "leave_write_fails" {
									// the first two attempts to publish the rebuilt list fail: leaving must wait for a successful rebuild
									if hk, ok := s.hook.(*vHook); ok {
										hk.arm(&faultSpec{Chan: "zk", Stmt: "SetData", At: pathActiveNodes, Occ: 0, Times: 2, Kind: "zkfail"})
									}
								}
								putMaint(s, "full", true)
							}
							return false
						},
						finish: func(s *vSim, r *vRunResult) {
							s.W.Lock()
							n := 0
							for _, h := range hosts {
								x := s.W.Hosts[h]
								if x.Up && x.Net == "ok" && x.Src == "" {
									n++
								}
							}
							s.W.Unlock()
							_, kept := s.zkGet(pathMaintenance)
							emerge := false
							for _, h := range hosts {
								emerge = emerge || s.fileExists(h, "emerge")
							}
							if acked {
								out.emit(map[string]any{"kind": "frozen", "scn": id, "sqlchanges": sqlChanges, "treewrites": treeWrites, "changes": nn(changes)})
							}
							if n != 1 && acked {
								out.emit(map[string]any{"kind": "stay", "scn": id, "nmasters": n, "recordkept": kept, "emerge": emerge})
							}
							if n == 1 && acked && action != "crash_replica" {
								out.emit(map[string]any{"kind": "mustleave", "scn": id, "left": !kept})
							}
						}})
					runs++
					if res.skipped {
						continue
					}
					for _, r := range leaveRows {
						out.emit(r)
					}
					for _, m := range res.modes {
						out.emit(m)
					}
					meta.emit(map[string]any{"scn": id, "scenario": sc, "acked": acked})
				}
			}
		}
	}
	// light maintenance
	for _, v := range []string{"forced_failover_pending", "master_dies", "planned_switchover", "broken_replica"} {
		k++
		if k%sn != si {
			continue
		}
		id := "c09-light-" + v
		sc := vScenario{ID: id, Hosts: hosts, Master: "h1", Manager: "h2", W: 1, Base: 3, Req: reqSpec{Kind: "none"}, Policy: "flow", Rounds: 12,
			Cfg: map[string]any{"failover": true, "catchup_timeout": 4}}
		failAttempts, autoReq := 0, 0
		plannedFiled, plannedOK := false, false
		res := vRun(t, &sc, vRunOpts{
			setup: func(s *vSim) {
				putMaint(s, "light", false)
				prev := s.onEv
				s.onEv = func(ev *verifsim.TraceEvent, wl bool) {
					if prev != nil {
						prev(ev, wl)
					}
					if ev.K == "zk" && ev.At == pathCurrentSwitch && ev.Res == "ok" && ev.By != "tool" {
						var sw Switchover
						json.Unmarshal([]byte(ev.Arg), &sw)
						if ev.Op == "Create" && sw.Cause == CauseAuto {
							autoReq++
						}
						if ev.Op == "SetData" && sw.MasterTransition == FailoverTransition && !sw.StartedAt.IsZero() && sw.Result == nil {
							failAttempts++
						}
					}
					if ev.K == "zk" && ev.At == pathLastSwitch && ev.Res == "ok" && ev.By != "tool" {
						plannedOK = true
					}
				}
			},
			perRound: func(s *vSim, round int) bool {
				if round == 2 {
					switch v {
					case "forced_failover_pending":
						sw := Switchover{From: "h1", Cause: CauseManual, MasterTransition: FailoverTransition, InitiatedBy: "op", InitiatedAt: time.Now()}
						b, _ := json.Marshal(&sw)
						s.Z.Put(vNS+"/"+pathCurrentSwitch, string(b))
					case "master_dies":
						s.W.Crash("h1")
						s.kill("h1")
					case "planned_switchover":
						plannedFiled = true
						sw := Switchover{To: "h3", Cause: CauseManual, MasterTransition: SwitchoverTransition, InitiatedBy: "op", InitiatedAt: time.Now()}
						b, _ := json.Marshal(&sw)
						s.Z.Put(vNS+"/"+pathCurrentSwitch, string(b))
					case "broken_replica":
						s.W.Lock()
						s.W.Hosts["h3"].IO, s.W.Hosts["h3"].SQL = "No", false
						s.W.Unlock()
					}
				}
				return false
			},
			finish: func(s *vSim, r *vRunResult) {
				s.W.Lock()
				rep := s.W.Hosts["h3"].IO == "Yes" && s.W.Hosts["h3"].SQL
				s.W.Unlock()
				out.emit(map[string]any{"kind": "light", "scn": id, "failoverattempts": failAttempts, "autorequests": autoReq, "plannedfiled": plannedFiled,
					"plannedsucceeded": plannedOK, "brokenreplica": v == "broken_replica", "replicarepaired": rep})
			}})
		runs++
		if res.skipped {
			continue
		}
		for _, m := range res.modes {
			out.emit(m)
		}
		meta.emit(map[string]any{"scn": id, "scenario": sc})
	}
	meta.emit(map[string]any{"summary": true, "runs": runs, "bases": runs, "stragglers": vStragglers})
}
