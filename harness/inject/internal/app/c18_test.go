//go:build verif

package app

// C18 driver: the complete usage/state grid through the real repairReadOnlyOnMaster.

import (
	"fmt"
	"os"
	"testing"
	"testing/synctest"

	nodestate "github.com/yandex/mysync/internal/app/node_state"
	"github.com/yandex/mysync/internal/config"
	"github.com/yandex/mysync/internal/mysql"
	"github.com/yandex/mysync/internal/verifsim"
)

type diskRep struct {
	Usage   int  `json:"usage"`
	Running bool `json:"running"`
}

type diskRow struct {
	Kind      string    `json:"kind"`
	Mu        int       `json:"mu"`
	Reps      []diskRep `json:"reps"`
	Wsc       int       `json:"wsc"`
	Crit      int       `json:"crit"`
	NC        int       `json:"nc"`
	KeepSuper bool      `json:"keepsuper"`
	SemiSync  bool      `json:"semisync"`
	ROBefore  string    `json:"robefore"`
	ROAfter   string    `json:"roafter"`
	Stmts     []string  `json:"stmts"`
	LowSpace  string    `json:"lowspace"`
}

func TestVerifC18(t *testing.T) {
	out := vNewRows(t, "rows.ndjson")
	defer out.close()
	meta := vNewRows(t, "meta.ndjson")
	defer meta.close()
	si, sn := vShard()
	full := os.Getenv("VERIF_FULL") != ""
	// usage in PER MILLE (thresholds 95 % = 950, 90 % = 900): 904 and 955 are fractions of a percent above a threshold
	levels := []int{-1, 500, 900, 904, 920, 950, 990}
	repLevels := []int{500, 900, 920, 950, 990}
	type repKind struct {
		usage   int
		running bool // semi-sync slave enabled and replication running
		mode    int  // 0 counted, 1 semi-sync off, 2 replication stopped, 3 no disk report
	}
	var repOpts []repKind
	for _, u := range repLevels {
		repOpts = append(repOpts, repKind{u, true, 0})
	}
	repOpts = append(repOpts, repKind{990, false, 1}, repKind{990, false, 2}, repKind{990, false, 3}, repKind{500, false, 1})
	repOpts = append(repOpts, repKind{904, true, 0}) // a running replica a fraction of a percent inside the grey zone
	cells := 0
	for _, keep := range []bool{false, true} {
		for _, semi := range []bool{true, false} {
			cfgKeep, cfgSemi := keep, semi
			synctest.Test(t, func(t *testing.T) {
				hosts := []string{"h1", "h2", "h3", "h4"}
				s := vNewSim(t, hosts, nil, func(cfg *config.Config) {
					cfg.KeepSuperWritableOnCriticalDiskUsage = cfgKeep
					cfg.SemiSync = cfgSemi
					cfg.CriticalDiskUsage = 95
					cfg.NotCriticalDiskUsage = 90
				})
				defer s.shutdown()
				s.buildConverged("h1", 1, 3, nil)
				in := s.startInstance("h1")
				s.tick("h1")
				app := in.app
				_ = app.cluster.UpdateHostsInfo()
				var stmts []string
				low := "none"
				s.onEv = func(ev *verifsim.TraceEvent, wl bool) {
					if ev.K == "sql" && ev.Mut && ev.At == "h1" && ev.Res == "ok" {
						stmts = append(stmts, ev.Op)
					}
					if ev.K == "zk" && ev.At == pathLowSpace && ev.Res == "ok" && (ev.Op == "Create" || ev.Op == "SetData") {
						low = ev.Arg
					}
				}
				var repSets [][]repKind
				repSets = append(repSets, nil)
				for _, a := range repOpts {
					repSets = append(repSets, []repKind{a})
					for _, b := range repOpts {
						repSets = append(repSets, []repKind{a, b})
						if full {
							for _, c := range repOpts {
								repSets = append(repSets, []repKind{a, b, c})
							}
						}
					}
				}
				if !full {
					for _, tr := range [][]repKind{{repOpts[0], repOpts[3], repOpts[4]}, {repOpts[3], repOpts[4], repOpts[4]}, {repOpts[3], repOpts[3], repOpts[3]},
						{repOpts[1], repOpts[2], repOpts[3]}, {repOpts[2], repOpts[2], repOpts[4]}, {repOpts[0], repOpts[5], repOpts[7]}} {
						repSets = append(repSets, tr)
					}
				}
				for _, mu := range levels {
					for _, wsc := range []int{1, 2} {
						for _, ro := range []string{"rw", "ro", "sro"} {
							for _, rs := range repSets {
								cells++
								if cells%sn != si {
									continue
								}
								s.W.Lock()
								s.W.Hosts["h1"].RO = ro
								s.W.Unlock()
								stmts, low = nil, "none"
								masterState := &nodestate.NodeState{IsMaster: true, PingOk: true, IsReadOnly: ro != "rw", IsSuperReadOnly: ro == "sro",
									SemiSyncState: &nodestate.SemiSyncState{MasterEnabled: true, WaitSlaveCount: wsc}}
								dcsState := map[string]*nodestate.NodeState{}
								ms := *masterState
								if mu >= 0 {
									ms.DiskState = &nodestate.DiskState{Used: uint64(mu), Total: 1000}
								}
								dcsState["h1"] = &ms
								row := diskRow{Kind: "disk", Mu: mu, Wsc: wsc, Crit: 950, NC: 900, KeepSuper: cfgKeep, SemiSync: cfgSemi, ROBefore: ro, Reps: []diskRep{}}
								for k, r := range rs {
									h := hosts[k+1]
									ns := &nodestate.NodeState{PingOk: true, IsReadOnly: true, IsSuperReadOnly: true,
										SemiSyncState: &nodestate.SemiSyncState{SlaveEnabled: r.mode != 1},
										SlaveState:    &nodestate.SlaveState{MasterHost: "h1", ReplicationState: mysql.ReplicationRunning}}
									if r.mode == 2 {
										ns.SlaveState.ReplicationState = mysql.ReplicationStopped
									}
									if r.mode != 3 {
										ns.DiskState = &nodestate.DiskState{Used: uint64(r.usage), Total: 1000}
									}
									dcsState[h] = ns
									if r.mode != 3 {
										// without semi-sync in the configuration no replica counts
										row.Reps = append(row.Reps, diskRep{Usage: r.usage, Running: r.running && cfgSemi})
									}
								}
								app.repairReadOnlyOnMaster(app.cluster.Get("h1"), masterState, dcsState)
								s.W.Lock()
								row.ROAfter = s.W.Hosts["h1"].RO
								s.W.Unlock()
								row.Stmts = nn(stmts)
								row.LowSpace = low
								out.emit(row)
							}
						}
					}
				}
			})
		}
	}
	meta.emit(map[string]any{"summary": true, "runs": out.n, "bases": out.n, "stragglers": vStragglers})
	_ = fmt.Sprint
}
