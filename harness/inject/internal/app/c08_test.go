//go:build verif

package app

// C08 driver: the full decision product of the lost state through the real stateLost.

import (
	"fmt"
	"math/rand"
	"os"
	"strings"
	"testing"
	"time"

	"github.com/yandex/mysync/internal/verifsim"
)

type lostRow struct {
	Kind      string   `json:"kind"`
	Scn       string   `json:"scn"`
	Tick      int      `json:"tick"`
	Role      string   `json:"role"`
	N         int      `json:"n"`
	Disabled  bool     `json:"disabled"`
	Conds     []string `json:"conds"`
	SemiSync  bool     `json:"semisync"`
	Wsc       int      `json:"wsc"`
	SinceMs   int64    `json:"sincems"`
	DelayMs   int64    `json:"delayms"`
	LocalUp   bool     `json:"localup"`
	LocalMut  []string `json:"localmut"`
	RemoteMut []string `json:"remotemut"`
	ROIssued  bool     `json:"roissued"`
	ROAccepts bool     `json:"roaccepts"`
	ROAfter   string   `json:"roafter"`
	ROStuck   bool     `json:"rostuck"`
	WaitingAck bool    `json:"waitingack"`
	Next      string   `json:"next"`
	Variant   string   `json:"variant"`
}

func TestVerifC08(t *testing.T) {
	out := vNewRows(t, "rows.ndjson")
	defer out.close()
	meta := vNewRows(t, "meta.ndjson")
	defer meta.close()
	rng := rand.New(rand.NewSource(int64(vEnvInt("VERIF_SEED", 1))))
	budget := vEnvInt("VERIF_RUNS", 150)
	full := os.Getenv("VERIF_FULL") != ""
	si, sn := vShard()
	conds := []string{"streaming", "stopped", "wrong_source", "not_semisync", "refusing", "timing_out"}
	type base struct {
		role     string
		n        int
		cs       []string
		semisync bool
		wsc      int
		disabled bool
		variant  string // ok | pending | stuck | roerror | rohang | localdown
	}
	var bases []base
	for _, role := range []string{"master", "replica", "cascade"} {
		for n := 1; n <= 4; n++ {
			nrep := n - 1
			total := 1
			for i := 0; i < nrep; i++ {
				total *= len(conds)
			}
			for ix := 0; ix < total; ix++ {
				cs := make([]string, nrep)
				x := ix
				for i := range cs {
					cs[i] = conds[x%len(conds)]
					x /= len(conds)
				}
				if n == 4 && !full && rng.Intn(4) != 0 {
					continue
				}
				for _, ss := range []bool{true, false} {
					for _, wsc := range []int{1, 2} {
						if !ss && wsc == 2 {
							continue
						}
						for _, dis := range []bool{false, true} {
							if dis && rng.Intn(3) != 0 && !full {
								continue
							}
							variants := []string{"ok"}
							if role == "master" {
								variants = []string{"ok", "pending", "stuck", "stuck_offline", "roerror", "rohang"}
							} else if role == "replica" {
								variants = []string{"ok", "roerror"}
							}
							for _, c := range cs {
								if c == "timing_out" && role != "cascade" {
									// history: the replicas that time out during the first activation refuse connections from the
									// second one on (the machine is back, its server is not): nothing is unreachable any more
									variants = append(variants, "flip")
									break
								}
							}
							for _, v := range variants {
								bases = append(bases, base{role, n, cs, ss, wsc, dis, v})
							}
						}
					}
				}
			}
		}
	}
	rng.Shuffle(len(bases), func(a, b int) { bases[a], bases[b] = bases[b], bases[a] })
	runs := 0
	for bi, b := range bases {
		if bi%sn != si {
			continue
		}
		if !full && runs >= budget {
			break
		}
		id := fmt.Sprintf("c08-%s-n%d-%s-ss%v-w%d-d%v-%s", b.role, b.n, strings.Join(b.cs, "."), b.semisync, b.wsc, b.disabled, b.variant)
		if only := os.Getenv("VERIF_ONLY"); only != "" && only != id {
			continue
		}
		// hosts: the master is h1; the local node is h1 (role master), h2 (role replica: it is replica #1) or c1 (cascade)
		hosts := []string{"h1"}
		for i := 2; i <= b.n; i++ {
			hosts = append(hosts, fmt.Sprintf("h%d", i))
		}
		cascade := map[string]string{}
		local := "h1"
		switch b.role {
		case "replica":
			if b.n == 1 {
				continue
			}
			local = "h2"
		case "cascade":
			hosts = append(hosts, "c1")
			cascade["c1"] = "h1"
			local = "c1"
		}
		sc := vScenario{ID: id, Hosts: hosts, Cascade: cascade, Master: "h1", Manager: local, W: b.wsc, Base: 3, Req: reqSpec{Kind: "none"},
			Policy: "frozen", Rounds: 1,
			Cfg: map[string]any{"semi_sync": b.semisync, "disable_ro_on_lost": b.disabled, "inactivation_delay": 5, "failover": false}}
		noInst := map[string]bool{}
		for _, h := range hosts {
			if h != local {
				noInst[h] = true
			}
		}
		var rows []lostRow
		var obsLocal, obsRemote []string
		observing := false
		res := vRun(t, &sc, vRunOpts{noInstances: noInst, keepTrace: os.Getenv("VERIF_ONLY") != "", keepLog: os.Getenv("VERIF_ONLY") != "",
			setup: func(s *vSim) {
				prev := s.onEv
				s.onEv = func(ev *verifsim.TraceEvent, wl bool) {
					if prev != nil {
						prev(ev, wl)
					}
					if observing && ev.K == "sql" && ev.Mut && ev.By == local {
						tag := ev.Op
						if ev.At == local {
							obsLocal = append(obsLocal, tag+"="+ev.Res)
						} else {
							obsRemote = append(obsRemote, tag+"@"+ev.At)
						}
					}
				}
			},
			perRound: func(s *vSim, round int) bool {
				// the instance has run FirstRun -> Manager/Candidate once (host registry loaded);
				// now it loses the coordination service for good
				s.tick(local)
				s.Z.Cut(local)
				time.Sleep(4 * time.Second)
				s.tick(local) // -> Lost (first lost activation happens inside this tick's chain or the next)
				// set the situation AFTER the loss
				s.W.Lock()
				m := s.W.Hosts["h1"]
				m.Wsc = b.wsc
				m.SsM = b.semisync
				for i, c := range b.cs {
					h := fmt.Sprintf("h%d", i+2)
					x := s.W.Hosts[h]
					x.SsS, x.SsSAct = b.semisync, b.semisync
					switch c {
					case "stopped":
						x.IO = "No"
						x.SQL = false
					case "wrong_source":
						x.Src = "h9"
					case "not_semisync":
						x.SsS, x.SsSAct = false, false
					}
				}
				lh := s.W.Hosts[local]
				switch b.variant {
				case "pending":
					if b.role == "master" {
						lh.Pend.Add(verifsim.Txn("h1:900"))
					}
				case "stuck", "stuck_offline":
					if b.role == "master" {
						lh.Pend.Add(verifsim.Txn("h1:900"))
						lh.KillIneffective = true
						// history: offline_mode is ON already (an operator, the resetup flag, or an earlier fencing attempt
						// whose second step failed) while semi-sync is still enabled and commits hang
						lh.Offline = b.variant == "stuck_offline"
					}
				}
				s.W.Unlock()
				for i, c := range b.cs {
					h := fmt.Sprintf("h%d", i+2)
					if h == local {
						continue // the local node's own condition is its role
					}
					switch c {
					case "refusing":
						s.W.Crash(h)
					case "timing_out":
						s.W.SetNet(h, "isolated")
					}
				}
				if b.variant == "roerror" {
					s.setHook(&c08Hook{local: local, mode: "error"})
				} else if b.variant == "rohang" {
					s.setHook(&c08Hook{local: local, mode: "hang"})
				}
				var firstUnreach int64 = -1
				hasUnreach := false
				for i, c := range b.cs {
					if c == "timing_out" && fmt.Sprintf("h%d", i+2) != local {
						hasUnreach = true
					}
				}
				in := s.insts[local]
				curCs := append([]string{}, b.cs...)
				for tick := 0; tick < 3; tick++ {
					if b.variant == "flip" && tick == 1 {
						for i, c := range curCs {
							h := fmt.Sprintf("h%d", i+2)
							if c == "timing_out" && h != local {
								s.W.SetNet(h, "ok")
								s.W.Crash(h)
								curCs[i] = "refusing"
							}
						}
						hasUnreach = false
					}
					if in.app.state != stateLost {
						in.app.state = stateLost
					}
					obsLocal, obsRemote = nil, nil
					observing = true
					t0 := s.now()
					if hasUnreach && firstUnreach < 0 {
						firstUnreach = -2 // set after the tick: the clock starts inside this activation
					}
					s.W.Lock()
					localUp := s.W.Hosts[local].Up
					wack := len(s.W.Hosts[local].Pend) > 0
					s.W.Unlock()
					st := s.tick(local)
					observing = false
					s.W.Lock()
					roAfter := s.W.Hosts[local].RO
					s.W.Unlock()
					since := int64(0)
					if firstUnreach >= 0 {
						since = t0 - firstUnreach
					}
					if firstUnreach == -2 {
						firstUnreach = t0 + 1000 // probes time out after db_lost_check_timeout (1 s) before the clock is set
					}
					row := lostRow{Kind: "lost", Scn: id, Tick: tick, Role: b.role, N: b.n, Disabled: b.disabled, Conds: effConds(curCs, local), SemiSync: b.semisync,
						Wsc: b.wsc, SinceMs: since, DelayMs: 5000, LocalUp: localUp, LocalMut: []string{}, RemoteMut: nn(obsRemote),
						ROAccepts: b.variant == "ok" || b.variant == "pending" || b.variant == "flip", WaitingAck: wack, ROAfter: roAfter, Next: string(st), Variant: b.variant}
					// the outcome of the (forced) read-only attempt = the result of its last statement
					// before anything else (offline mode) is tried
					lastRO, sawOffline := "", false
					for _, c := range obsLocal {
						p := strings.SplitN(c, "=", 2)
						row.LocalMut = append(row.LocalMut, p[0])
						if p[0] == "SetOffline" {
							sawOffline = true
						}
						if p[0] == "SetSuperReadOnly" {
							row.ROIssued = true
							if !sawOffline {
								lastRO = p[1]
							}
						}
					}
					row.ROStuck = lastRO == "err:1205" || lastRO == "hang"
					row.WaitingAck = wack && strings.HasPrefix(b.variant, "stuck")
					rows = append(rows, row)
					// next tick: 2 s later (inside the delay), then 6 s later (beyond it)
					if tick == 0 {
						time.Sleep(2 * time.Second)
					} else {
						time.Sleep(6 * time.Second)
					}
				}
				return true
			}})
		runs++
		if res.skipped {
			continue
		}
		if os.Getenv("VERIF_ONLY") != "" {
			vDebugDump(res)
			for h, l := range res.logs {
				fmt.Fprintln(os.Stderr, "=== log of", h)
				fmt.Fprintln(os.Stderr, l)
			}
		}
		for _, r := range rows {
			out.emit(r)
		}
		meta.emit(map[string]any{"scn": id, "scenario": sc})
	}
	meta.emit(map[string]any{"summary": true, "runs": runs, "bases": runs, "stragglers": vStragglers})
}

// the replica list as the local node sees it: a replica-role local node is not its own replica
func effConds(cs []string, local string) []string {
	out := []string{}
	for i, c := range cs {
		if fmt.Sprintf("h%d", i+2) == local {
			continue
		}
		out = append(out, c)
	}
	return out
}

type c08Hook struct {
	local string
	mode  string
}

func (h *c08Hook) BeforeSQL(c *verifsim.SQLCall) verifsim.Decision {
	if c.At == h.local && c.Stmt == "SetSuperReadOnly" {
		if h.mode == "error" {
			return verifsim.Decision{Err: &verifsim.MyErr{Code: 1290, State: "HY000", Msg: "injected: cannot set read only"}}
		}
		return verifsim.Decision{Hang: true}
	}
	return verifsim.Decision{}
}
func (h *c08Hook) AfterSQL(c *verifsim.SQLCall, res string) {}
