//go:build verif

package app

// C02 driver: converged semi-sync cluster with a client workload, ONE fault (or one
// manual switchover request) at a chosen instant of the tick/health cycle, healing
// after a chosen duration, then convergence rounds; the end state and the
// acknowledgement log are projected to a "final" row judged by TLC (FinalRows.tla).

import (
	"fmt"
	"math/rand"
	"os"
	"sync"
	"testing"
	"time"

	"github.com/yandex/mysync/internal/verifsim"
)

type c02Plan struct {
	Fault  string `json:"fault"`  // crash_mysql | crash_host | island | kill_mysync | zk_cut | zk_cut_all | switch_to | switch_from
	Target string `json:"target"` // host
	Round  int    `json:"round"`  // injection round (after warm-up)
	Mid    int    `json:"mid"`    // 0: at the round boundary; k>0: before the k-th SQL statement of that round
	Dur    int    `json:"dur"`    // rounds until healing
}

// c02Hook counts SQL statements while armed and runs the injection before the k-th one.
type c02Hook struct {
	mu    sync.Mutex
	armed bool
	n, k  int
	fire  func()
}

func (h *c02Hook) BeforeSQL(c *verifsim.SQLCall) verifsim.Decision {
	if c.By == "" || c.By == "world" {
		return verifsim.Decision{}
	}
	h.mu.Lock()
	hit := false
	if h.armed {
		h.n++
		if h.n == h.k {
			hit = true
			h.armed = false
		}
	}
	h.mu.Unlock()
	if hit {
		h.fire()
	}
	return verifsim.Decision{}
}
func (h *c02Hook) AfterSQL(c *verifsim.SQLCall, res string) {}

func c02Run(t *testing.T, sc *vScenario, p c02Plan, w *vRowWriter) *vRunResult {
	const warm = 3
	const settle = 32
	sc.Rounds = warm + p.Round + p.Dur + settle
	var sim *vSim
	hk := &c02Hook{k: p.Mid}
	rrng := rand.New(rand.NewSource(int64(len(sc.ID))*7919 + int64(p.Mid)*31 + int64(p.Dur)))
	injected, healed := false, false
	inject := func() {
		s := sim
		injected = true
		s.appEv("env", "C02Inject", p.Fault, p.Target)
		switch p.Fault {
		case "crash_mysql":
			s.W.Crash(p.Target)
		case "crash_host":
			s.W.Crash(p.Target)
			s.kill(p.Target)
		case "island":
			s.W.SetNet(p.Target, "island")
			s.Z.Blackhole(p.Target)
		case "kill_mysync":
			s.kill(p.Target)
		case "zk_cut":
			s.Z.Cut(p.Target)
		case "zk_cut_all":
			for _, h := range s.hosts {
				s.Z.Cut(h)
			}
		case "switch_to":
			s.fileRequest(&vScenario{Req: reqSpec{Kind: "to", To: p.Target}, Master: sc.Master, Hosts: sc.Hosts})
		case "switch_from":
			s.fileRequest(&vScenario{Req: reqSpec{Kind: "from", From: sc.Master}, Master: sc.Master, Hosts: sc.Hosts})
		}
	}
	heal := func() {
		s := sim
		healed = true
		s.appEv("env", "C02Heal", p.Fault, p.Target)
		switch p.Fault {
		case "crash_mysql":
			s.W.Restart(p.Target, true)
		case "crash_host":
			s.W.Restart(p.Target, true)
			s.startInstance(p.Target)
		case "island":
			s.W.SetNet(p.Target, "ok")
			s.Z.Heal(p.Target)
		case "kill_mysync":
			s.startInstance(p.Target)
		case "zk_cut":
			s.Z.Heal(p.Target)
		case "zk_cut_all":
			for _, h := range s.hosts {
				if in := s.insts[h]; in != nil && !in.dead {
					s.Z.Heal(h)
				}
			}
		}
	}
	hk.fire = inject
	return vRun(t, sc, vRunOpts{
		extraHook: func(s *vSim) verifsim.MyHook { sim = s; return hk },
		perRound: func(s *vSim, r int) bool {
			sim = s
			if sc.Policy == "ragged" && !healed {
				// replication lags unevenly until the fault is healed
				for k := 0; k < 3; k++ {
					for _, h := range s.hosts {
						s.W.ClientCommit(h)
					}
					s.W.Ragged(func(host, what string) int { return rrng.Intn(3) })
				}
			} else {
				s.worldEager()
			}
			if r == warm+p.Round && !injected {
				if p.Mid == 0 {
					inject()
				} else {
					hk.mu.Lock()
					hk.armed = true
					hk.mu.Unlock()
				}
			}
			if r == warm+p.Round+1 && !injected {
				// the round had fewer statements than asked for: the fault happens at its end
				hk.mu.Lock()
				hk.armed = false
				hk.mu.Unlock()
				inject()
			}
			if r == warm+p.Round+p.Dur && injected && !healed {
				heal()
			}
			return false
		},
		finish: func(s *vSim, r *vRunResult) {
			s.worldEager()
			time.Sleep(time.Second)
			row := s.finalRow(sc, r)
			row.HadRequest = p.Fault == "switch_to" || p.Fault == "switch_from"
			w.emit(row)
		},
	})
}

func TestVerifC02(t *testing.T) {
	w := vNewRows(t, "rows.ndjson")
	defer w.close()
	meta := vNewRows(t, "meta.ndjson")
	defer meta.close()
	seed := int64(vEnvInt("VERIF_SEED", 1))
	rng := rand.New(rand.NewSource(seed))
	budget := vEnvInt("VERIF_RUNS", 60)
	full := os.Getenv("VERIF_FULL") != ""
	si, sn := vShard()
	type cse struct {
		sc   vScenario
		plan c02Plan
	}
	var cases []cse
	for _, n := range []int{3, 2, 4} {
		hosts := []string{"h1", "h2", "h3", "h4"}[:n]
		for _, cascade := range []bool{false, true} {
			for _, wsc := range []int{1, 2} {
				if wsc >= n {
					continue
				}
				for _, failover := range []bool{true, false} {
					for _, masterFirst := range []bool{false, true} {
						for _, mgr := range []string{"h1", "h2"} {
							var targets []string
							targets = append(targets, hosts...)
							for _, fault := range []string{"crash_mysql", "crash_host", "island", "kill_mysync", "zk_cut", "zk_cut_all", "switch_to", "switch_from"} {
								tg := targets
								if fault == "zk_cut_all" || fault == "switch_from" {
									tg = []string{"h1"}
								}
								if fault == "switch_to" {
									tg = []string{"h2"}
								}
								for _, target := range tg {
									for _, mid := range []int{0, 1, 4, 9, 16, 25, 40} {
									  for _, policy := range []string{"eager", "ragged"} {
										for _, dur := range []int{1, 4, 12} {
											if (fault == "switch_to" || fault == "switch_from") && dur != 1 {
												continue
											}
											all := append([]string{}, hosts...)
											var casc map[string]string
											if cascade {
												all = append(all, "c1")
												casc = map[string]string{"c1": "h2"}
											}
											id := fmt.Sprintf("c02-n%d-c%v-w%d-f%v-mf%v-m%s-%s@%s-k%d-d%d-%s", n, cascade, wsc, failover, masterFirst, mgr, fault, target, mid, dur, policy)
											sc := vScenario{ID: id, Hosts: all, Cascade: casc, Master: "h1", Manager: mgr, W: wsc, Base: 3,
												Req: reqSpec{Kind: "none"}, Policy: policy,
												Cfg: map[string]any{"failover": failover, "master_first": masterFirst, "failover_cooldown": 0}}
											cases = append(cases, cse{sc, c02Plan{Fault: fault, Target: target, Round: 0, Mid: mid, Dur: dur}})
										}
									  }
									}
								}
							}
						}
					}
				}
			}
		}
	}
	rng.Shuffle(len(cases), func(a, b int) { cases[a], cases[b] = cases[b], cases[a] })
	runs := 0
	for ci := range cases {
		if ci%sn != si {
			continue
		}
		if !full && runs >= budget {
			break
		}
		c := &cases[ci]
		if res := c02Run(t, &c.sc, c.plan, w); res != nil && !res.skipped {
			for _, m := range res.modes {
				w.emit(m)
			}
		}
		runs++
		meta.emit(map[string]any{"scn": c.sc.ID, "scenario": c.sc, "plan": c.plan})
	}
	meta.emit(map[string]any{"summary": true, "runs": runs, "bases": runs, "cases_total": len(cases), "stragglers": vStragglers})
}
