//go:build verif

package app

// C10 driver: from any per-node state of a 3-4 node cluster repeated manager iterations
// must reach the canonical topology without touching the recorded master.

import (
	"github.com/yandex/mysync/internal/dcs"
	"fmt"
	"math/rand"
	"os"
	"strings"
	"testing"

	"github.com/yandex/mysync/internal/verifsim"
)

type resetObs struct {
	Host          string `json:"host"`
	StartAttempts int    `json:"startattempts"`
	ResetsBefore  int    `json:"resetsbefore"`
	SinceLastMs   int64  `json:"sincelastms"`
}

type repairRow struct {
	Kind            string             `json:"kind"`
	Scn             string             `json:"scn"`
	HA              []string           `json:"ha"`
	Master          string             `json:"master"`
	Final           map[string]hostRow `json:"final"`
	Active          []string           `json:"active"`
	W               int                `json:"w"`
	SemiSync        bool               `json:"semisync"`
	Stale           []string           `json:"stale"`
	FaultStmt       string             `json:"faultstmt"` // the statement the injected failure hit ("" none)
	FaultAt         string             `json:"faultat"`
	SawOffline      map[string]bool    `json:"sawoffline"`
	SawMarked       map[string]bool    `json:"sawmarked"`
	Unrepairable    map[string]bool    `json:"unrepairable"`
	MasterKeyWrites int                `json:"masterkeywrites"`
	FinalMasterKey  string             `json:"finalmasterkey"`
	DecoyStmts      int                `json:"decoystmts"`
	SelfChanges     int                `json:"selfchanges"`
	Resets          []resetObs         `json:"resets"`
	Aggressive      bool               `json:"aggressive"`
	MaxAttempts     int                `json:"maxattempts"`
	CooldownMs      int64              `json:"cooldownms"`
	Classes         []string           `json:"classes"`
	Faulted         bool               `json:"faulted"`
}

func TestVerifC10(t *testing.T) {
	out := vNewRows(t, "rows.ndjson")
	defer out.close()
	meta := vNewRows(t, "meta.ndjson")
	defer meta.close()
	si, sn := vShard()
	rng := rand.New(rand.NewSource(int64(vEnvInt("VERIF_SEED", 1))))
	budget := vEnvInt("VERIF_RUNS", 60)
	full := os.Getenv("VERIF_FULL") != ""
	// per-node initial classes (non-master nodes)
	ros := []string{"sro", "rw"}
	offs := []bool{false, true}
	srcs := []string{"master", "other", "none", "decoy"}
	reps := []string{"running", "stopped", "ioerr_transient", "ioerr_permanent", "sqlerr_permanent", "io_sticky", "io_flaky"}
	sss := []bool{true, false}
	type nodeInit struct {
		ro   string
		off  bool
		src  string
		repl string
		ss   bool
	}
	var nodeOpts []nodeInit
	for _, ro := range ros {
		for _, off := range offs {
			for _, src := range srcs {
				for _, rp := range reps {
					if src == "none" && rp != "running" {
						continue
					}
					for _, ss := range sss {
						nodeOpts = append(nodeOpts, nodeInit{ro, off, src, rp, ss})
					}
				}
			}
		}
	}
	type base struct {
		n        int
		nodes    []nodeInit
		mro      string
		moff     bool
		semisync bool
		aggr     bool
		fault    bool
		pin      *faultSpec // a specific call of the stale-master repair fails once
		unreg    string     // this host is decommissioned at round 3: removed from the registry and made a stand-alone writable server
		mgr      string     // host of the managing process ("" = h1)
	}
	var bases []base
	for _, n := range []int{3, 4} {
		cnt := 3000
		if full {
			cnt = 40000
		}
		for k := 0; k < cnt; k++ {
			var nodes []nodeInit
			for j := 0; j < n-1; j++ {
				nodes = append(nodes, nodeOpts[rng.Intn(len(nodeOpts))])
			}
			bases = append(bases, base{n, nodes, []string{"rw", "sro"}[rng.Intn(2)], rng.Intn(4) == 0, rng.Intn(4) != 0, rng.Intn(2) == 0, rng.Intn(3) == 0, nil, "", ""})
		}
	}
	// single-dimension sweeps (each class alone on one node, others canonical)
	for _, o := range nodeOpts {
		for _, ag := range []bool{false, true} {
			bases = append(bases, base{3, []nodeInit{o, {"sro", false, "master", "running", true}}, "rw", false, true, ag, false, nil, "", ""})
		}
	}
	rng.Shuffle(len(bases), func(a, b int) { bases[a], bases[b] = bases[b], bases[a] })
	// pinned first: a second (stale) master whose repair fails once at each of its steps - fencing, taking offline
	// and marking must still happen, whichever step reports the error
	var pinned []base
	for _, st := range []string{"SetSuperReadOnly", "SetOffline", "SemiSyncDisable", "StopReplica", "ChangeSource", "StartReplica"} {
		for _, ro := range []string{"rw", "sro"} {
			pinned = append(pinned, base{3, []nodeInit{{ro, false, "none", "running", true}, {"sro", false, "master", "running", true}}, "rw", false, true, false, false,
				&faultSpec{Chan: "sql", Stmt: st, At: "h2", Occ: 0, Times: 1, Kind: "fail"}, "", ""})
		}
	}
	// a registered host is decommissioned while the manager runs: another host, or the very host the manager runs on
	canon := nodeInit{"sro", false, "master", "running", true}
	for _, ss := range []bool{true, false} {
		pinned = append(pinned,
			base{3, []nodeInit{canon, canon}, "rw", false, ss, false, false, nil, "h3", ""},
			base{3, []nodeInit{canon, canon}, "rw", false, ss, false, false, nil, "h2", "h2"},
			base{4, []nodeInit{canon, canon, canon}, "rw", false, ss, true, false, nil, "h3", "h3"})
	}
	rng.Shuffle(len(pinned), func(a, b int) { pinned[a], pinned[b] = pinned[b], pinned[a] })
	bases = append(pinned, bases...)
	runs := 0
	for bi, b := range bases {
		if bi%sn != si {
			continue
		}
		if runs >= budget && !full {
			break
		}
		hosts := []string{"h1", "h2", "h3", "h4"}[:b.n]
		var cls []string
		for _, nd := range b.nodes {
			cls = append(cls, fmt.Sprintf("%s/%v/%s/%s/%v", nd.ro, nd.off, nd.src, nd.repl, nd.ss))
		}
		id := fmt.Sprintf("c10-n%d-%s-m%s%v-ss%v-ag%v-f%v", b.n, strings.Join(cls, "_"), b.mro, b.moff, b.semisync, b.aggr, b.fault)
		sc := vScenario{ID: id, Hosts: hosts, Master: "h1", Manager: "h1", W: 1, Base: 3, Req: reqSpec{Kind: "none"}, Policy: "flow", Rounds: 20,
			Cfg: map[string]any{"failover": false, "semi_sync": b.semisync, "aggressive_repair": b.aggr, "repair_max_attempts": 2, "repair_cooldown": 2,
				"inactivation_delay": 2}}
		if b.pin != nil {
			sc.Fault = b.pin
			sc.ID = fmt.Sprintf("%s-fail-%s@%s", id, b.pin.Stmt, b.pin.At)
			id = sc.ID
		}
		if b.unreg != "" {
			sc.ID = fmt.Sprintf("%s-unreg-%s-mgr%s", id, b.unreg, b.mgr)
			id = sc.ID
			if b.mgr != "" {
				sc.Manager = b.mgr
			}
		}
		unregAt := int64(-1)
		actStart := map[string]int64{}
		actMode := map[string]string{}
		row := repairRow{Kind: "repair", Scn: id, HA: hosts, Master: "h1", W: 1, SemiSync: b.semisync, Stale: []string{}, SawOffline: map[string]bool{}, SawMarked: map[string]bool{},
			Unrepairable: map[string]bool{}, Resets: []resetObs{}, Aggressive: b.aggr, MaxAttempts: 2, CooldownMs: 2000, Classes: cls}
		for _, h := range hosts {
			row.SawOffline[h], row.SawMarked[h], row.Unrepairable[h] = false, false, false
		}
		if b.pin != nil {
			row.Faulted, row.FaultStmt, row.FaultAt = true, b.pin.Stmt, b.pin.At
		}
		startAtt := map[string]int{}
		resetCnt := map[string]int{}
		lastAtt := map[string]int64{}
		inSwitch := false
		var faultAt int
		if b.fault {
			faultAt = 5 + rng.Intn(60)
		}
		mutN := 0
		res := vRun(t, &sc, vRunOpts{
			setup: func(s *vSim) {
				s.W.AddHost("d1") // a decoy server that is NOT registered
				s.W.Lock()
				d := s.W.Hosts["d1"]
				d.RO = "rw"
				m := s.W.Hosts["h1"]
				d.Exec = m.Exec.Clone()
				m.RO = b.mro
				m.Offline = b.moff
				for j, nd := range b.nodes {
					h := hosts[j+1]
					x := s.W.Hosts[h]
					x.RO = nd.ro
					x.Offline = nd.off
					x.SsS, x.SsSAct = nd.ss, nd.ss
					switch nd.src {
					case "master":
						x.Src = "h1"
					case "other":
						x.Src = hosts[(j+1)%(b.n-1)+1]
						if x.Src == h {
							x.Src = "h1"
						}
					case "none":
						x.Src = ""
						x.IO = "No"
						x.SQL = false
						row.Stale = append(row.Stale, h)
					case "decoy":
						x.Src = "d1"
					}
					switch nd.repl {
					case "stopped":
						x.IO, x.SQL = "No", false
					case "ioerr_transient":
						x.IO, x.IOErrno = "No", 2003
					case "io_sticky":
						// the IO thread keeps failing to start for a while (transient error class)
						x.IO, x.IOErrno = "No", 1045
						x.IOFailCount = 9
						row.Unrepairable[h] = true // more failures than the repair budget allows
					case "io_flaky":
						// fails once more, then starts: within the budget
						x.IO, x.IOErrno = "No", 1045
						x.IOFailCount = 1
					case "ioerr_permanent":
						x.IO, x.IOErrno = "No", 13114
						row.Unrepairable[h] = true
					case "sqlerr_permanent":
						x.SQL, x.SQLErrno = false, 1146
						row.Unrepairable[h] = true
					}
				}
				s.W.Unlock()
				prev := s.onEv
				s.onEv = func(ev *verifsim.TraceEvent, wl bool) {
					if prev != nil {
						prev(ev, wl)
					}
					switch {
					case ev.K == "app" && ev.Op == "Enter":
						actStart[ev.By], actMode[ev.By] = ev.T, ev.Arg
					case ev.K == "sql" && ev.At == "d1" && ev.By != "" && ev.By != "world":
						row.DecoyStmts++
					case ev.K == "sql" && ev.Mut && b.unreg != "" && ev.At == b.unreg && unregAt >= 0 && ev.By != "" && ev.By != "world" &&
						actMode[ev.By] == "Manager" && actStart[ev.By] > unregAt:
						// a manager activation that began after the host had left the registry still sends it statements
						row.DecoyStmts++
					case ev.K == "sql" && ev.Op == "ChangeSource" && ev.Arg == ev.At:
						row.SelfChanges++
					case ev.K == "sql" && ev.Op == "SetOffline" && ev.Res == "ok":
						row.SawOffline[ev.At] = true
					case ev.K == "zk" && strings.HasPrefix(ev.At, pathRecovery+"/") && ev.Op == "Create" && ev.Res == "ok":
						hh := strings.TrimPrefix(ev.At, pathRecovery+"/")
						row.SawMarked[hh] = true
						// "taken offline": offline when the mark is set (the tree lock is held: no blocking on the world)
						if s.W.TryLock() {
							if x := s.W.Hosts[hh]; x != nil && x.Offline {
								row.SawOffline[hh] = true
							}
							s.W.Unlock()
						}
					case ev.K == "zk" && ev.At == pathMasterNode && ev.Mut && ev.By != "tool":
						row.MasterKeyWrites++
					case ev.K == "zk" && ev.At == pathCurrentSwitch && ev.Mut:
						inSwitch = true
					case ev.K == "sql" && (ev.Op == "StartReplica") && ev.By != "":
						// an attempt counts whether or not the statement succeeded
						startAtt[ev.At]++
						lastAtt[ev.At] = s.now()
					case ev.K == "sql" && ev.Op == "ResetReplicaAll" && ev.By != "" && !inSwitch:
						since := int64(1 << 40)
						if t0, ok := lastAtt[ev.At]; ok {
							since = s.now() - t0
						}
						row.Resets = append(row.Resets, resetObs{Host: ev.At, StartAttempts: startAtt[ev.At], ResetsBefore: resetCnt[ev.At], SinceLastMs: since})
						resetCnt[ev.At]++
						lastAtt[ev.At] = s.now()
					}
				}
			},
			extraHook: func(s *vSim) verifsim.MyHook {
				if b.fault {
					return &c10Hook{n: &mutN, at: faultAt, row: &row}
				}
				return nil
			},
			perRound: func(s *vSim, round int) bool {
				if b.unreg != "" && round == 3 {
					s.Z.Remove(vNS + "/" + dcs.PathHANodesPrefix + "/" + b.unreg)
					s.W.Lock()
					x := s.W.Hosts[b.unreg]
					x.Src, x.IO, x.SQL, x.RO = "", "No", false, "rw"
					s.W.Unlock()
					unregAt = s.now()
				}
				return false
			},
			finish: func(s *vSim, r *vRunResult) {
				row.Final = s.hostsSnapshot(true)
				delete(row.Final, "d1")
				if b.unreg != "" {
					// the decommissioned host is no longer a node of the cluster: the end-state clauses do not speak about it
					delete(row.Final, b.unreg)
					var ha []string
					for _, h := range row.HA {
						if h != b.unreg {
							ha = append(ha, h)
						}
					}
					row.HA = ha
				}
				row.Active = nn(s.zkActive())
				row.FinalMasterKey = s.zkMaster()
			}})
		runs++
		if res.skipped {
			continue
		}
		out.emit(row)
		meta.emit(map[string]any{"scn": id, "scenario": sc})
	}
	meta.emit(map[string]any{"summary": true, "runs": runs, "bases": runs, "stragglers": vStragglers})
}

// one statement fails at an arbitrary point of the run
type c10Hook struct {
	n   *int
	at  int
	row *repairRow
}

func (h *c10Hook) BeforeSQL(c *verifsim.SQLCall) verifsim.Decision {
	if c.By == "" || !c.Mut {
		return verifsim.Decision{}
	}
	*h.n++
	if *h.n == h.at {
		h.row.Faulted = true
		h.row.FaultStmt, h.row.FaultAt = c.Stmt, c.At
		switch c.Stmt {
		case "StartReplica", "StartIO", "StopReplica", "StopIO", "ChangeSource", "ResetReplicaAll", "ResetReplica":
			// the failed attempt is charged to the host's repair budget (limit 2): with a replication problem of its
			// own it may legitimately end "broken beyond the allowed repair attempts"
			if _, ok := h.row.Unrepairable[c.At]; ok {
				h.row.Unrepairable[c.At] = true
			}
		}
		return verifsim.Decision{Err: &verifsim.MyErr{Code: 1105, State: "HY000", Msg: "injected failure"}}
	}
	return verifsim.Decision{}
}
func (h *c10Hook) AfterSQL(c *verifsim.SQLCall, res string) {}
