//go:build verif

package app

// C14 at the call site of the promotion: candidates with DIFFERENT priorities, all caught up (lags within the bound), and
// the coordination service failing to answer the read of one candidate's priority record.  The choice must either be the
// highest-priority candidate or not be made at all in that attempt (the attempt fails and is retried) - a candidate must
// never be ranked with a made-up priority.

import (
	"fmt"
	"testing"
)

func TestVerifC14Prio(t *testing.T) {
	w := vNewRows(t, "rows.ndjson")
	defer w.close()
	meta := vNewRows(t, "meta.ndjson")
	defer meta.close()
	si, sn := vShard()
	k, runs := 0, 0
	for _, rq := range []reqSpec{{Kind: "from", From: "h1"}, {Kind: "forced", From: "h1"}} {
		for _, failing := range []string{"", "h2", "h3"} {
			for _, pr := range [][2]int{{10, 5}, {5, 10}} {
				k++
				if (k-1)%sn != si {
					continue
				}
				id := fmt.Sprintf("c14-prio-%s-h2p%d-h3p%d-fail%s", rq.Kind, pr[0], pr[1], failing)
				sc := vScenario{ID: id, Hosts: []string{"h1", "h2", "h3"}, Master: "h1", Manager: "h1", W: 1, Base: 3, Req: rq, Policy: "eager", Rounds: 8,
					Cfg: map[string]any{"catchup_timeout": 4, "max_attempts": 2}}
				if failing != "" {
					sc.Fault = &faultSpec{Chan: "zk", Stmt: "GetData", At: "ha_nodes/" + failing, Occ: 0, Kind: "zkfail"}
				}
				res := vRun(t, &sc, vRunOpts{setup: func(s *vSim) {
					s.Z.Put(vNS+"/ha_nodes/h2", fmt.Sprintf(`{"priority":%d}`, pr[0]))
					s.Z.Put(vNS+"/ha_nodes/h3", fmt.Sprintf(`{"priority":%d}`, pr[1]))
				}})
				runs++
				if res.skipped {
					continue
				}
				best := "h2"
				if pr[1] > pr[0] {
					best = "h3"
				}
				promoted := []string{}
				for _, p := range res.promos {
					promoted = append(promoted, p.P)
				}
				w.emit(map[string]any{"kind": "prio", "scn": id, "promoted": promoted, "best": best, "failing": failing, "request": rq.Kind})
				meta.emit(map[string]any{"scn": id, "scenario": sc})
			}
		}
	}
	meta.emit(map[string]any{"summary": true, "runs": runs, "bases": runs, "stragglers": vStragglers})
}
