//go:build verif

package app

// C07 driver: the managing process dies (or loses ZooKeeper) immediately after
// each external call of a switchover; a successor (same host restarted / another
// host) must finish or reject the request and the cluster must converge.

import (
	"sort"
	"fmt"
	"math/rand"
	"os"
	"strings"
	"testing"
	"time"
)

func c07Shapes() []map[string]hostShape {
	A, B := "h1:101", "h1:102"
	return []map[string]hostShape{
		{"h1": {Exec: []string{A, B}}, "h2": {Exec: []string{A, B}}, "h3": {Exec: []string{A, B}}},
		{"h1": {Exec: []string{A, B}}, "h2": {Exec: []string{A}, Recv: []string{B}}, "h3": {Exec: []string{A, B}}},
		{"h1": {Exec: []string{A, B}}, "h2": {Exec: []string{A, B}}, "h3": {Exec: []string{A}}},
		{"h1": {Exec: []string{A, B}, Down: true}, "h2": {Exec: []string{A, B}}, "h3": {Exec: []string{A}, Recv: []string{B}}},
		{"h1": {Exec: []string{A}, Pend: []string{B}, Down: true}, "h2": {Exec: []string{A}, Recv: []string{B}}, "h3": {Exec: []string{A}}},
	}
}

func TestVerifC07(t *testing.T) {
	w := vNewRows(t, "rows.ndjson")
	defer w.close()
	meta := vNewRows(t, "meta.ndjson")
	defer meta.close()
	seed := int64(vEnvInt("VERIF_SEED", 1))
	rng := rand.New(rand.NewSource(seed))
	budget := vEnvInt("VERIF_RUNS", 400)
	full := os.Getenv("VERIF_FULL") != ""
	si, sn := vShard()
	type base struct {
		hosts  []string
		shape  int
		req    reqSpec
		policy string
		succ   string // same | other
		kind   string // crashmgr | zkloss | zkexpire
	}
	var bases []base
	shapes := c07Shapes()
	for _, hs := range [][]string{{"h1", "h2", "h3"}, {"h1", "h2"}, {"h1", "h2", "h3", "h4"}} {
		for shi := range shapes {
			for _, rq := range c01Requests("h1", []string{"h1", "h2", hs[len(hs)-1]}) {
				dead := shapes[shi]["h1"].Down
				if rq.Kind == "auto" && !dead {
					continue // nothing would be filed
				}
				if (rq.Kind == "to" || rq.Kind == "worker" || rq.Kind == "from") && dead {
					continue // planned switchover from a dead master is rejected at once
				}
				live := 0
				for _, h := range hs {
					if h != "h2" && !(h == "h1" && dead) {
						live++
					}
				}
				for _, pol := range []string{"eager", "lazy"} {
					for _, succ := range []string{"same", "other"} {
						if succ == "other" && live == 0 {
							continue // nobody else could become the next manager
						}
						for _, k := range []string{"crashmgr", "zkloss", "zkexpire", "zkblip"} {
							if k == "zkblip" && succ != "same" {
								continue // a brief loss of the coordination service: the same manager carries on
							}
							if k == "zkexpire" && os.Getenv("VERIF_LOCKROWS") == "" {
								// server-side expiry with an instant handover is the compressed form of "cut off for longer
								// than the session timeout"; it is used for the lock clauses (C03) only, where timing is
								// irrelevant - the final-state clauses keep to sessions that expire by timeout (E7)
								continue
							}
							bases = append(bases, base{hs, shi, rq, pol, succ, k})
						}
					}
				}
			}
		}
	}
	rng.Shuffle(len(bases), func(a, b int) { bases[a], bases[b] = bases[b], bases[a] })
	// the sample starts with the resumed AUTOMATIC failovers on three and four nodes (one per shard at least): they are the
	// histories in which the recorded master has already moved when the request is picked up again
	sort.SliceStable(bases, func(a, b int) bool {
		// ... and with the failovers that the SAME manager resumes after losing the coordination service for one call
		pa := bases[a].req.Kind == "auto" && (len(bases[a].hosts) >= 3 || bases[a].kind == "zkblip")
		pb := bases[b].req.Kind == "auto" && (len(bases[b].hosts) >= 3 || bases[b].kind == "zkblip")
		return pa && !pb
	})
	runs, nbase := 0, 0
	for bi, b := range bases {
		if bi%sn != si {
			continue
		}
		if !full && runs >= budget {
			break
		}
		id := fmt.Sprintf("c07-n%d-s%d-%s%s%s-%s-%s-%s", len(b.hosts), b.shape, b.req.Kind, b.req.To, b.req.From, b.policy, b.succ, b.kind)
		sc := vScenario{ID: id, Hosts: b.hosts, Master: "h1", Manager: "h2", W: 1, Base: 3, Req: b.req, Policy: b.policy, Rounds: 5,
			Shape: map[string]hostShape{}, Cfg: map[string]any{"catchup_timeout": 4}}
		for h, sh := range shapes[b.shape] {
			for _, x := range b.hosts {
				if x == h {
					sc.Shape[h] = sh
				}
			}
		}
		dry := vRun(t, &sc, vRunOpts{})
		runs++
		nbase++
		// cut points: calls of the switchover activation (between StartSwitchover and the outcome)
		var points []string
		in := false
		for _, pt := range dry.census {
			if strings.HasPrefix(pt, "zk|SetData|switch|") || strings.HasPrefix(pt, "zk|Create|switch|") {
				in = true
			}
			if in {
				points = append(points, pt)
			}
			if strings.HasPrefix(pt, "zk|Create|last_switch") || strings.HasPrefix(pt, "zk|SetData|last_switch") ||
				strings.HasPrefix(pt, "zk|Create|last_rejected") || strings.HasPrefix(pt, "zk|SetData|last_rejected") {
				break
			}
		}
		meta.emit(map[string]any{"scn": id, "cutpoints": len(points), "scenario": sc})
		if !full {
			// the sample always contains the cut right after the new master was published (the request is still
			// pending then, the recorded master has already changed)
			var pivotal []string
			for _, pt := range points {
				if strings.HasPrefix(pt, "zk|SetData|master|") || strings.HasPrefix(pt, "zk|Create|master|") {
					pivotal = append(pivotal, pt)
				}
			}
			rng.Shuffle(len(points), func(a, c int) { points[a], points[c] = points[c], points[a] })
			lim := vEnvInt("VERIF_CUTS_PER_BASE", 6)
			if len(points) > lim {
				points = points[:lim]
			}
			for _, pv := range pivotal {
				dup := false
				for _, pt := range points {
					dup = dup || pt == pv
				}
				if !dup {
					points = append(points, pv)
				}
			}
		}
		for _, pt := range points {
			p := strings.Split(pt, "|")
			var occ int
			fmt.Sscanf(p[3], "%d", &occ)
			kind := b.kind
			if kind == "zkexpire" && b.succ == "other" {
				// the session is expired by the server and another candidate asks for the lock first
				kind = "zkexpire_other"
			}
			if p[0] == "zk" {
				if kind == "crashmgr" {
					kind = "crashmgr_after"
				} else if kind == "zkloss" {
					kind = "zkloss_after"
				}
			}
			if kind == "zkblip" && p[0] != "zk" {
				continue
			}
			sc2 := sc
			sc2.Fault = &faultSpec{Chan: p[0], Stmt: p[1], At: p[2], Occ: occ, Kind: kind}
			sc2.ID = fmt.Sprintf("%s-%s@%s#%d", id, p[1], p[2], occ)
			sc2.Rounds = 30
			restarted := false
			zkHealAt := -1
			res := vRun(t, &sc2, vRunOpts{
				perRound: func(s *vSim, round int) bool {
					mgr := s.insts[sc2.Manager]
					if b.kind == "crashmgr" && mgr != nil && mgr.dead && !restarted {
						restarted = true
						if b.succ == "same" {
							// the same host's mysync is restarted at once: it competes for the lock
							// as soon as the dead session has expired
							time.Sleep(3500 * time.Millisecond)
							s.startInstance(sc2.Manager)
							s.tick(sc2.Manager)
						}
					}
					if b.kind == "zkloss" && s.hookFired() && zkHealAt < 0 {
						zkHealAt = round + 8 // healing: the coordination service comes back later
					}
					if zkHealAt >= 0 && round == zkHealAt {
						s.Z.Heal(sc2.Manager)
					}
					return false
				},
				finish: func(s *vSim, r *vRunResult) {
					w.emit(s.finalRow(&sc2, r))
				},
			})
			runs++
			for _, pr := range res.promos {
				w.emit(pr)
			}
			for _, a := range res.atts {
				w.emit(a)
			}
			for _, a := range res.skels {
				w.emit(a)
			}
			if os.Getenv("VERIF_LOCKROWS") != "" {
				for _, a := range res.acts {
					w.emit(a)
				}
				for _, a := range res.tolds {
					w.emit(a)
				}
				for _, a := range res.modes {
					w.emit(a)
				}
			}
			meta.emit(map[string]any{"scn": sc2.ID, "scenario": sc2})
		}
	}
	meta.emit(map[string]any{"summary": true, "runs": runs, "bases": nbase, "stragglers": vStragglers})
}
