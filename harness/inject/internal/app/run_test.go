//go:build verif

package app

// Scenario runner + observers that project the recorded trace onto the rows
// judged by TLC (spec/ClusterRows*.tla).

import (
	"runtime/pprof"
	"encoding/json"
	"fmt"
	"os"
	"path/filepath"
	"sort"
	"strings"
	"sync"
	"testing"
	"testing/synctest"
	"time"

	"github.com/yandex/mysync/internal/config"
	"github.com/yandex/mysync/internal/verifsim"
)

type hostRow struct {
	Up      bool     `json:"up"`
	RO      string   `json:"ro"`
	Offline bool     `json:"offline"`
	Src     string   `json:"src"`
	IO      string   `json:"io"`
	SQL     bool     `json:"sql"`
	IOErr   int      `json:"ioerr"`
	SQLErr  int      `json:"sqlerr"`
	Exec    []string `json:"exec"`
	Recv    []string `json:"recv"`
	Pend    []string `json:"pend"`
	SsM     bool     `json:"ssm"`
	SsS     bool     `json:"sss"`
	SsSAct  bool     `json:"sssact"`
	Wsc     int      `json:"wsc"`
	Dur     string   `json:"dur"`
	Reach   bool     `json:"reach"`
	DataLag int64    `json:"datalag"`
}

func nn(s []string) []string {
	if s == nil {
		return []string{}
	}
	return s
}

// snapshotLocked: ground truth of every server (caller holds W.mu or the world is quiescent).
func (s *vSim) hostsSnapshot(lock bool) map[string]hostRow {
	if lock {
		s.W.Lock()
		defer s.W.Unlock()
	}
	m := map[string]hostRow{}
	for _, h := range s.hosts {
		x := s.W.Hosts[h]
		v := x.View()
		m[h] = hostRow{Up: v.Up, RO: v.RO, Offline: v.Offline, Src: v.Src, IO: v.IO, SQL: v.SQL, IOErr: v.IOErr, SQLErr: v.SQLErr,
			Exec: nn(v.Exec), Recv: nn(v.Recv), Pend: nn(v.Pend), SsM: v.SsM, SsS: v.SsS, SsSAct: v.SsSAct, Wsc: v.Wsc, Dur: v.Dur,
			Reach: v.Up && v.Net == "ok", DataLag: s.W.DataLagOf(x)}
	}
	return m
}

type treeRow struct {
	Master      string   `json:"master"`
	Active      []string `json:"active"`
	HasActive   bool     `json:"hasactive"`
	Switch      string   `json:"switch"` // raw json or ""
	LastSwitch  string   `json:"lastswitch"`
	LastReject  string   `json:"lastreject"`
	Maintenance string   `json:"maintenance"`
	Recovery    []string `json:"recovery"`
	Manager     string   `json:"manager"` // host part of the lock owner
}

func (s *vSim) treeSnapshot() treeRow {
	var t treeRow
	t.Master = s.zkMaster()
	t.Active = nn(s.zkActive())
	_, t.HasActive = s.zkGet(pathActiveNodes)
	t.Switch, _ = s.zkGet(pathCurrentSwitch)
	t.LastSwitch, _ = s.zkGet(pathLastSwitch)
	t.LastReject, _ = s.zkGet(pathLastRejectedSwitch)
	t.Maintenance, _ = s.zkGet(pathMaintenance)
	t.Recovery = nn(s.Z.ChildrenOf(vNS + "/" + pathRecovery))
	if d, ok := s.zkGet(pathManagerLock); ok {
		var lo struct {
			Hostname string `json:"hostname"`
		}
		json.Unmarshal([]byte(d), &lo)
		t.Manager = strings.SplitN(lo.Hostname, "#", 2)[0]
	}
	return t
}

// ---- rows ---------------------------------------------------------------------------

// promoRow: one C01 trigger (SET GLOBAL read_only = 0 at a host that is not the recorded master).
type promoRow struct {
	Kind     string             `json:"kind"` // "promo"
	Scn      string             `json:"scn"`
	N        int                `json:"n"`
	By       string             `json:"by"`
	P        string             `json:"p"`
	Master   string             `json:"master"`
	L        []string           `json:"l"`
	Hosts    map[string]hostRow `json:"hosts"`
	SemiSync bool               `json:"semisync"`
	W        int                `json:"w"`
	Cause    string             `json:"cause"`
	Trans    string             `json:"trans"`
	From     string             `json:"from"`
	To       string             `json:"to"`
	AsyncEsc bool               `json:"asyncesc"`
	Recovery []string           `json:"recovery"`
	Cascade  []string           `json:"cascade"`
	OptReg   []string           `json:"optreg"`
	InSwitch bool               `json:"inswitch"`
	LocksOK  bool               `json:"locksok"` // C03_SwitchRechecks observed for this promotion
	RelayLost []string          `json:"relaylost"` // received by the promoted node, never applied, discarded by this promotion
	FreezeSeen bool             `json:"freezeseen"`
	Turbo    []string           `json:"turbo"` // hosts registered / relaxed by mysync itself inside this activation (speed-up phase)
}

// attemptRow: one handler activation that froze nodes for a switchover (C01 split-brain clause).
type attemptRow struct {
	Kind     string             `json:"kind"` // "attempt"
	Scn      string             `json:"scn"`
	By       string             `json:"by"`
	Frozen   []string           `json:"frozen"`
	Hosts    map[string]hostRow `json:"hosts"` // at the first lock re-check after freezing
	Promos   int                `json:"promos"`
	Emerge   bool               `json:"emerge"`
	Ended    string             `json:"ended"` // exit | dead
	ReadsOK  bool               `json:"readsok"` // every position read of the attempt was answered
	RelaxAfterFreeze int        `json:"relaxafterfreeze"` // durability-relaxing statements after the first freeze call (C19)
}

type actState struct {
	active     []string
	activeSeen bool
	froze      map[string]bool // SetSuperReadOnly ok
	stopped    map[string]bool // StopIO ok
	anyFreeze  bool
	collect    map[string]hostRow
	frozen     []string
	promos     int
	lastFreezeN int
	lockAfterFreeze bool
	lockAfterCatch  bool
	state           string
	relayLost       map[string][]string // host -> unapplied relay log content this activation discarded with RESET REPLICA ALL
	told            bool // the last lock answer of this activation was "held"
	toldTrue        int
	nacts           int
	unconfirmed     string
	collecting      bool
	readsOK         bool
	relaxAfterFreeze int
	turbo            map[string]bool
	inSwitch   bool
	swRaw      string
	oldMaster  string
	skel             []string // control skeleton (SwitchSkel.tla): classes of the successful mutating calls after StartSwitchover
	// mode machine (Daemon.tla)
	t0, lq0          int64
	mfile, mgrsw     bool
	ed, ad           int64
	probed           bool
	locks            []bool
	released         bool
	zk               int
	maint            maintObs
	maintErr         bool
}

// maintObs: what an activation read of the maintenance record
type maintObs struct {
	St     string `json:"st"` // unread | err | absent | present
	Paused bool   `json:"paused"`
	Leave  bool   `json:"leave"`
	Light  bool   `json:"light"`
}

// modeRow (Daemon.tla): one activation of a state handler, aggregated over identical content
type modeRow struct {
	Kind     string   `json:"kind"` // "mode"
	Scn      string   `json:"scn"`
	By       string   `json:"by"`
	State    string   `json:"state"`
	Next     string   `json:"next"`
	Locks    []bool   `json:"locks"`
	Released bool     `json:"released"`
	Zk       int      `json:"zk"`
	Maint    maintObs `json:"maint"`
	MFile    bool     `json:"mfile"`
	MgrSw    bool     `json:"mgrsw"`
	Lq0      int64    `json:"lq0"`
	Lq1      int64    `json:"lq1"`
	T0       int64    `json:"t0"`
	T1       int64    `json:"t1"`
	Ed       int64    `json:"ed"`
	Ad       int64    `json:"ad"`
	Ended    string   `json:"ended"`
	Owner    string   `json:"owner"` // owner of the manager lock node when the activation ended
	Count    int      `json:"count"`
}

// skelRow (SwitchSkel.tla): the successful mutating calls of one switchover activation, in order, as classes
type skelRow struct {
	Kind  string   `json:"kind"` // "skel"
	Scn   string   `json:"scn"`
	By    string   `json:"by"`
	Seq   []string `json:"seq"`
	Ended string   `json:"ended"`
	Count int      `json:"count"`
}

// vSkelClass maps a mutating call to its class in SwitchSkel.tla ("" = not part of the skeleton, see the aux list there)
func vSkelClass(ev *verifsim.TraceEvent) string {
	if ev.K == "sql" {
		switch ev.Op {
		case "SetSuperReadOnly", "SetReadOnlyNoSuper", "Kill":
			return "ro"
		case "StopIO":
			return "stopio"
		case "StartIO":
			return "startio"
		case "SetOnline":
			return "online"
		case "StopReplica":
			return "stoprep"
		case "ChangeSource":
			return "changesrc"
		case "StartReplica":
			return "startrep"
		case "ResetReplicaAll":
			return "resetall"
		case "SemiSyncSetMaster", "SemiSyncSetSlave", "SemiSyncDisable", "SetWaitCount":
			return "semisync"
		case "SetWritable":
			return "writable"
		case "SetFlush", "SetSyncBinlog":
			return "aux:opt"
		case "EnableEvent":
			return "aux:events"
		}
		return "unknown:" + ev.Op
	}
	switch {
	case ev.At == pathCurrentSwitch && ev.Op == "SetData":
		return "aux:switchrecord"
	case ev.At == pathCurrentSwitch && ev.Op == "Delete", ev.At == pathLastSwitch, ev.At == pathLastRejectedSwitch:
		return "finish"
	case ev.At == pathMasterNode:
		return "master"
	case ev.At == pathActiveNodes:
		return "active"
	case ev.At == pathRecovery || strings.HasPrefix(ev.At, pathRecovery+"/"):
		return "recovery"
	case strings.HasPrefix(ev.At, "optimization_nodes"):
		return "aux:optnodes"
	case strings.HasPrefix(ev.At, "timing"):
		return "aux:timing"
	}
	return "unknown:" + ev.Op + " " + ev.At
}

func (m *modeRow) key() string {
	return fmt.Sprint(m.By, m.State, m.Next, m.Locks, m.Released, m.Zk > 0, m.Maint, m.MFile, m.MgrSw, m.Lq0, m.Lq1, m.Ended, m.Owner,
		func() string {
			if m.Lq0 >= 0 || m.Lq1 >= 0 {
				return fmt.Sprint(m.T0, m.T1) // the clock matters only while the quorum-loss timer runs
			}
			return ""
		}())
}

type vObserver struct {
	mu     sync.Mutex
	s      *vSim
	sc     *vScenario
	cfg    *config.Config
	acts   map[string]*actState
	promos []promoRow
	atts   []attemptRow
	actRows []actRow
	tolds   []toldRow
	modes   []modeRow
	modeIdx map[string]int
	skels   []skelRow
}

func newObserver(s *vSim, sc *vScenario) *vObserver {
	return &vObserver{s: s, sc: sc, acts: map[string]*actState{}}
}

// vClusterWidePath: coordination records only the lock holder may write (C03)
func vClusterWidePath(p string) bool {
	switch p {
	case pathMasterNode, pathActiveNodes, pathCurrentSwitch, pathLastSwitch, pathLastRejectedSwitch, pathMaintenance:
		return true
	}
	return strings.HasPrefix(p, pathRecovery+"/")
}

func (o *vObserver) cascadeHosts() []string {
	return nn(sortedKeys(o.sc.Cascade))
}

// onEvent is called for every trace event at its linearisation point.
// sqlLocked: the world lock is held by the caller (sql events).
func (o *vObserver) onEvent(ev *verifsim.TraceEvent, worldLocked bool) {
	// everything that needs another lock (world, tree) is gathered BEFORE o.mu is
	// taken: o.mu is a leaf lock (sql events arrive under the world lock, zk events
	// under the tree lock, app events under none)
	var pre struct {
		master   string
		snap     map[string]hostRow
		recovery []string
		optreg   []string
		emerge   bool
		owner    string
	}
	switch {
	case ev.K == "sql" && ev.Op == "SetWritable" && ev.Res == "ok":
		pre.master = o.s.zkMaster()
		pre.snap = o.s.hostsSnapshot(!worldLocked)
		pre.recovery = nn(o.s.Z.ChildrenOf(vNS + "/" + pathRecovery))
		pre.optreg = nn(o.s.Z.ChildrenOf(vNS + "/optimization_nodes"))
	case ev.K == "app" && ev.Op == "AcquireLock" && ev.Res == "true":
		pre.snap = o.s.hostsSnapshot(!worldLocked)
		pre.owner = o.s.Z.OwnerClient(vNS + "/" + pathManagerLock)
	case ev.K == "app" && ev.Op == "Enter":
		pre.master = o.s.zkMaster()
	case ev.K == "app" && (ev.Op == "Exit" || ev.Op == "ExitDead"):
		pre.emerge = o.s.fileExists(ev.By, "emerge")
		pre.owner = o.s.Z.OwnerClient(vNS + "/" + pathManagerLock)
	}
	o.mu.Lock()
	defer o.mu.Unlock()
	switch ev.K {
	case "app":
		switch ev.Op {
		case "Enter":
			if ev.Arg == "Manager" || ev.Arg == "Maintenance" || ev.Arg == "Candidate" || ev.Arg == "Lost" || ev.Arg == "FirstRun" {
				a := &actState{froze: map[string]bool{}, stopped: map[string]bool{}, oldMaster: pre.master, turbo: map[string]bool{}, state: ev.Arg}
				a.maint.St = "unread"
				if n, _ := fmt.Sscanf(ev.Val, "%d %t %t %d %d", &a.lq0, &a.mfile, &a.mgrsw, &a.ed, &a.ad); n == 5 {
					a.probed = true
					a.t0 = ev.T
				}
				o.acts[ev.By] = a
			}
		case "ReleaseLock":
			if a := o.acts[ev.By]; a != nil && ev.Arg == pathManagerLock {
				a.released = true
			}
		case "AcquireLock":
			a := o.acts[ev.By]
			if ev.Arg == pathManagerLock {
				if a != nil {
					a.locks = append(a.locks, ev.Res == "true")
					a.told = ev.Res == "true"
					if a.told {
						a.toldTrue++
					}
				}
				if ev.Res == "true" {
					found := false
					for k := range o.tolds {
						if o.tolds[k].By == ev.By && o.tolds[k].Owner == pre.owner {
							o.tolds[k].Count++
							found = true
						}
					}
					if !found {
						o.tolds = append(o.tolds, toldRow{Kind: "told", Scn: o.sc.ID, By: ev.By, Owner: pre.owner, T: ev.T, Count: 1})
					}
				}
			}
			if a != nil && ev.Res == "true" && a.anyFreeze && a.collect == nil {
				// first lock re-check after freezing: positions are collected next
				// the frozen set as mysync sees it = the hosts whose positions it reads next
				a.collect = pre.snap
				a.collecting = true
				a.readsOK = true
				a.lockAfterFreeze = true
			} else if a != nil && ev.Res == "true" && a.collect != nil {
				a.lockAfterCatch = true
				a.collecting = false
			}
		case "Exit", "ExitDead":
			a := o.acts[ev.By]
			if a != nil && a.probed && ev.Arg == a.state {
				row := modeRow{Kind: "mode", Scn: o.sc.ID, By: ev.By, State: a.state, Next: ev.Res, Locks: a.locks, Released: a.released,
					Zk: a.zk, Maint: a.maint, MFile: a.mfile, MgrSw: a.mgrsw, Lq0: a.lq0, Lq1: a.lq0, T0: a.t0, T1: ev.T, Ed: a.ed, Ad: a.ad,
					Ended: "exit", Owner: pre.owner, Count: 1}
				if row.Locks == nil {
					row.Locks = []bool{}
				}
				if row.Maint.St == "unread" && a.maintErr {
					row.Maint.St = "err"
				}
				if ev.Op == "ExitDead" {
					row.Ended = "dead"
				} else {
					var mf, ms bool
					var ed, ad int64
					fmt.Sscanf(ev.Val, "%d %t %t %d %d", &row.Lq1, &mf, &ms, &ed, &ad)
				}
				if o.modeIdx == nil {
					o.modeIdx = map[string]int{}
				}
				if k, ok := o.modeIdx[row.key()]; ok {
					o.modes[k].Count++
				} else {
					o.modeIdx[row.key()] = len(o.modes)
					o.modes = append(o.modes, row)
				}
			}
			if a != nil && a.inSwitch && ev.Arg == a.state {
				ended := "exit"
				if ev.Op == "ExitDead" {
					ended = "dead"
				}
				key := strings.Join(a.skel, ",") + "|" + ended + "|" + ev.By
				found := false
				for k := range o.skels {
					if strings.Join(o.skels[k].Seq, ",")+"|"+o.skels[k].Ended+"|"+o.skels[k].By == key {
						o.skels[k].Count++
						found = true
					}
				}
				if !found {
					o.skels = append(o.skels, skelRow{Kind: "skel", Scn: o.sc.ID, By: ev.By, Seq: nn(a.skel), Ended: ended, Count: 1})
				}
			}
			if a != nil && a.nacts > 0 {
				found := false
				for k := range o.actRows {
					r := &o.actRows[k]
					if r.By == ev.By && r.State == a.state && r.Unconfirmed == a.unconfirmed {
						r.Count++
						r.Actions += a.nacts
						r.ToldTrue += a.toldTrue
						found = true
					}
				}
				if !found {
					o.actRows = append(o.actRows, actRow{Kind: "act", Scn: o.sc.ID, By: ev.By, State: a.state, Actions: a.nacts,
						Unconfirmed: a.unconfirmed, ToldTrue: a.toldTrue, Count: 1})
				}
			}
			if a != nil && a.collect != nil {
				sort.Strings(a.frozen)
				ended := "exit"
				if ev.Op == "ExitDead" {
					ended = "dead"
				}
				o.atts = append(o.atts, attemptRow{Kind: "attempt", Scn: o.sc.ID, By: ev.By, Frozen: nn(a.frozen), Hosts: a.collect,
					Promos: a.promos, Emerge: pre.emerge, Ended: ended, ReadsOK: a.readsOK, RelaxAfterFreeze: a.relaxAfterFreeze})
			}
			delete(o.acts, ev.By)
		}
	case "zk":
		a := o.acts[ev.By]
		if a == nil {
			return
		}
		switch ev.Op {
		case "GetData", "Create", "SetData", "Delete", "Children", "Exists":
			a.zk++
		}
		if ev.Op == "GetData" && ev.At == pathMaintenance && (a.maint.St == "unread") {
			switch {
			case ev.Res == "ok":
				var m Maintenance
				if json.Unmarshal([]byte(ev.Val), &m) == nil {
					a.maint = maintObs{St: "present", Paused: m.MySyncPaused, Leave: m.ShouldLeave, Light: m.IsLightMode()}
				} else {
					a.maintErr = true
				}
			case ev.Res == "nonode":
				a.maint = maintObs{St: "absent"}
			default:
				a.maintErr = true
			}
		}
		if a.inSwitch && ev.Mut && ev.Res == "ok" && (ev.Op == "Create" || ev.Op == "SetData" || ev.Op == "Delete") {
			a.skel = append(a.skel, vSkelClass(ev))
		}
		if (ev.Op == "Create" || ev.Op == "SetData" || ev.Op == "Delete") && vClusterWidePath(ev.At) {
			a.nacts++
			if !a.told && a.unconfirmed == "" {
				a.unconfirmed = "zk " + ev.Op + " " + ev.At
			}
		}
		if ev.Op == "GetData" && ev.At == pathActiveNodes && !a.activeSeen {
			a.activeSeen = true
			if ev.Res == "ok" {
				json.Unmarshal([]byte(ev.Val), &a.active)
			}
		}
		if ev.Op == "Create" && strings.HasPrefix(ev.At, "optimization_nodes/") && ev.Res == "ok" {
			a.turbo[strings.TrimPrefix(ev.At, "optimization_nodes/")] = true
		}
		if ev.Op == "SetData" && ev.At == pathCurrentSwitch && ev.Res == "ok" && strings.Contains(ev.Arg, `"started_by":"`+ev.By+`"`) && !a.inSwitch {
			a.inSwitch = true
			a.swRaw = ev.Arg
		}
	case "sql":
		a := o.acts[ev.By]
		if a == nil {
			return
		}
		if a.inSwitch && ev.Mut && ev.Res == "ok" {
			a.skel = append(a.skel, vSkelClass(ev))
		}
		if ev.Mut && ev.At != ev.By {
			a.nacts++
			if !a.told && a.unconfirmed == "" {
				a.unconfirmed = "sql " + ev.Op + " on " + ev.At
			}
		}
		if a.collecting {
			if ev.Mut {
				a.collecting = false
			} else if ev.Op == "ReplicaStatus" {
				if ev.Res == "ok" {
					dup := false
					for _, x := range a.frozen {
						dup = dup || x == ev.At
					}
					if !dup {
						a.frozen = append(a.frozen, ev.At)
					}
				} else {
					a.readsOK = false
				}
			} else if ev.Res != "ok" {
				a.readsOK = false
			}
		}
		if ev.Res != "ok" {
			return
		}
		if a.anyFreeze && ((ev.Op == "SetFlush" && ev.Arg == "2") || (ev.Op == "SetSyncBinlog" && ev.Arg == "1000")) {
			a.relaxAfterFreeze++
		}
		switch ev.Op {
		case "ResetReplicaAll", "ChangeSource":
			if ev.Val != "" {
				if a.relayLost == nil {
					a.relayLost = map[string][]string{}
				}
				a.relayLost[ev.At] = append(a.relayLost[ev.At], strings.Split(ev.Val, ",")...)
			}
		case "SetSuperReadOnly":
			if a.inSwitch {
				a.froze[ev.At] = true
				a.anyFreeze = true
			}
		case "StopIO":
			if a.inSwitch {
				a.stopped[ev.At] = true
			}
		case "SetWritable":
			master := pre.master
			if ev.At == master {
				return
			}
			a.promos++
			var sw Switchover
			json.Unmarshal([]byte(a.swRaw), &sw)
			cfg := o.s.insts[ev.By].app.config
			row := promoRow{Kind: "promo", Scn: o.sc.ID, N: ev.N, By: ev.By, P: ev.At, Master: master, L: nn(a.active),
				Hosts: pre.snap, SemiSync: cfg.SemiSync, W: cfg.RplSemiSyncMasterWaitForSlaveCount,
				Cause: sw.Cause, Trans: string(sw.MasterTransition), From: sw.From, To: sw.To,
				Recovery: pre.recovery, Cascade: o.cascadeHosts(),
				OptReg: pre.optreg,
				InSwitch: a.inSwitch, LocksOK: a.lockAfterFreeze && a.lockAfterCatch, FreezeSeen: a.anyFreeze, Turbo: nn(sortedKeys(a.turbo)),
				RelayLost: nn(a.relayLost[ev.At])}
			if cfg.ASync && sw.Cause == CauseAuto && cfg.AsyncAllowedLag > 0 {
				row.AsyncEsc = true
			}
			o.promos = append(o.promos, row)
		}
	}
}

// ---- runner ---------------------------------------------------------------------------

// actRow (C03): one activation of a state handler that issued at least one cluster-wide action
type actRow struct {
	Kind        string `json:"kind"` // "act"
	Scn         string `json:"scn"`
	By          string `json:"by"`
	State       string `json:"state"`
	Actions     int    `json:"actions"`
	Unconfirmed string `json:"unconfirmed"` // first cluster-wide action issued while the last lock answer was not "held"
	ToldTrue    int    `json:"toldtrue"`
	Count       int    `json:"count"` // activations aggregated into this row (same by/state/unconfirmed)
}

// toldRow (C03): one positive lock answer with the server-side owner at that instant
type toldRow struct {
	Kind  string `json:"kind"` // "told"
	Scn   string `json:"scn"`
	By    string `json:"by"`
	Owner string `json:"owner"`
	T     int64  `json:"t"`     // first occurrence
	Count int    `json:"count"` // answers aggregated into this row (same by/owner)
}

type vRunResult struct {
	sc      *vScenario
	promos  []promoRow
	atts    []attemptRow
	acts    []actRow
	tolds   []toldRow
	modes   []modeRow
	skels   []skelRow
	census  []string
	trace   []verifsim.TraceEvent
	final   map[string]hostRow
	tree    treeRow
	panics  []string
	states  map[string]string
	logs    map[string]string
	files   map[string][]string
	rounds  int
	straggler bool
	skipped   bool
}

var vStragglers int
var vSkipSet map[string]bool

type vRunOpts struct {
	keepLog   bool
	keepTrace bool
	censusAll bool
	// extra steps driven by the property driver after the request was filed:
	// called once per round with the round number; return true to stop
	perRound func(s *vSim, round int) bool
	// called inside the bubble before shutdown
	finish func(s *vSim, res *vRunResult)
	setup  func(s *vSim)
	noInstances map[string]bool
	extraHook func(s *vSim) verifsim.MyHook
}

func vRun(t *testing.T, sc *vScenario, opt vRunOpts) (res *vRunResult) {
	res = &vRunResult{sc: sc, states: map[string]string{}, logs: map[string]string{}, files: map[string][]string{}}
	// a panic in a goroutine spawned by mysync itself (RunParallel, ...) cannot be
	// recovered and kills the test binary: the scenario is recorded first so that the
	// checker can attribute the crash and re-run the shard without it
	if out := os.Getenv("VERIF_OUT"); out != "" {
		_ = os.WriteFile(filepath.Join(out, "current.json"), []byte(sc.json()), 0o644)
	}
	// REAL-time watchdog (armed outside the bubble): a scenario that does not end - a handler of mysync that loops for
	// ever on the virtual clock - is reported with every goroutine's stack and the process exits; the checker attributes
	// it to the scenario recorded above and resumes the shard without it
	hangAfter := time.Duration(vEnvInt("VERIF_HANG_S", 300)) * time.Second
	wd := time.AfterFunc(hangAfter, func() {
		fmt.Fprintf(os.Stderr, "\nVERIF-HANG scenario=%s did not end within %s of real time\n", sc.ID, hangAfter)
		pprof.Lookup("goroutine").WriteTo(os.Stderr, 2)
		fmt.Fprintf(os.Stderr, "\nVERIF-HANG-END\n")
		os.Exit(3)
	})
	defer wd.Stop()
	if vSkipSet == nil {
		vSkipSet = map[string]bool{}
		if f := os.Getenv("VERIF_SKIPFILE"); f != "" {
			if b, err := os.ReadFile(f); err == nil {
				for _, id := range strings.Split(string(b), "\n") {
					if id != "" {
						vSkipSet[id] = true
					}
				}
			}
		}
	}
	if vSkipSet[sc.ID] {
		res.skipped = true
		return res
	}
	// VERIF_ONLY=<scenario id>: run just that scenario of a driver, with the full trace and logs on stderr
	if only := os.Getenv("VERIF_ONLY"); only != "" {
		if only != sc.ID {
			res.skipped = true
			return res
		}
		opt.keepTrace, opt.keepLog = true, true
		defer func() {
			vDebugDump(res)
			for h, l := range res.logs {
				fmt.Fprintln(os.Stderr, "=== log of", h)
				fmt.Fprintln(os.Stderr, l)
			}
		}()
	}
	defer func() {
		// goroutines still blocked when the bubble's main goroutine returns make synctest
		// panic; the run's results are complete at that point, the stragglers are abandoned
		if r := recover(); r != nil {
			msg := fmt.Sprint(r)
			if strings.Contains(msg, "blocked goroutines remain") {
				res.straggler = true
				vStragglers++
				return
			}
			panic(r)
		}
	}()
	synctest.Test(t, func(t *testing.T) {
		s := vNewSim(t, sc.Hosts, sc.Cascade, func(cfg *config.Config) {
			cfg.RplSemiSyncMasterWaitForSlaveCount = sc.W
			applyCfg(cfg, sc.Cfg)
		})
		s.keepLog = opt.keepLog
		defer s.shutdown()
		obs := newObserver(s, sc)
		s.onEv = obs.onEvent
		s.applyShape(sc)
		s.lastMaster.Store(sc.Master)
		for h, sh := range sc.Shape {
			if sh.Down {
				s.W.Crash(h)
			} else if sh.Net != "" {
				s.W.SetNet(h, sh.Net)
			}
		}
		if opt.setup != nil {
			opt.setup(s)
		}
		hook := newHook(s, sc.Policy)
		if opt.extraHook != nil {
			hook.extra = opt.extraHook(s)
		}
		s.setHook(hook)
		s.Z.Hook = hook
		if sc.Fault != nil && (sc.Fault.Occ == 0 || sc.Fault.FromStart) {
			hook.arm(sc.Fault) // a persistent fault holds from the very start
		}
		// processes: the designated manager first so that it takes the lock
		order := []string{sc.Manager}
		for _, h := range sc.Hosts {
			if h != sc.Manager {
				order = append(order, h)
			}
		}
		// every process starts and publishes its first health record before the designated manager
		// runs its first manager activation (FirstRun -> Manager happens inside one tick)
		for _, h := range order {
			if sc.Shape[h].Down || opt.noInstances[h] {
				continue // the host is gone: its mysync is gone with it
			}
			s.startInstance(h)
		}
		for _, h := range order {
			s.health(h)
		}
		for _, h := range order {
			s.tick(h)
		}
		// lazy background replication: once per virtual second
		stopWorld := make(chan struct{})
		go func() {
			tk := time.NewTicker(time.Second)
			defer tk.Stop()
			for {
				select {
				case <-stopWorld:
					return
				case <-tk.C:
					// lazy: nothing moves before mysync starts freezing (keeps the initial
					// shape adversarial); eager: always
					if sc.Policy == "frozen" {
						continue // replication never moves (persistently stuck catch-up)
					}
					if sc.Policy == "eager" || s.freezeSeen.Load() || sc.Policy == "flow" {
						s.W.Saturate()
					}
				}
			}
		}()
		if sc.Fault == nil || (sc.Fault.Occ != 0 && !sc.Fault.FromStart) {
			hook.arm(sc.Fault)
		}
		s.fileRequest(sc)
		rounds := sc.Rounds
		if rounds == 0 {
			rounds = 6
		}
		for r := 0; r < rounds; r++ {
			res.rounds = r + 1
			if opt.perRound != nil && opt.perRound(s, r) {
				break
			}
			s.round(nil)
		}
		hook.disarm()
		close(stopWorld)
		res.census = hook.census
		res.promos = obs.promos
		res.atts = obs.atts
		res.acts = obs.actRows
		res.tolds = obs.tolds
		res.modes = obs.modes
		res.skels = obs.skels
		res.final = s.hostsSnapshot(true)
		res.tree = s.treeSnapshot()
		for h, in := range s.insts {
			res.panics = append(res.panics, in.panics...)
			res.states[h] = string(in.app.state)
			if opt.keepLog {
				res.logs[h] = in.logBuf.String()
			}
			for _, f := range []string{"emerge", "resetup", "maintenance"} {
				if s.fileExists(h, f) {
					res.files[h] = append(res.files[h], f)
				}
			}
		}
		if opt.finish != nil {
			opt.finish(s, res)
		}
		if opt.keepTrace {
			res.trace = s.traceCopy()
		}
	})
	return res
}

func vDebugDump(res *vRunResult) {
	for _, ev := range res.trace {
		if ev.Mut || ev.K == "app" || ev.K == "env" {
			arg := ev.Arg
			if len(arg) > 90 {
				arg = arg[:90] + "..."
			}
			r := ev.Res
			if len(r) > 200 {
				r = r[:200]
			}
			fmt.Fprintf(os.Stderr, "%4d t=%-6d %-3s by=%-3s at=%-16s %s(%s)=%s\n", ev.N, ev.T, ev.K, ev.By, ev.At, ev.Op, arg, r)
		}
	}
}
