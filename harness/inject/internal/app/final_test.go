//go:build verif

package app

import (
	"fmt"

	"github.com/yandex/mysync/internal/verifsim"
)

// finalRow: end state of a run after the convergence rounds (C02 / C07 clauses).
type finalRow struct {
	Kind       string             `json:"kind"` // "final"
	Scn        string             `json:"scn"`
	Hosts      map[string]hostRow `json:"hosts"`
	HA         []string           `json:"ha"`
	Tree       treeRow            `json:"tree"`
	Acked      []string           `json:"acked"`
	HadRequest bool               `json:"hadrequest"`
	AckViol    string             `json:"ackviol"`
	Rounds     int                `json:"rounds"`
	States     map[string]string  `json:"states"`
	Panics     int                `json:"panics"`
}

// singleAcker walks the trace: an acknowledgement by a retired host is a violation;
// an acknowledgement by another host retires the current acker; a promotion
// (SET GLOBAL read_only = 0 by mysync) un-retires the promoted host.
func singleAcker(trace []verifsim.TraceEvent) string {
	cur := ""
	retired := map[string]bool{}
	for _, ev := range trace {
		switch {
		case ev.K == "env" && ev.Op == "ClientAck":
			h := ev.At
			if retired[h] {
				return fmt.Sprintf("event %d: %s acknowledged %s after %s had taken over", ev.N, h, ev.Arg, cur)
			}
			if cur != "" && cur != h {
				retired[cur] = true
			}
			cur = h
		case ev.K == "sql" && ev.Op == "SetWritable" && ev.Res == "ok":
			delete(retired, ev.At)
		}
	}
	return ""
}

func (s *vSim) finalRow(sc *vScenario, res *vRunResult) finalRow {
	var ha []string
	for _, h := range sc.Hosts {
		if _, c := sc.Cascade[h]; !c {
			ha = append(ha, h)
		}
	}
	s.W.Lock()
	acked := s.W.Acked.Sorted()
	s.W.Unlock()
	np := 0
	for _, in := range s.insts {
		np += len(in.panics)
	}
	st := map[string]string{}
	for h, in := range s.insts {
		st[h] = string(in.app.state)
		if in.dead {
			st[h] = "DEAD"
		}
	}
	return finalRow{Kind: "final", Scn: sc.ID, Hosts: s.hostsSnapshot(true), HA: ha, Tree: s.treeSnapshot(), Acked: nn(acked),
		HadRequest: sc.Req.Kind != "" && sc.Req.Kind != "none" && sc.Req.Kind != "auto", AckViol: singleAcker(s.traceCopy()),
		Rounds: res.rounds, States: st, Panics: np}
}
