//go:build verif

package app

// C13 binding: rows from the real GTID helpers and from
// findMostRecentNodeAndDetectSplitbrain, judged by TLC (GtidRows / RecentRows).

import (
	"fmt"
	"math/rand"
	"strings"
	"testing"

	"github.com/google/uuid"
	"github.com/yandex/mysync/internal/mysql/gtids"
)

type gtidPairRow struct {
	S       vSet    `json:"s"`
	M       vSet    `json:"m"`
	Behind  bool    `json:"behind"`
	Ahead   bool    `json:"ahead"`
	DiffErr bool    `json:"differr"`
	DSrc    vSet    `json:"dsrc"`
	DRep    vSet    `json:"drep"`
	DLabel  string  `json:"dlabel"`
	SB      [][]any `json:"sb"`
	Panic   string  `json:"panic"`
	ST      string  `json:"stext"`
	MT      string  `json:"mtext"`
}

func vParseDiff(text string) (label string, src, rep vSet, err error) {
	const (
		eq  = "replica gtid equal source"
		sa  = "source ahead on: "
		ra  = "replica ahead on: "
		sbp = "split brain! source ahead on: "
	)
	switch {
	case text == eq:
		return "equal", vSet{}, vSet{}, nil
	case strings.HasPrefix(text, sbp):
		rest := strings.TrimPrefix(text, sbp)
		k := strings.Index(rest, "; "+ra)
		if k < 0 {
			return "", nil, nil, fmt.Errorf("bad split-brain text %q", text)
		}
		src, err = vParse(rest[:k])
		if err != nil {
			return
		}
		rep, err = vParse(rest[k+len("; "+ra):])
		return "split_brain", vNonNil(src), vNonNil(rep), err
	case strings.HasPrefix(text, sa):
		src, err = vParse(strings.TrimPrefix(text, sa))
		return "source_ahead", vNonNil(src), vSet{}, err
	case strings.HasPrefix(text, ra):
		rep, err = vParse(strings.TrimPrefix(text, ra))
		return "replica_ahead", vSet{}, vNonNil(rep), err
	}
	return "", nil, nil, fmt.Errorf("unrecognised diff text %q", text)
}

func gtidPair(s, m vSet, muuids []string) (row gtidPairRow) {
	row = gtidPairRow{S: vNonNil(s), M: vNonNil(m), DSrc: vSet{}, DRep: vSet{}, SB: [][]any{}}
	row.ST, row.MT = vFormat(s), vFormat(m)
	defer func() {
		if r := recover(); r != nil {
			row.Panic = fmt.Sprint(r)
		}
	}()
	sg := gtids.ParseGtidSet(row.ST)
	mg := gtids.ParseGtidSet(row.MT)
	row.Behind = gtids.IsSlaveBehindOrEqual(sg, mg)
	row.Ahead = gtids.IsSlaveAhead(sg, mg)
	text, err := gtids.GTIDDiff(sg, mg)
	if err != nil {
		row.DiffErr = true
	} else {
		label, src, rep, perr := vParseDiff(text)
		if perr != nil {
			row.DiffErr = true
			row.DLabel = perr.Error()
		} else {
			row.DLabel, row.DSrc, row.DRep = label, src, rep
		}
	}
	for _, mu := range muuids {
		row.SB = append(row.SB, []any{mu, gtids.IsSplitBrained(sg, mg, uuid.MustParse(vUUID(mu)))})
	}
	return row
}

func TestVerifGtidPairs(t *testing.T) {
	w := vNewRows(t, "rows.ndjson")
	defer w.close()
	// universe size: 7 (quick) / 9 (thorough) transactions
	uni := vSet{{"a", "", 1}, {"a", "", 2}, {"a", "", 3}, {"b", "", 1}, {"b", "", 2}, {"a", "t", 1}, {"b", "t", 2}}
	if vEnvInt("VERIF_UNIVERSE", 7) >= 8 {
		uni = append(uni, vTxn{"a", "t", 2})
	}
	if vEnvInt("VERIF_UNIVERSE", 7) >= 9 {
		uni = append(uni, vTxn{"c", "", 1})
	}
	subs := vSubsetsOf(uni)
	si, sn := vShard()
	k := 0
	for _, s := range subs {
		for _, m := range subs {
			k++
			if k%sn != si {
				continue
			}
			w.emit(gtidPair(s, m, []string{"a", "b"}))
		}
	}
	// random large sets with gaps, three uuids, two tags
	rng := rand.New(rand.NewSource(int64(vEnvInt("VERIF_SEED", 1)) + int64(si)*7919))
	nrand := vEnvInt("VERIF_RANDOM", 300) / sn
	us := []string{"a", "b", "c"}
	tags := []string{"", "", "t", "zz_9"}
	for i := 0; i < nrand; i++ {
		maxn := 3 + rng.Intn(40)
		gen := func(density float64) vSet {
			var s vSet
			for _, u := range us {
				for _, tg := range tags[1:] {
					if rng.Float64() < 0.35 {
						continue
					}
					for n := 1; n <= maxn; n++ {
						if rng.Float64() < density {
							s = append(s, vTxn{u, tg, n})
						}
					}
				}
			}
			return s
		}
		m := gen(0.3 + 0.6*rng.Float64())
		var s vSet
		switch rng.Intn(4) {
		case 0: // subset of m
			for _, x := range m {
				if rng.Float64() < 0.8 {
					s = append(s, x)
				}
			}
		case 1: // m plus a few
			s = append(s, m...)
			s = append(s, vTxn{us[rng.Intn(3)], tags[rng.Intn(4)], maxn + 1 + rng.Intn(3)})
		default:
			s = gen(0.3 + 0.6*rng.Float64())
		}
		// dedupe
		seen := map[vTxn]bool{}
		var s2 vSet
		for _, x := range s {
			if !seen[x] {
				seen[x] = true
				s2 = append(s2, x)
			}
		}
		w.emit(gtidPair(s2, m, []string{"a", "b", "c"}))
	}
}

type recentRow struct {
	Pos    []vSet    `json:"pos"`
	Lags   []float64 `json:"lags"`
	Res    int       `json:"res"`
	ResSet vSet      `json:"resset"`
	Split  bool      `json:"split"`
	Panic  string    `json:"panic"`
}

func recentOne(sets []vSet, lags []float64) (row recentRow) {
	row = recentRow{Lags: lags, ResSet: vSet{}}
	for _, s := range sets {
		row.Pos = append(row.Pos, vNonNil(s))
	}
	defer func() {
		if r := recover(); r != nil {
			row.Panic = fmt.Sprint(r)
		}
	}()
	var positions []nodePosition
	for i, s := range sets {
		positions = append(positions, nodePosition{host: fmt.Sprintf("h%d", i+1), gtidset: gtids.ParseGtidSet(vFormat(s)), lag: lags[i]})
	}
	host, gs, split := findMostRecentNodeAndDetectSplitbrain(positions)
	row.Split = split
	if !split {
		fmt.Sscanf(host, "h%d", &row.Res)
		rs, err := vParse(gs.String())
		if err != nil {
			row.Panic = "unparsable result set: " + err.Error()
		}
		row.ResSet = vNonNil(rs)
	}
	return row
}

func TestVerifMostRecent(t *testing.T) {
	w := vNewRows(t, "rows.ndjson")
	defer w.close()
	uni := vSet{{"a", "", 1}, {"a", "", 2}, {"b", "", 1}}
	subs := vSubsetsOf(uni)
	maxLen := vEnvInt("VERIF_MAXLEN", 4)
	lagPat := [][]float64{{0, 0, 0, 0, 0}, {5, 3, 9, 0, 7}, {1, 1, 0, 2, 0}}
	var rec func(cur []vSet)
	cnt := 0
	si, sn := vShard()
	rec = func(cur []vSet) {
		if len(cur) >= 1 {
			cnt++
			if cnt%sn == si {
				w.emit(recentOne(cur, lagPat[cnt%3][:len(cur)]))
			}
		}
		if len(cur) == maxLen {
			return
		}
		for _, s := range subs {
			rec(append(append([]vSet{}, cur...), s))
		}
	}
	rec(nil)
	// random lists of 5 over a 5-txn universe incl. tags
	uni2 := vSet{{"a", "", 1}, {"a", "", 2}, {"b", "", 1}, {"a", "t", 1}, {"c", "", 4}}
	subs2 := vSubsetsOf(uni2)
	rng := rand.New(rand.NewSource(int64(vEnvInt("VERIF_SEED", 1))))
	for i := 0; i < vEnvInt("VERIF_RANDOM", 2000)/sn; i++ {
		n := 2 + rng.Intn(4)
		var cur []vSet
		var lags []float64
		chain := rng.Intn(2) == 0
		for j := 0; j < n; j++ {
			s := subs2[rng.Intn(len(subs2))]
			if chain && j > 0 {
				// grow the previous set -> inclusion chain in random order later
				s = append(append(vSet{}, cur[j-1]...), uni2[rng.Intn(len(uni2))])
				seen := map[vTxn]bool{}
				var s2 vSet
				for _, x := range s {
					if !seen[x] {
						seen[x] = true
						s2 = append(s2, x)
					}
				}
				s = s2
			}
			cur = append(cur, s)
			lags = append(lags, float64(rng.Intn(4)))
		}
		rng.Shuffle(len(cur), func(a, b int) { cur[a], cur[b] = cur[b], cur[a] })
		w.emit(recentOne(cur, lags))
	}
}
