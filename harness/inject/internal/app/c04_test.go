//go:build verif

package app

// C04 driver: transitions between membership / health situations, both
// adjustment orders, configured count 1-3, the manager stopped or one call
// failing at every call boundary of the update.

import (
	"encoding/json"
	"fmt"
	"math/rand"
	"os"
	"sort"
	"strings"
	"testing"
	"time"

	"github.com/yandex/mysync/internal/verifsim"
)

// iterRow: one manager activation, ground truth at entry and at exit / cut.
type iterRow struct {
	Kind      string             `json:"kind"` // "iter"
	Scn       string             `json:"scn"`
	By        string             `json:"by"`
	Seq       int                `json:"seq"`
	Master    string             `json:"master"`
	W         int                `json:"w"`
	HA        []string           `json:"ha"`
	Entry     map[string]hostRow `json:"entry"`
	Exit      map[string]hostRow `json:"exit"`
	Active0   []string           `json:"active0"`
	Active1   []string           `json:"active1"`
	Blocked   bool               `json:"blocked"`   // a maintenance record or a switch request existed at entry or exit
	Ended     string             `json:"ended"`     // exit | dead
	Faulted   bool               `json:"faulted"`   // an injected failure fired inside the activation
	Completed bool               `json:"completed"` // ran to its normal end in state Manager without injected failure
	LastMut   string             `json:"lastmut"`   // the last mutating call of the activation "stmt@role"
	Flip      string             `json:"flip"`      // the mutating call after which (a)&(b) turned false "stmt@role" ("" if never)
	MasterFirst bool             `json:"masterfirst"`
	DurMs     int64              `json:"durms"`
	Calls     []string           `json:"calls"` // mutating calls of the activation "stmt@host=res"
	reachedUpdate bool
	t0        int64
}

// listRow: one write of active_nodes by a manager.
type listRow struct {
	Kind      string             `json:"kind"` // "listwrite"
	Scn       string             `json:"scn"`
	By        string             `json:"by"`
	Value     []string           `json:"value"`
	Old       []string           `json:"old"`
	Master    string             `json:"master"`
	Hosts     map[string]hostRow `json:"hosts"`
	Recovery  []string           `json:"recovery"`
	Cascade   []string           `json:"cascade"`
	NotReplMs map[string]int64   `json:"notreplms"` // host -> ms since it was last seen replicating from the master (0 = replicating)
	InactMs   int64              `json:"inactms"`
	EnableLag int64              `json:"enablelag"`
	InSetRecovery bool           `json:"insetrecovery"`
	Diverged  map[string]bool    `json:"diverged"` // host holds a transaction the master lacks that did not originate on the master
}

func c04AB(hosts map[string]hostRow, ha []string, master string, active []string, w int) bool {
	in := map[string]bool{}
	for _, a := range active {
		in[a] = true
	}
	for _, r := range ha {
		if r == master {
			continue
		}
		h := hosts[r]
		if h.Reach && h.SsS && !in[r] {
			return false
		}
	}
	n := len(active)
	req := n / 2
	if w < req {
		req = w
	}
	if req > 0 {
		m := hosts[master]
		if !m.SsM || m.Wsc < req {
			return false
		}
	}
	return true
}

type c04Obs struct {
	s        *vSim
	sc       *vScenario
	w        int
	ha       []string
	rows     []any
	seq      int
	cur      map[string]*iterRow
	notRepl  map[string]int64 // host -> virtual ms when the CURRENT manager process first started an activation with it not replicating (-1 replicating)
	clockOf  string           // the manager process (host#incarnation) the clocks belong to
	prevAB   map[string]bool
	inSetRec map[string]bool
	lastActive    []string
	lastHosts     map[string]hostRow
	recoveryCache []string
	maxIter       int64
}

func (o *c04Obs) role(h, master string) string {
	if h == master {
		return "master"
	}
	return "replica"
}

func (o *c04Obs) refreshNotRepl(master string) {
	snap := o.s.hostsSnapshot(true)
	now := o.s.now()
	// the clock of a broken replica starts when a manager activation first STARTS after the break
	// (the inactivation delay is measured by the manager from its own first observation)
	for _, h := range o.ha {
		x := snap[h]
		ok := x.Up && x.Src == master && x.IO == "Yes" && x.SQL
		if ok {
			o.notRepl[h] = -1
		} else if o.notRepl[h] < 0 {
			o.notRepl[h] = now
		}
	}
}

func TestVerifC04(t *testing.T) {
	out := vNewRows(t, "rows.ndjson")
	defer out.close()
	meta := vNewRows(t, "meta.ndjson")
	defer meta.close()
	seed := int64(vEnvInt("VERIF_SEED", 1))
	rng := rand.New(rand.NewSource(seed))
	budget := vEnvInt("VERIF_RUNS", 300)
	full := os.Getenv("VERIF_FULL") != ""
	si, sn := vShard()
	// per-replica situation classes
	classes := []string{"member_ok", "member_dead", "member_stopped", "member_diverged", "member_dubious", "member_ioerr",
		"joiner_ok", "joiner_lag_progress", "joiner_lag_stalled", "joiner_dead", "marked_member", "member_isolated",
		// a listed member that is marked for recovery AND unreachable (the dead ex-master of a failover; a marked host whose
		// ping is dubious): the failure timers must not bring it back into the list
		"marked_dead", "marked_dubious"}
	type base struct {
		n     int
		cls   []string
		w     int
		mf    bool
		casc  bool
	}
	var bases []base
	for _, n := range []int{2, 3, 4, 5} {
		nrep := n - 1
		total := 1
		for i := 0; i < nrep; i++ {
			total *= len(classes)
		}
		idxs := []int{}
		if total <= 150 {
			for i := 0; i < total; i++ {
				idxs = append(idxs, i)
			}
		} else {
			for i := 0; i < 150; i++ {
				idxs = append(idxs, rng.Intn(total))
			}
		}
		for _, ix := range idxs {
			cls := make([]string, nrep)
			x := ix
			for i := range cls {
				cls[i] = classes[x%len(classes)]
				x /= len(classes)
			}
			for _, w := range []int{1, 2, 3} {
				for _, mf := range []bool{false, true} {
					bases = append(bases, base{n, cls, w, mf, n == 3 && ix%2 == 0})
				}
			}
		}
	}
	rng.Shuffle(len(bases), func(a, b int) { bases[a], bases[b] = bases[b], bases[a] })
	// pinned first: "swap" situations (one member leaves while one host joins, so the list keeps its size) - the
	// eviction guard must not be fooled by the unchanged length
	var pinned []base
	// a listed member that turns out to be a second master (stand-alone, writable): the repair marks it for recovery,
	// and the mark must not appear while the host is still in the published list
	pinned = append(pinned, base{3, []string{"member_ok", "member_stale_master"}, 1, false, false}, base{4, []string{"member_stale_master", "member_ok", "member_ok"}, 1, true, false})
	for _, mk := range []string{"marked_dead", "marked_dubious"} {
		pinned = append(pinned, base{3, []string{"member_ok", mk}, 1, false, false}, base{4, []string{"member_ok", mk, "member_ok"}, 1, true, false})
	}
	for _, ev := range []string{"member_dead", "member_stopped", "member_ioerr"} {
		for _, mf := range []bool{false, true} {
			pinned = append(pinned, base{4, []string{"member_ok", ev, "joiner_ok"}, 1, mf, false})
			if ev == "member_dead" {
				pinned = append(pinned, base{4, []string{"member_ok", "member_dead_long", "joiner_ok"}, 1, mf, false})
				for _, hl := range []string{"joiner_heals2", "joiner_heals3", "joiner_heals4", "joiner_heals5"} {
					pinned = append(pinned, base{4, []string{"member_ok", "member_dies1", hl}, 1, mf, false})
				}
			}
			pinned = append(pinned, base{3, []string{ev, "joiner_ok"}, 1, mf, false})
		}
	}
	rng.Shuffle(len(pinned), func(a, b int) { pinned[a], pinned[b] = pinned[b], pinned[a] })
	bases = append(pinned, bases...)
	runs, nbase := 0, 0
	for bi, b := range bases {
		if bi%sn != si {
			continue
		}
		if !full && runs >= budget {
			break
		}
		hosts := []string{"h1"}
		for i := 2; i <= b.n; i++ {
			hosts = append(hosts, fmt.Sprintf("h%d", i))
		}
		cascade := map[string]string{}
		if b.casc {
			hosts = append(hosts, "c1")
			cascade["c1"] = "h2"
		}
		id := fmt.Sprintf("c04-n%d-%s-w%d-mf%v-c%v", b.n, strings.Join(b.cls, "."), b.w, b.mf, b.casc)
		// the manager runs on a replica's host whose mysync can live (so that killing it
		// does not take the master's health record away); fall back to the master's host
		mgr := "h1"
		for i, c := range b.cls {
			if c != "member_dead" && c != "joiner_dead" && c != "member_isolated" && !strings.HasPrefix(c, "marked_") && c != "member_stale_master" {
				mgr = fmt.Sprintf("h%d", i+2)
				break
			}
		}
		mk := func() vScenario {
			return vScenario{ID: id, Hosts: hosts, Cascade: cascade, Master: "h1", Manager: mgr, W: b.w, Base: 3, Req: reqSpec{Kind: "none"},
				Policy: "flow", Rounds: 9, Cfg: map[string]any{"master_first": b.mf, "semi_sync_enable_lag": 5000, "inactivation_delay": 3, "failover": false}}
		}
		var late []string
		setup := func(s *vSim) {
			late = nil
			// members = classes starting with member_/marked_; the published list and the
			// semi-sync settings describe the situation BEFORE the change
			var list []string
			list = append(list, "h1")
			s.W.Lock()
			for i, c := range b.cls {
				h := fmt.Sprintf("h%d", i+2)
				x := s.W.Hosts[h]
				member := strings.HasPrefix(c, "member_") || strings.HasPrefix(c, "marked_")
				if member {
					list = append(list, h)
					x.SsS, x.SsSAct = true, true
				} else {
					x.SsS, x.SsSAct = false, false
				}
				switch c {
				case "member_stopped":
					x.IO = "No"
				case "member_diverged":
					x.Exec.Add(verifsim.Txn(h + ":1"))
				case "member_ioerr":
					x.IO = "No"
					x.IOErrno = 13114
				case "joiner_lag_progress", "joiner_lag_stalled":
					x.ExtraDataLag = 9000
				case "joiner_heals0", "joiner_heals1", "joiner_heals2", "joiner_heals3", "joiner_heals4", "joiner_heals5", "joiner_heals6":
					// cut off the network until round 3 / 4: it can join exactly when a dead member is due for eviction
					late = append(late, h)
				}
			}
			m := s.W.Hosts["h1"]
			req := len(list) / 2
			if b.w < req {
				req = b.w
			}
			m.SsM = req > 0
			if req > 0 {
				m.Wsc = req
			}
			s.W.Unlock()
			for _, h := range late {
				s.W.SetNet(h, "isolated")
			}
			s.W.Lock()
			s.W.Unlock()
			sort.Strings(list)
			bb, _ := json.Marshal(list)
			s.Z.Put(vNS+"/"+pathActiveNodes, string(bb))
			for i, c := range b.cls {
				h := fmt.Sprintf("h%d", i+2)
				switch c {
				case "member_dead", "joiner_dead", "member_dead_long":
					s.W.Crash(h)
				case "member_dubious":
					s.W.SetNet(h, "dubious")
				case "member_isolated":
					s.W.SetNet(h, "isolated")
				case "marked_member":
					s.Z.Put(vNS+"/"+pathRecovery+"/"+h, "null")
				case "member_stale_master":
					s.W.Lock()
					x := s.W.Hosts[h]
					x.Src, x.IO, x.SQL, x.RO = "", "No", false, "rw"
					s.W.Unlock()
				case "marked_dead":
					s.Z.Put(vNS+"/"+pathRecovery+"/"+h, "null")
					s.W.Crash(h)
				case "marked_dubious":
					s.Z.Put(vNS+"/"+pathRecovery+"/"+h, "null")
					s.W.SetNet(h, "dubious")
				}
			}
		}
		noInst := map[string]bool{}
		for i, c := range b.cls {
			// a marked host's own mysync would clear the mark at once: it is kept down here
			if c == "member_dead" || c == "member_dead_long" || c == "joiner_dead" || c == "member_isolated" || strings.HasPrefix(c, "marked_") || c == "member_stale_master" {
				noInst[fmt.Sprintf("h%d", i+2)] = true
			}
		}
		runOne := func(sc *vScenario) (*vRunResult, []any) {
			var obs *c04Obs
			res := vRun(t, sc, vRunOpts{noInstances: noInst,
				setup: func(s *vSim) {
					setup(s)
					ha := []string{}
					for _, h := range hosts {
						if _, c := cascade[h]; !c {
							ha = append(ha, h)
						}
					}
					obs = &c04Obs{s: s, sc: sc, w: b.w, ha: ha, cur: map[string]*iterRow{}, notRepl: map[string]int64{}, prevAB: map[string]bool{}, inSetRec: map[string]bool{}}
					for _, h := range ha {
						obs.notRepl[h] = -1
					}
					obs.refreshNotRepl("h1")
					prev := s.onEv
					preset := false
					s.onEv = func(ev *verifsim.TraceEvent, wl bool) {
						if prev != nil {
							prev(ev, wl)
						}
						if !preset && ev.K == "app" && ev.Op == "Enter" && ev.Arg == "Manager" && s.insts[ev.By] != nil {
							// "member_dead_long": this manager has been watching the member fail for an hour already, so its
							// eviction is due in the very iteration in which another host can join
							preset = true
							for i, c := range b.cls {
								if c == "member_dead_long" {
									s.insts[ev.By].app.t.Set(NodeFailedAt, fmt.Sprintf("h%d", i+2), time.Now().Add(-time.Hour))
								}
							}
						}
						c04Observe(obs, ev, wl, b.mf)
					}
				},
				perRound: func(s *vSim, round int) bool {
					for i, c := range b.cls {
						if c == "member_dies1" && round == 1 {
							// a member dies while the manager runs: its eviction falls due three seconds later
							s.W.Crash(fmt.Sprintf("h%d", i+2))
							s.kill(fmt.Sprintf("h%d", i+2))
						}
						if strings.HasPrefix(c, "joiner_heals") && c == fmt.Sprintf("joiner_heals%d", round) {
							s.W.SetNet(fmt.Sprintf("h%d", i+2), "ok")
						}
					}
					s.W.Lock()
					for i, c := range b.cls {
						if c == "joiner_lag_progress" {
							x := s.W.Hosts[fmt.Sprintf("h%d", i+2)]
							if x.ExtraDataLag >= 1500 {
								x.ExtraDataLag -= 1500
							}
						}
					}
					s.W.Unlock()
					return false
				}})
			if obs == nil {
				return res, nil
			}
			return res, obs.rows
		}
		sc := mk()
		dry, rows := runOne(&sc)
		runs++
		nbase++
		for _, r := range rows {
			out.emit(r)
		}
		meta.emit(map[string]any{"scn": id, "scenario": sc, "classes": b.cls})
		// cut / failure at call boundaries of the manager's activations
		var points []string
		for _, pt := range dry.census {
			if strings.HasPrefix(pt, "zk|") && !(strings.Contains(pt, "|active_nodes|") || strings.Contains(pt, "|recovery")) {
				continue
			}
			points = append(points, pt)
		}
		var cases []*faultSpec
		for _, pt := range points {
			cases = append(cases, faultVariants(pt, []string{"fail", "crashmgr"})...)
			p := strings.Split(pt, "|")
			if p[0] == "zk" {
				var occ int
				fmt.Sscanf(p[3], "%d", &occ)
				cases = append(cases, &faultSpec{Chan: "zk", Stmt: p[1], At: p[2], Occ: occ, Kind: "crashmgr_after"})
			}
		}
		if !full {
			rng.Shuffle(len(cases), func(a, c int) { cases[a], cases[c] = cases[c], cases[a] })
			lim := vEnvInt("VERIF_FAULTS_PER_BASE", 5)
			if len(cases) > lim {
				cases = cases[:lim]
			}
		}
		// the master dies right before one of the manager's liveness probes of it (they are reads, hence not in the
		// census): the eviction guard must then refuse to shrink the list
		evicts, joins := false, false
		for _, c := range b.cls {
			evicts = evicts || c == "member_dead" || c == "member_dead_long" || c == "member_dies1" || c == "member_stopped" || c == "member_ioerr" || c == "member_diverged"
			joins = joins || c == "joiner_ok" || c == "joiner_lag_progress"
		}
		if evicts {
			for occ := 1; occ <= 6; occ++ {
				if full || joins || occ <= 2 {
					cases = append(cases, &faultSpec{Chan: "sql", Stmt: "Ping", At: "h1", Occ: occ, Kind: "diebefore"})
				}
			}
		}
		for _, c := range b.cls {
			if c == "member_dead_long" {
				// the swap happens in the first manager activation: probes are counted from the very start
				for occ := 1; occ <= 8; occ++ {
					cases = append(cases, &faultSpec{Chan: "sql", Stmt: "Ping", At: "h1", Occ: occ, Kind: "diebefore", FromStart: true, By: mgr})
				}
				// ... and the master dies right after each call made to a joining host in that activation (the
				// eviction guard comes after them and must then refuse)
				for i2, c2 := range b.cls {
					if c2 == "joiner_ok" {
						for _, st := range []string{"SemiSyncSetSlave", "StopIO", "StartIO", "SetFlush", "SetSyncBinlog"} {
							cases = append(cases, &faultSpec{Chan: "sql", Stmt: st, At: fmt.Sprintf("h%d", i2+2), Occ: 1, Kind: "crashhost_after", Target: "h1", FromStart: true})
						}
					}
				}
				break
			}
		}
		for _, f := range cases {
			sc2 := mk()
			sc2.Fault = f
			sc2.ID = fmt.Sprintf("%s-%s-%s@%s#%d", id, f.Kind, f.Stmt, f.At, f.Occ)
			if f.FromStart {
				sc2.ID += "-by" + f.By + f.Target
			}
			_, rows := runOne(&sc2)
			runs++
			for _, r := range rows {
				out.emit(r)
			}
			meta.emit(map[string]any{"scn": sc2.ID, "scenario": sc2, "classes": b.cls})
		}
	}
	meta.emit(map[string]any{"summary": true, "runs": runs, "bases": nbase, "stragglers": vStragglers})
}

func c04Observe(o *c04Obs, ev *verifsim.TraceEvent, worldLocked bool, mf bool) {
	switch {
	case ev.K == "app" && ev.Op == "Enter" && ev.Arg == "Manager":
		tr := o.s.treeSnapshot()
		o.seq++
		r := &iterRow{Kind: "iter", Scn: o.sc.ID, By: ev.By, Seq: o.seq, Master: tr.Master, W: o.w, HA: o.ha, Entry: o.s.hostsSnapshot(true),
			Active0: tr.Active, Blocked: tr.Switch != "" || tr.Maintenance != "", MasterFirst: mf, t0: o.s.now(), Calls: []string{}}
		o.cur[ev.By] = r
		who := fmt.Sprintf("%s#%d", ev.By, o.s.insts[ev.By].inc)
		if who != o.clockOf {
			// the inactivation delay is measured by each manager process from its own first observation
			o.clockOf = who
			for _, h := range o.ha {
				o.notRepl[h] = -1
			}
		}
		o.refreshNotRepl(tr.Master)
		o.lastActive = tr.Active
		o.lastHosts = r.Entry
		o.prevAB[ev.By] = c04AB(r.Entry, o.ha, r.Master, r.Active0, o.w)
	case ev.K == "app" && ev.Op == "Fault":
		if r := o.cur[ev.By]; r != nil {
			r.Faulted = true
		}
	case ev.K == "app" && (ev.Op == "Exit" || ev.Op == "ExitDead" || ev.Op == "Kill") && (ev.Arg == "Manager" || ev.Op == "Kill"):
		r := o.cur[ev.By]
		if r == nil {
			return
		}
		delete(o.cur, ev.By)
		tr := o.s.treeSnapshot()
		r.Exit = o.s.hostsSnapshot(true)
		r.Active1 = tr.Active
		r.Blocked = r.Blocked || tr.Switch != "" || tr.Maintenance != ""
		r.Ended = "exit"
		if ev.Op != "Exit" {
			r.Ended = "dead"
		}
		r.Completed = ev.Op == "Exit" && ev.Res == "Manager" && !r.Faulted && r.reachedUpdate
		r.DurMs = o.s.now() - r.t0
		if r.DurMs > o.maxIter {
			o.maxIter = r.DurMs
		}
		o.rows = append(o.rows, *r)
	case ev.Mut && ev.By != "" && ev.By != "tool" && (ev.K == "sql" || (ev.K == "zk" && (ev.At == pathActiveNodes || strings.HasPrefix(ev.At, pathRecovery)))):
		r := o.cur[ev.By]
		if r == nil {
			return
		}
		role := "replica"
		if ev.K == "sql" && ev.At == r.Master {
			role = "master"
		}
		if ev.K == "zk" {
			role = "tree"
		}
		r.LastMut = ev.Op + "@" + role
		if ev.K == "sql" {
			r.Calls = append(r.Calls, ev.Op+"@"+ev.At+"="+ev.Res)
		}
		// flip detection needs both locks' data; sql events hold the world lock, zk events the tree lock
		var hosts map[string]hostRow
		var active []string
		if ev.K == "sql" {
			// the world lock is held; the published list is tracked from the zk events
			hosts = o.s.hostsSnapshot(!worldLocked)
			active = o.lastActive
			o.lastHosts = hosts
		} else {
			// the tree lock is held: never block on the world lock here (lock order)
			if o.s.W.TryLock() {
				hosts = o.s.hostsSnapshot(false)
				o.s.W.Unlock()
				o.lastHosts = hosts
			} else {
				hosts = o.lastHosts
			}
			if ev.At == pathActiveNodes {
				json.Unmarshal([]byte(ev.Arg), &active)
				o.lastActive = active
			} else {
				active = o.lastActive
			}
		}
		if ev.K == "zk" && ev.Op == "Create" && ev.Res == "ok" && strings.HasPrefix(ev.At, pathRecovery+"/") {
			// the instant a host is marked for recovery: it must be out of the published list already
			cur := o.lastActive
			if cur == nil {
				cur = r.Active0
			}
			o.rows = append(o.rows, map[string]any{"kind": "markwrite", "scn": o.sc.ID, "by": ev.By, "host": strings.TrimPrefix(ev.At, pathRecovery+"/"),
				"active": nn(cur), "master": r.Master})
		}
		ab := c04AB(hosts, o.ha, r.Master, active, o.w)
		if o.prevAB[ev.By] && !ab && r.Flip == "" {
			r.Flip = ev.Op + "@" + role
		}
		o.prevAB[ev.By] = ab
		if ev.K == "zk" && ev.At == pathActiveNodes && (ev.Op == "SetData" || ev.Op == "Create") {
			var val []string
			json.Unmarshal([]byte(ev.Arg), &val)
			nr := map[string]int64{}
			now := o.s.now()
			for _, h := range o.ha {
				if o.notRepl[h] >= 0 {
					nr[h] = now - o.notRepl[h] + 1
				} else {
					nr[h] = 0
				}
			}
			div := map[string]bool{}
			mexec := map[string]bool{}
			for _, t := range hosts[r.Master].Exec {
				mexec[t] = true
			}
			for _, t := range hosts[r.Master].Pend {
				mexec[t] = true
			}
			for _, h := range o.ha {
				div[h] = false
				for _, t := range hosts[h].Exec {
					if !mexec[t] && !strings.HasPrefix(t, r.Master+":") {
						div[h] = true
					}
				}
			}
			cfg := o.s.insts[ev.By].app.config
			o.rows = append(o.rows, listRow{Kind: "listwrite", Scn: o.sc.ID, By: ev.By, Value: nn(val), Old: nn(r.Active0), Master: r.Master,
				Hosts: hosts, Recovery: nn(o.recoveryCache), Cascade: nn(sortedKeys(o.sc.Cascade)), NotReplMs: nr,
				InactMs: cfg.InactivationDelay.Milliseconds() + 2*o.maxIter + (now - r.t0), EnableLag: cfg.SemiSyncEnableLag, Diverged: div})
		}
	case ev.K == "zk" && ev.Op == "Children" && ev.At == pathRecovery:
		if r := o.cur[ev.By]; r != nil {
			r.reachedUpdate = true
		}
		if ev.Res != "ok" {
			o.recoveryCache = nil
			return
		}
		if ev.Arg == "" {
			o.recoveryCache = nil
		} else {
			o.recoveryCache = strings.Split(ev.Arg, ",")
		}
	}
}

var _ = time.Second
