//go:build verif

package app

// C05 driver: the gate product x observation histories through the real stateManager.

import (
	"encoding/json"
	"fmt"
	"math/rand"
	"os"
	"path/filepath"
	"strings"
	"testing"
	"time"

	"github.com/shirou/gopsutil/v3/process"

	"github.com/yandex/mysync/internal/verifsim"
)

type gateRow struct {
	Kind                 string `json:"kind"`
	Scn                  string `json:"scn"`
	By                   string `json:"by"`
	Failover             bool   `json:"failover"`
	Maintenance          string `json:"maintenance"`
	SwitchExisted        bool   `json:"switchexisted"`
	MasterBad            bool   `json:"masterbad"`
	CrashRecovered       bool   `json:"crashrecovered"`
	ResetupCrashed       bool   `json:"resetupcrashed"`
	FsReadonly           bool   `json:"fsreadonly"`
	SinceFirstBadMs      int64  `json:"sincefirstbadms"`
	DelayMs              int64  `json:"delayms"`
	AllOthersReplicating bool   `json:"allothersreplicating"`
	SemiSync             bool   `json:"semisync"`
	AliveInList          int    `json:"aliveinlist"`
	ListSize             int    `json:"listsize"`
	W                    int    `json:"w"`
	LastAutoAgeMs        int64  `json:"lastautoagems"`
	CooldownMs           int64  `json:"cooldownms"`
	ClusterWideCalls     int    `json:"clusterwidecalls"`
	Filed                bool   `json:"filed"`
}

func TestVerifC05(t *testing.T) {
	out := vNewRows(t, "rows.ndjson")
	defer out.close()
	meta := vNewRows(t, "meta.ndjson")
	defer meta.close()
	si, sn := vShard()
	rng := rand.New(rand.NewSource(int64(vEnvInt("VERIF_SEED", 1))))
	budget := vEnvInt("VERIF_RUNS", 60)
	full := os.Getenv("VERIF_FULL") != ""
	mconds := []string{"dead_mysql", "dead_host", "fsro", "crashrec", "ok", "unreachable_from_manager", "dead_mysync", "crashrec_dead_mysql"}
	repls := []string{"both_ok", "one_stopped", "both_stopped"}
	maints := []string{"none", "none", "light", "full"}
	lasts := []string{"none", "auto_recent", "auto_old", "manual_recent"}
	hists := []string{"steady", "flap", "manager_change", "flap_susp"}
	type base struct {
		mcond, repl, maint, last, hist string
		failover, resetup, preswitch, listdead, semisync bool
		delay int
		cascade bool // a cascade replica c1 (streaming from h2) is registered as well
		race    bool // an operator's request lands right after each read of the (absent) request by a manager and is withdrawn
		             // at the end of the activation unless the manager tried to file meanwhile
	}
	var bases []base
	// all single-gate-closed cells around the all-open cell, then the random product
	open := base{"dead_mysql", "both_ok", "none", "none", "steady", true, false, false, false, true, 0, false, false}
	bases = append(bases, open)
	for _, mc := range mconds {
		for _, d := range []int{0, 5} {
			b := open
			b.mcond, b.delay, b.race = mc, d, true
			bases = append(bases, b)
		}
	}
	for _, mc := range mconds {
		b := open
		b.mcond = mc
		bases = append(bases, b)
		b.resetup = true
		bases = append(bases, b)
		b.resetup, b.cascade = false, true
		bases = append(bases, b)
	}
	for _, m := range maints {
		b := open
		b.maint = m
		bases = append(bases, b)
	}
	for _, l := range lasts {
		b := open
		b.last = l
		bases = append(bases, b)
	}
	for _, h := range hists {
		for _, d := range []int{0, 5} {
			b := open
			b.hist, b.delay = h, d
			bases = append(bases, b)
		}
	}
	for _, v := range []func(*base){func(b *base) { b.failover = false }, func(b *base) { b.preswitch = true }, func(b *base) { b.listdead = true },
		func(b *base) { b.semisync = false }, func(b *base) { b.repl = "one_stopped" }, func(b *base) { b.mcond, b.repl = "fsro", "both_ok" }} {
		b := open
		v(&b)
		bases = append(bases, b)
	}
	nrand := 3000
	if full {
		nrand = 60000
	}
	for k := 0; k < nrand; k++ {
		bases = append(bases, base{mconds[rng.Intn(len(mconds))], repls[rng.Intn(3)], maints[rng.Intn(4)], lasts[rng.Intn(4)], hists[rng.Intn(len(hists))],
			rng.Intn(5) != 0, rng.Intn(2) == 0, rng.Intn(6) == 0, rng.Intn(4) == 0, rng.Intn(4) != 0, []int{0, 5}[rng.Intn(2)], rng.Intn(3) == 0, false})
	}
	ownStart := time.Now()
	if p, err := process.NewProcess(int32(os.Getpid())); err == nil {
		if ms, err := p.CreateTime(); err == nil {
			ownStart = time.UnixMilli(ms)
		}
	}
	runs := 0
	for bi, b := range bases {
		if bi%sn != si {
			continue
		}
		if runs >= budget && !full {
			break
		}
		id := fmt.Sprintf("c05-%s-%s-%s-%s-%s-fo%v-ru%v-ps%v-ld%v-ss%v-d%d-c%v", b.mcond, b.repl, b.maint, b.last, b.hist, b.failover, b.resetup, b.preswitch, b.listdead, b.semisync, b.delay, b.cascade)
		if b.race {
			id += "-race"
		}
		injected := map[string]bool{}
		lastSwitchBy := "" // initiator of the request currently in the tree ("" = none)
		hosts := []string{"h1", "h2", "h3"}
		all := hosts
		var casc map[string]string
		if b.cascade {
			all = []string{"h1", "h2", "h3", "c1"}
			casc = map[string]string{"c1": "h2"}
		}
		sc := vScenario{ID: id, Hosts: all, Cascade: casc, Master: "h1", Manager: "h2", W: 1, Base: 3, Req: reqSpec{Kind: "none"}, Policy: "flow", Rounds: 13,
			Cfg: map[string]any{"failover": b.failover, "failover_delay": b.delay, "failover_cooldown": 3600, "resetup_crashed": b.resetup,
				"semi_sync": b.semisync, "inactivation_delay": 60}}
		var rows []gateRow
		type procObs struct {
			firstBad int64 // start (ms) of the first activation of the current unbroken run of bad observations; -1 none
		}
		obs := map[string]*procObs{}
		curAct := map[string]*struct {
			t0        int64
			bad       bool
			susp      bool
			calls     int
			filed     bool
			pending   bool   // a switch request was pending when the activation started
			mh        string // recorded master at the start of the activation
			rec       string // its health record as mysync itself read it in this activation ("" = missing)
			read      bool
		}{}
		masterBroken := func(s *vSim) {
			switch b.mcond {
			case "dead_mysql", "crashrec_dead_mysql":
				// (crashrec_dead_mysql: the server had been started through crash recovery, its record says so, and now dies)
				s.W.Crash("h1")
			case "dead_host":
				s.W.Crash("h1")
				s.kill("h1")
			case "dead_mysync":
				// only the master's mysync is gone: its health record disappears, the server keeps serving
				s.kill("h1")
			case "fsro":
				os.WriteFile(filepath.Join(s.insts["h1"].dir, "fs_ro"), []byte("true"), 0o644)
			case "unreachable_from_manager":
				for _, m := range []string{"h2", "h3"} {
					s.W.Block(m, "h1")
				}
			}
		}
		masterFixed := func(s *vSim) {
			switch b.mcond {
			case "dead_mysql", "crashrec_dead_mysql":
				s.W.Restart("h1", false)
				s.W.Lock()
				s.W.Hosts["h1"].RO, s.W.Hosts["h1"].Offline = "rw", false
				s.W.Unlock()
			case "fsro":
				os.WriteFile(filepath.Join(s.insts["h1"].dir, "fs_ro"), []byte("false"), 0o644)
			case "dead_mysync":
				s.startInstance("h1")
			case "unreachable_from_manager":
				for _, m := range []string{"h2", "h3"} {
					s.W.Unblock(m, "h1")
				}
			}
		}
		res := vRun(t, &sc, vRunOpts{
			setup: func(s *vSim) {
				if b.mcond == "crashrec" || b.mcond == "crashrec_dead_mysql" {
					dir := filepath.Join(s.dir, "h1")
					os.MkdirAll(dir, 0o755)
					os.WriteFile(filepath.Join(dir, "mysqld.pid"), []byte(fmt.Sprint(os.Getpid())), 0o644)
					line := ownStart.Add(time.Minute).Format("2006-01-02T15:04:05.000000-07:00") + " 0 [Note] [MY-012551] [InnoDB] Starting crash recovery.\n"
					os.WriteFile(filepath.Join(dir, "error.log"), []byte(line), 0o644)
				}
				s.W.Lock()
				switch b.repl {
				case "one_stopped":
					s.W.Hosts["h3"].IO, s.W.Hosts["h3"].SQL = "No", false
				case "both_stopped":
					s.W.Hosts["h3"].IO, s.W.Hosts["h3"].SQL = "No", false
					s.W.Hosts["h2"].IO, s.W.Hosts["h2"].SQL = "No", false
				}
				s.W.Unlock()
				if b.listdead {
					s.W.Crash("h3")
				}
				switch b.maint {
				case "light", "full":
					m := Maintenance{InitiatedBy: "verif", InitiatedAt: time.Now(), Mode: MaintenanceMode(b.maint)}
					bb, _ := json.Marshal(&m)
					s.Z.Put(vNS+"/"+pathMaintenance, string(bb))
				}
				if b.preswitch {
					sw := Switchover{To: "h3", Cause: CauseWorker, InitiatedBy: "worker", InitiatedAt: time.Now(), RunCount: 1}
					bb, _ := json.Marshal(&sw)
					s.Z.Put(vNS+"/"+pathCurrentSwitch, string(bb))
				}
				if b.last != "none" {
					sw := Switchover{From: "h9", Cause: CauseAuto, InitiatedBy: "h2", InitiatedAt: time.Now().Add(-3 * time.Hour),
						Result: &SwitchoverResult{Ok: true, FinishedAt: time.Now().Add(-10 * time.Second)}}
					if b.last == "auto_old" {
						sw.Result.FinishedAt = time.Now().Add(-2 * time.Hour)
					}
					if b.last == "manual_recent" {
						sw.Cause = CauseManual
					}
					bb, _ := json.Marshal(&sw)
					s.Z.Put(vNS+"/"+pathLastSwitch, string(bb))
				}
				prev := s.onEv
				s.onEv = func(ev *verifsim.TraceEvent, wl bool) {
					if prev != nil {
						prev(ev, wl)
					}
					switch {
					case ev.K == "app" && ev.Op == "Enter" && ev.Arg == "Manager":
						who := fmt.Sprintf("%s#%d", ev.By, s.insts[ev.By].inc)
						o := obs[who]
						if o == nil {
							o = &procObs{firstBad: -1}
							obs[who] = o
						}
						// what this activation can observe (read now: no lock is held in an app event)
						s.maintNow = "none"
						if d, ok := s.zkGet(pathMaintenance); ok {
							var m Maintenance
							json.Unmarshal([]byte(d), &m)
							s.maintNow = string(m.Mode)
							if s.maintNow == "" {
								s.maintNow = "full"
							}
						}
						s.activeNow = s.zkActive()
						s.lastSwitchNow, _ = s.zkGet(pathLastSwitch)
						// the clauses speak about the RECORDED master of this activation (it is h1 until a failover succeeds)
						mh := s.zkMaster()
						if mh == "" || s.W.Hosts[mh] == nil {
							mh = "h1"
						}
						s.h1Health, _ = s.zkGet(pathHealthPrefix + "/" + mh)
						bad := true
						fsro := false
						if d, ok := s.zkGet(pathHealthPrefix + "/" + mh); ok {
							var ns struct {
								PingOk bool `json:"ping_ok"`
								FsRO   bool `json:"is_file_system_readonly"`
							}
							json.Unmarshal([]byte(d), &ns)
							bad = !ns.PingOk || ns.FsRO
							fsro = ns.FsRO
						}
						_ = fsro
						if bad {
							if o.firstBad < 0 {
								o.firstBad = s.now()
							}
						} else {
							o.firstBad = -1
						}
						s.W.Lock()
						h1 := s.W.Hosts[mh]
						reachable := h1.Up && h1.Net == "ok" && !s.W.IsBlocked(ev.By, mh)
						s.W.Unlock()
						curAct[ev.By] = &struct {
							t0    int64
							bad   bool
							susp  bool
							calls int
							filed bool
							pending bool
							mh    string
							rec   string
							read  bool
						}{t0: s.now(), bad: bad, susp: !bad && !reachable, mh: mh, rec: s.h1Health}
						if _, pending := s.zkGet(pathCurrentSwitch); pending {
							// an iteration that finds a pending request executes it before any failover / repair decision:
							// the suspicious-master clause does not speak about it
							curAct[ev.By].pending = true
						}
					case ev.K == "zk" && ev.Op == "GetData" && curAct[ev.By] != nil && !curAct[ev.By].read &&
						ev.At == pathHealthPrefix+"/"+curAct[ev.By].mh:
						// the evaluation is mysync's own read of the record, which may come seconds after the start of the
						// activation (state collection with timeouts comes first): judge by what it saw
						a := curAct[ev.By]
						a.read = true
						a.rec = ""
						nbad := true
						if ev.Res == "ok" {
							a.rec = ev.Val
							var ns struct {
								PingOk bool `json:"ping_ok"`
								FsRO   bool `json:"is_file_system_readonly"`
							}
							json.Unmarshal([]byte(ev.Val), &ns)
							nbad = !ns.PingOk || ns.FsRO
						}
						reach := false
						if s.W.TryLock() {
							x := s.W.Hosts[a.mh]
							reach = x.Up && x.Net == "ok" && !s.W.IsBlocked(ev.By, a.mh)
							s.W.Unlock()
						} else {
							reach = !a.susp // keep the earlier judgement of reachability
						}
						who := fmt.Sprintf("%s#%d", ev.By, s.insts[ev.By].inc)
						if o := obs[who]; o != nil {
							if nbad && o.firstBad < 0 {
								o.firstBad = a.t0
							} else if !nbad {
								o.firstBad = -1
							}
						}
						a.bad = nbad
						a.susp = !nbad && !reach
					case ev.K == "app" && ev.Op == "Exit" && ev.Arg == "Manager" && injected[ev.By] && curAct[ev.By] != nil && !curAct[ev.By].filed:
						// the manager did not try to file in this activation: the operator withdraws the request
						injected[ev.By] = false
						delete(curAct, ev.By)
						s.Z.Remove(vNS + "/" + pathCurrentSwitch)
					case ev.K == "app" && ev.Op == "Exit" && ev.Arg == "Manager":
						if a := curAct[ev.By]; a != nil && a.susp && b.maint == "none" && !b.preswitch && !a.pending {
							rows = append(rows, gateRow{Kind: "susp", Scn: id, By: ev.By, ClusterWideCalls: a.calls, Filed: a.filed, Maintenance: b.maint})
						}
						delete(curAct, ev.By)
					case ev.K == "sql" && ev.Mut && ev.By != "" && ev.At != ev.By:
						if a := curAct[ev.By]; a != nil {
							a.calls++
						}
					case ev.K == "zk" && ev.Mut && ev.By != "tool" && (ev.At == pathMasterNode || ev.At == pathActiveNodes || strings.HasPrefix(ev.At, pathRecovery)):
						if a := curAct[ev.By]; a != nil {
							a.calls++
						}
					case ev.K == "zk" && ev.At == pathCurrentSwitch && (ev.Op == "Delete" || ev.Op == "ToolDelete") && ev.Res == "ok":
						lastSwitchBy = ""
					case ev.K == "zk" && ev.At == pathCurrentSwitch && ev.Op == "ToolSet" && ev.Res == "ok":
						var sw Switchover
						json.Unmarshal([]byte(ev.Arg), &sw)
						lastSwitchBy = sw.InitiatedBy
					case ev.K == "zk" && ev.At == pathCurrentSwitch && (ev.Op == "Create" || ev.Op == "SetData") && ev.By != "tool":
						var sw Switchover
						json.Unmarshal([]byte(ev.Arg), &sw)
						// a FILING is a fresh automatic request (no attempt counted, not started, no result), however it is written;
						// the manager's progress updates of a request it is working on are not
						fresh := sw.Cause == CauseAuto && sw.RunCount == 0 && sw.StartedBy == "" && sw.Result == nil
						existedBy := lastSwitchBy
						if ev.Res == "ok" {
							lastSwitchBy = sw.InitiatedBy
						}
						if !fresh || (ev.Op == "SetData" && existedBy == sw.InitiatedBy) {
							return
						}
						a := curAct[ev.By]
						if a != nil {
							a.filed = true
						}
						if ev.Res != "ok" {
							return // create-if-absent refused: nothing was filed
						}
						who := fmt.Sprintf("%s#%d", ev.By, s.insts[ev.By].inc)
						o := obs[who]
						cfg := s.insts[ev.By].app.config
						row := gateRow{Kind: "filed", Scn: id, By: ev.By, Failover: cfg.Failover, Maintenance: "none", DelayMs: cfg.FailoverDelay.Milliseconds(),
							SemiSync: cfg.SemiSync, W: cfg.RplSemiSyncMasterWaitForSlaveCount, CooldownMs: cfg.FailoverCooldown.Milliseconds(), ResetupCrashed: cfg.ResetupCrashedHosts,
							LastAutoAgeMs: -1, SinceFirstBadMs: -1}
						// the tree lock is held: the tree is read from the last known values kept by the driver
						row.Maintenance = s.maintNow
						row.SwitchExisted = ev.Op == "SetData" && existedBy != "" // a successful create means it was absent
						if o != nil && o.firstBad >= 0 {
							row.SinceFirstBadMs = s.now() - o.firstBad
						}
						var hr struct {
							PingOk bool `json:"ping_ok"`
							FsRO   bool `json:"is_file_system_readonly"`
							DS     *struct {
								CR bool `json:"crash_recovery"`
							} `json:"daemon_state"`
						}
						rec := s.h1Health
						if a != nil {
							rec = a.rec
						}
						hasRec := rec != ""
						if hasRec {
							json.Unmarshal([]byte(rec), &hr)
						}
						row.FsReadonly = hasRec && hr.FsRO
						row.CrashRecovered = hasRec && hr.DS != nil && hr.DS.CR
						row.MasterBad = !hasRec || !hr.PingOk || hr.FsRO || (row.CrashRecovered && row.ResetupCrashed)
						if s.W.TryLock() {
							running, ha, alive := 0, 0, 0
							inList := map[string]bool{}
							for _, x := range s.activeNow {
								inList[x] = true
							}
							for _, hn := range hosts {
								x := s.W.Hosts[hn]
								ha++
								reach := x.Up && x.Net == "ok" && !s.W.IsBlocked(ev.By, hn)
								if reach && x.Src != "" && x.IO == "Yes" && x.SQL {
									running++
								}
								if reach && x.Src != "" && inList[hn] {
									alive++
								}
							}
							s.W.Unlock()
							row.AllOthersReplicating = running > 0 && running == ha-1
							row.AliveInList = alive
							row.ListSize = len(s.activeNow)
						}
						if s.lastSwitchNow != "" {
							var ls Switchover
							json.Unmarshal([]byte(s.lastSwitchNow), &ls)
							if ls.Cause == CauseAuto && ls.Result != nil {
								row.LastAutoAgeMs = time.Since(ls.Result.FinishedAt).Milliseconds()
							}
						}
						rows = append(rows, row)
					}
				}
			},
			perRound: func(s *vSim, round int) bool {
				if b.race && round == 0 {
					s.Z.Hook = &c05RaceHook{inner: s.Z.Hook, s: s, injected: injected}
				}
				// keep the driver's copy of the tree values (read outside any lock)
				s.maintNow = "none"
				if d, ok := s.zkGet(pathMaintenance); ok {
					var m Maintenance
					json.Unmarshal([]byte(d), &m)
					s.maintNow = string(m.Mode)
					if s.maintNow == "" {
						s.maintNow = "full"
					}
				}
				s.activeNow = s.zkActive()
				s.lastSwitchNow, _ = s.zkGet(pathLastSwitch)
				if mh := s.zkMaster(); mh != "" {
					s.h1Health, _ = s.zkGet(pathHealthPrefix + "/" + mh)
				} else {
					s.h1Health, _ = s.zkGet(pathHealthPrefix + "/h1")
				}
				switch b.hist {
				case "steady":
					if round == 1 {
						masterBroken(s)
					}
				case "flap":
					if round == 1 {
						masterBroken(s)
					}
					if round == 3 {
						masterFixed(s)
					}
					if round == 5 {
						masterBroken(s)
					}
				case "flap_susp":
					// bad record, then a GOOD record while the managers cannot reach the master themselves
					// (suspicious master), then bad again: the delay must be counted from the second run
					if round == 1 {
						masterBroken(s)
					}
					if round == 3 {
						masterFixed(s)
						for _, m := range []string{"h2", "h3"} {
							s.W.Block(m, "h1")
						}
					}
					if round == 5 {
						for _, m := range []string{"h2", "h3"} {
							s.W.Unblock(m, "h1")
						}
						masterBroken(s)
					}
				case "manager_change":
					if round == 1 {
						masterBroken(s)
					}
					if round == 4 {
						s.kill("h2")
					}
				}
				return false
			}})
		runs++
		if res.skipped {
			continue
		}
		for _, r := range rows {
			out.emit(r)
		}
		meta.emit(map[string]any{"scn": id, "scenario": sc, "filed": len(rows)})
	}
	meta.emit(map[string]any{"summary": true, "runs": runs, "bases": runs, "stragglers": vStragglers})
}


// c05RaceHook files an operator's request right after a manager has read "no request" (the gate "no other request is
// active" is then decided on a stale read: only the atomic create-if-absent of the filing keeps it).
type c05RaceHook struct {
	inner    verifsim.ZkHook
	s        *vSim
	injected map[string]bool
}

func (h *c05RaceHook) BeforeZk(client, op, path string) (int32, bool) {
	if h.inner != nil {
		return h.inner.BeforeZk(client, op, path)
	}
	return 0, false
}

func (h *c05RaceHook) AfterZk(client, op, path string, code int32) bool {
	if op == "GetData" && path == vNS+"/"+pathCurrentSwitch && code != 0 && client != "tool" && !h.injected[client] {
		if in := h.s.insts[client]; in != nil && in.app.state == stateManager {
			h.injected[client] = true
			sw := Switchover{To: "h3", Cause: CauseManual, MasterTransition: SwitchoverTransition, InitiatedBy: "operator", InitiatedAt: time.Now()}
			b, _ := json.Marshal(&sw)
			h.s.Z.Put(vNS+"/"+pathCurrentSwitch, string(b))
		}
	}
	if h.inner != nil {
		return h.inner.AfterZk(client, op, path, code)
	}
	return false
}
