//go:build verif

package app

import (
	"encoding/json"
	"fmt"
	"os"
	"testing"
)

// TestVerifReplay re-executes one scenario (VERIF_SCENARIO = json) with full logging.
func TestVerifReplay(t *testing.T) {
	raw := os.Getenv("VERIF_SCENARIO")
	if raw == "" {
		t.Skip("VERIF_SCENARIO not set")
	}
	var sc vScenario
	if err := json.Unmarshal([]byte(raw), &sc); err != nil {
		t.Fatal(err)
	}
	res := vRun(t, &sc, vRunOpts{keepLog: os.Getenv("VERIF_LOGS") != "", keepTrace: true})
	vDebugDump(res)
	for h, l := range res.logs {
		fmt.Fprintln(os.Stderr, "=== log of", h)
		fmt.Fprintln(os.Stderr, l)
	}
	b, _ := json.Marshal(map[string]any{"promos": res.promos, "attempts": res.atts, "tree": res.tree, "final": res.final, "states": res.states, "files": res.files, "panics": res.panics, "census": res.census})
	fmt.Fprintln(os.Stderr, string(b))
	if out := os.Getenv("VERIF_OUT"); out != "" {
		w := vNewRows(t, "rows.ndjson")
		for _, p := range res.promos {
			w.emit(p)
		}
		for _, a := range res.atts {
			w.emit(a)
		}
		w.close()
	}
}
