//go:build verif

package dcs

// Constructor-equivalent of NewZookeeper for the verification harness: the
// same zkDCS value NewZookeeper builds after zk.Connect, but around a
// connection whose dialer is the in-process fake server.

import (
	"time"

	"github.com/go-zookeeper/zk"

	"github.com/yandex/mysync/internal/log"
)

// VerifZkLogger adapts the project logger for the zk client.
type VerifZkLogger = zkLoggerProxy

// NewVerifZookeeper wraps an established zk connection exactly like NewZookeeper does.
func NewVerifZookeeper(conn *zk.Conn, ec <-chan zk.Event, config *ZookeeperConfig, logger *log.Logger) DCS {
	z := &zkDCS{
		config:             config,
		logger:             logger,
		conn:               conn,
		disconnectCallback: func() error { return nil },
		eventsChan:         ec,
		acl:                nil,
	}
	go z.handleEvents()
	return z
}

// VerifConnect dials the fake ensemble with the real client library.
func VerifConnect(dialer zk.Dialer, hp zk.HostProvider, config *ZookeeperConfig, logger *log.Logger, cb zk.EventCallback) (DCS, *zk.Conn, error) {
	opts := []func(*zk.Conn){}
	_ = opts
	conn, ec, err := zk.Connect([]string{"10.0.0.1:2181"}, config.SessionTimeout,
		zk.WithLogger(zkLoggerProxy{logger}), zk.WithDialer(dialer), zk.WithHostProvider(hp),
		zk.WithLogInfo(false), zk.WithEventCallback(cb))
	if err != nil {
		return nil, nil, err
	}
	return NewVerifZookeeper(conn, ec, config, logger), conn, nil
}

// VerifLockCached: is there a cache entry for the lock (observation only).
func VerifLockCached(d DCS, path string) (bool, time.Time) {
	z := d.(*zkDCS)
	v, ok := z.lockHeld.Load(z.buildFullPath(path))
	if !ok {
		return false, time.Time{}
	}
	return true, v.(time.Time)
}

// VerifFullPath exposes path normalisation.
func VerifFullPath(d DCS, path string) string {
	return d.(*zkDCS).buildFullPath(path)
}
