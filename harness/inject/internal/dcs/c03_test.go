//go:build verif

package dcs

// C03 (layer part) driver: lock histories executed by REAL zkDCS clients on the
// fake ZooKeeper.  A history is a script of steps; a step is a primitive
// (acquire, release, session fault, sleep) or an acquire/release with an
// injection: at a named point inside the call (before/after the k-th ZooKeeper
// request on the lock node, or the scheduling hook before the cache store) a
// list of primitives runs - other clients' calls, expiry, cut, lost reply.
// Every return is logged with the server-side ground truth at that instant
// (which client's live session owns the lock node); every successful delete of
// the lock node is logged with the client that owned the removed node.
// LockTrace.tla (TLC) judges the histories.

import (
	"bufio"
	"encoding/json"
	"fmt"
	"math/rand"
	"os"
	"path/filepath"
	"strconv"
	"strings"
	"sync"
	"testing"
	"testing/synctest"
	"time"

	"github.com/cenkalti/backoff/v4"
	"github.com/go-zookeeper/zk"
	"github.com/rs/zerolog"

	"github.com/yandex/mysync/internal/verifsim"
)

const lkPath = "manager"
const lkFull = "/test/manager"

type lkStep struct {
	Op string   `json:"op"`           // primitive, e.g. "acq:p"
	At string   `json:"at,omitempty"` // injection point: before:GetData | after:GetData | before:Create | after:Create | before:Delete | after:Delete | store
	Do []string `json:"do,omitempty"` // primitives run at the injection point
}

type lkScript struct {
	ID      string         `json:"id"`
	Clients []string       `json:"clients"`
	TTL     map[string]int `json:"ttl"` // lock_held_ttl seconds per client
	Backoff string         `json:"backoff"`
	Steps   []lkStep       `json:"steps"`
}

type lkEvent struct {
	T        int64  `json:"t"`
	Op       string `json:"op"` // Acquire Release ZkDelete ZkExpire Fault
	Client   string `json:"client"`
	Res      bool   `json:"res"`
	Wire     bool   `json:"wire"`
	Owner    string `json:"owner"`  // ground truth at the linearisation point: the last wire request of the call, else the return
	PreOwner string `json:"preowner"`
	Nested   bool   `json:"nested"`
	Arg      string `json:"arg"`
}

type lkTrace struct {
	ID     string    `json:"id"`
	Script lkScript  `json:"script"`
	Events []lkEvent `json:"events"`
	Stuck  string    `json:"stuck"`
}

type lkHook struct {
	mu    sync.Mutex
	armed *lkStep
	who   string
	run   func(do []string) (drop bool)
	done  chan struct{} // closed when the injected primitives have finished
}

func (h *lkHook) fire(st *lkStep) bool {
	defer close(h.done)
	return h.run(st.Do)
}

func (h *lkHook) take(client, point string) *lkStep {
	h.mu.Lock()
	defer h.mu.Unlock()
	if h.armed == nil || h.who != client || h.armed.At != point {
		return nil
	}
	st := h.armed
	h.armed = nil
	h.done = make(chan struct{})
	return st
}

func (h *lkHook) BeforeZk(client, op, path string) (int32, bool) {
	if path != lkFull {
		return 0, false
	}
	if st := h.take(client, "before:"+op); st != nil {
		h.fire(st)
	}
	return 0, false
}

func (h *lkHook) AfterZk(client, op, path string, code int32) bool {
	if path != lkFull {
		return false
	}
	if st := h.take(client, "after:"+op); st != nil {
		return h.fire(st)
	}
	return false
}

func lkCfg(host string, ttl int, bo string) *ZookeeperConfig {
	c := vCfg(host)
	c.LockHeldTTL = time.Duration(ttl) * time.Second
	if bo == "default" {
		c.BackoffInterval = backoff.DefaultInitialInterval
		c.BackoffMultiplier = backoff.DefaultMultiplier
		c.BackoffMaxInterval = backoff.DefaultMaxInterval
		c.BackoffMaxRetries = 10
		c.BackoffMaxElapsedTime = 2 * time.Minute
	}
	return c
}

func lkRun(t *testing.T, sc lkScript) lkTrace {
	tr := lkTrace{ID: sc.ID, Script: sc}
	synctest.Test(t, func(t *testing.T) {
		start := time.Now()
		srv := verifsim.NewZkServer()
		logger := zerolog.Nop()
		var mu sync.Mutex
		wire := map[string]int{}
		sessOf := map[int64]string{}
		wireOwner := map[string]string{} // owner of the lock node right after the client's last request on it
		emit := func(ev lkEvent) {
			ev.T = time.Since(start).Milliseconds()
			mu.Lock()
			tr.Events = append(tr.Events, ev)
			mu.Unlock()
		}
		srv.Log = func(op verifsim.ZkOp) {
			// called under the server lock: only record
			if op.Op == "Connect" {
				mu.Lock()
				sessOf[op.Session] = op.Client
				mu.Unlock()
			}
			if op.Path == lkFull && (op.Op == "GetData" || op.Op == "Create") && !strings.HasPrefix(op.Res, "injected") {
				mu.Lock()
				if op.Op == "GetData" && (op.Res == "ok" || op.Res == "nonode") {
					wire[op.Client]++
				}
				switch {
				case !op.PostExists:
					wireOwner[op.Client] = "none"
				case op.PostOwner == 0:
					wireOwner[op.Client] = "-"
				default:
					wireOwner[op.Client] = sessOf[op.PostOwner]
				}
				wo := wireOwner[op.Client]
				mu.Unlock()
				if op.Op == "GetData" {
					emit(lkEvent{Op: "ZkGet", Client: op.Client, Owner: wo})
				}
			}
			switch {
			case op.Path == lkFull && op.Op == "Delete" && op.Res == "ok":
				emit(lkEvent{Op: "ZkDelete", Client: op.Client, PreOwner: op.PreOwnerClient})
			case op.Op == "Expire" || op.Op == "Close":
				emit(lkEvent{Op: "ZkExpire", Client: op.Client})
			}
		}
		owner := func() string {
			o := srv.OwnerClient(lkFull)
			if o == "" {
				return "none"
			}
			return o
		}
		cl := map[string]DCS{}
		conns := map[string]*zk.Conn{}
		for _, n := range sc.Clients {
			d, conn, err := VerifConnect(srv.Dialer(n), &verifsim.StaticHosts{}, lkCfg(n, sc.TTL[n], sc.Backoff), &logger, func(zk.Event) {})
			if err != nil {
				t.Fatal(err)
			}
			if !d.WaitConnected(10 * time.Second) {
				t.Fatalf("%s: client %s cannot connect", sc.ID, n)
			}
			cl[n], conns[n] = d, conn
		}
		cl[sc.Clients[0]].Initialize()
		hook := &lkHook{}
		srv.Hook = hook
		stuck := false
		// call runs f under a virtual-time watchdog
		call := func(what string, f func()) bool {
			done := make(chan struct{})
			go func() { defer close(done); f() }()
			select {
			case <-done:
				return true
			case <-time.After(20 * time.Minute):
				tr.Stuck = what
				stuck = true
				return false
			}
		}
		var prim func(p string, nested bool) (drop bool)
		runDo := func(do []string) (drop bool) {
			for _, p := range do {
				if prim(p, true) {
					drop = true
				}
			}
			return drop
		}
		hook.run = runDo
		VerifHook = func(point, who string) {
			if st := hook.take(who, "store"); st != nil {
				hook.fire(st)
			}
		}
		defer func() { VerifHook = nil }()
		prim = func(p string, nested bool) (drop bool) {
			if stuck {
				return false
			}
			f := strings.Split(p, ":")
			arg := ""
			if len(f) > 1 {
				arg = f[1]
			}
			switch f[0] {
			case "acq":
				emit(lkEvent{Op: "Begin", Client: arg, Arg: "acq", Nested: nested})
				mu.Lock()
				w0 := wire[arg]
				mu.Unlock()
				var res bool
				if call(p, func() { res = cl[arg].AcquireLock(lkPath) }) {
					mu.Lock()
					w := wire[arg] > w0
					own := wireOwner[arg]
					mu.Unlock()
					if !w {
						own = owner()
					}
					emit(lkEvent{Op: "Acquire", Client: arg, Res: res, Wire: w, Owner: own, Nested: nested})
				}
			case "rel":
				emit(lkEvent{Op: "Begin", Client: arg, Arg: "rel", Nested: nested})
				if call(p, func() { cl[arg].ReleaseLock(lkPath) }) {
					emit(lkEvent{Op: "Release", Client: arg, Owner: owner(), Nested: nested})
				}
			case "expire":
				srv.ExpireClient(arg)
				time.Sleep(3 * time.Second)
				synctest.Wait()
			case "xexpire":
				srv.ExpireClient(arg)
			case "cutlong":
				srv.Cut(arg)
				time.Sleep(4 * time.Second)
				srv.Heal(arg)
				time.Sleep(4 * time.Second)
				synctest.Wait()
			case "blip":
				srv.Cut(arg)
				time.Sleep(300 * time.Millisecond)
				srv.Heal(arg)
				time.Sleep(2500 * time.Millisecond)
				synctest.Wait()
			case "black":
				ms, _ := strconv.Atoi(f[2])
				srv.Blackhole(arg)
				time.Sleep(time.Duration(ms) * time.Millisecond)
				srv.Heal(arg)
				time.Sleep(5 * time.Second)
				synctest.Wait()
			case "cut":
				srv.Cut(arg)
			case "heal":
				srv.Heal(arg)
			case "sleep":
				ms, _ := strconv.Atoi(arg)
				time.Sleep(time.Duration(ms) * time.Millisecond)
			case "wait":
				synctest.Wait()
			case "drop":
				return true
			default:
				panic("unknown primitive " + p)
			}
			if f[0] != "acq" && f[0] != "rel" {
				emit(lkEvent{Op: "Fault", Client: arg, Arg: p, Owner: owner(), Nested: nested})
			}
			return false
		}
		for i := range sc.Steps {
			st := &sc.Steps[i]
			if stuck {
				break
			}
			if st.At != "" {
				hook.mu.Lock()
				hook.armed = st
				hook.who = strings.Split(st.Op, ":")[1]
				hook.mu.Unlock()
			}
			prim(st.Op, false)
			hook.mu.Lock()
			hook.armed = nil
			done := hook.done
			hook.done = nil
			hook.mu.Unlock()
			if done != nil {
				// the injected primitives may outlive the call they interrupted (e.g. after a cut)
				select {
				case <-done:
				case <-time.After(30 * time.Minute):
					tr.Stuck = "hook of " + st.Op
					stuck = true
				}
			}
		}
		for _, c := range conns {
			c.Close()
		}
		time.Sleep(30 * time.Minute)
	})
	return tr
}

// ---- script generators ---------------------------------------------------------

func lkTail(a, b string) []lkStep {
	return []lkStep{{Op: "acq:" + a}, {Op: "acq:" + b}, {Op: "sleep:1500"}, {Op: "acq:" + a}, {Op: "acq:" + b},
		{Op: "rel:" + a}, {Op: "acq:" + b}, {Op: "acq:" + a}}
}

// systematic single-injection scenarios
func lkSystematic() []lkScript {
	var out []lkScript
	a, b := "p", "q"
	prefixes := map[string][]lkStep{
		"free":   {},
		"aholds": {{Op: "acq:" + a}},
		"bholds": {{Op: "acq:" + b}},
		"aheld1": {{Op: "acq:" + a}, {Op: "sleep:1200"}},
	}
	points := []string{"before:GetData", "after:GetData", "before:Create", "after:Create", "before:Delete", "after:Delete", "store"}
	actions := map[string][]string{
		"otheracq":      {"acq:" + b},
		"otherrel":      {"rel:" + b},
		"otheracqrel":   {"acq:" + b, "rel:" + b},
		"expire":        {"xexpire:" + a, "wait"},
		"expire_other":  {"xexpire:" + a, "wait", "acq:" + b},
		"expire_slow":   {"xexpire:" + a, "sleep:2500", "wait", "acq:" + b},
		"cut":           {"cut:" + a, "wait", "sleep:200", "heal:" + a},
		"cut_long":      {"cut:" + a, "sleep:4000", "wait", "acq:" + b, "heal:" + a},
		"cut_evt":       {"cut:" + a, "wait", "heal:" + a, "sleep:2500", "wait"},
		"drop":          {"drop"},
		"drop_otheracq": {"acq:" + b, "drop"},
		"expire_b":      {"xexpire:" + b, "wait"},
	}
	tails := map[string][]lkStep{
		"t1": lkTail(a, b),
		"t2": {{Op: "expire:" + a}, {Op: "acq:" + b}, {Op: "acq:" + a}, {Op: "acq:" + b}, {Op: "rel:" + a}, {Op: "acq:" + b}},
		"t3": {{Op: "sleep:3000"}, {Op: "acq:" + b}, {Op: "acq:" + a}, {Op: "rel:" + b}, {Op: "acq:" + a}, {Op: "acq:" + b}},
	}
	for _, ttl := range []int{0, 1, 30} {
		for _, bo := range []string{"fast", "default"} {
			for pn, pre := range prefixes {
				for _, main := range []string{"acq:" + a, "rel:" + a} {
					for _, pt := range points {
						if strings.HasSuffix(pt, "Delete") && main[:3] == "acq" || (strings.HasSuffix(pt, "Create") || pt == "store") && main[:3] == "rel" {
							continue
						}
						for an, act := range actions {
							if strings.HasPrefix(pt, "after:") && strings.Contains(an, "expire") && !strings.Contains(an, "expire_b") {
								// E7: a session cannot expire between applying a request of that session and answering it
								continue
							}
							if an == "drop" || an == "drop_otheracq" {
								if !strings.HasPrefix(pt, "after:") {
									continue
								}
							}
							for tn, tail := range tails {
								steps := append(append([]lkStep{}, pre...), lkStep{Op: main, At: pt, Do: act})
								steps = append(steps, tail...)
								out = append(out, lkScript{ID: fmt.Sprintf("sys/%d/%s/%s/%s/%s/%s/%s", ttl, bo, pn, main, pt, an, tn),
									Clients: []string{a, b}, TTL: map[string]int{a: ttl, b: ttl}, Backoff: bo, Steps: steps})
							}
						}
					}
				}
			}
		}
	}
	return out
}

func lkRandom(rng *rand.Rand, id string) lkScript {
	names := []string{"p", "q", "r"}[:2+rng.Intn(2)]
	sc := lkScript{ID: id, Clients: names, TTL: map[string]int{}, Backoff: []string{"fast", "default"}[rng.Intn(2)]}
	for _, n := range names {
		sc.TTL[n] = []int{0, 1, 30}[rng.Intn(3)]
	}
	pick := func() string { return names[rng.Intn(len(names))] }
	n := 8 + rng.Intn(14)
	for i := 0; i < n; i++ {
		c := pick()
		switch r := rng.Intn(100); {
		case r < 40:
			st := lkStep{Op: "acq:" + c}
			if rng.Intn(3) == 0 {
				st.At = []string{"before:GetData", "after:GetData", "before:Create", "after:Create", "store"}[rng.Intn(5)]
				st.Do = lkRandDo(rng, names, c, strings.HasPrefix(st.At, "after:"))
			}
			sc.Steps = append(sc.Steps, st)
		case r < 58:
			st := lkStep{Op: "rel:" + c}
			if rng.Intn(3) == 0 {
				st.At = []string{"before:GetData", "after:GetData", "before:Delete", "after:Delete"}[rng.Intn(4)]
				st.Do = lkRandDo(rng, names, c, strings.HasPrefix(st.At, "after:"))
			}
			sc.Steps = append(sc.Steps, st)
		case r < 66:
			sc.Steps = append(sc.Steps, lkStep{Op: "expire:" + c})
		case r < 72:
			sc.Steps = append(sc.Steps, lkStep{Op: "cutlong:" + c})
		case r < 80:
			sc.Steps = append(sc.Steps, lkStep{Op: "blip:" + c})
		case r < 86:
			sc.Steps = append(sc.Steps, lkStep{Op: fmt.Sprintf("black:%s:%d", c, []int{1000, 2500, 6000}[rng.Intn(3)])})
		default:
			sc.Steps = append(sc.Steps, lkStep{Op: fmt.Sprintf("sleep:%d", []int{200, 1500, 40000}[rng.Intn(3)])})
		}
	}
	return sc
}

func lkRandDo(rng *rand.Rand, names []string, self string, after bool) []string {
	other := names[rng.Intn(len(names))]
	for other == self {
		other = names[rng.Intn(len(names))]
	}
	var do []string
	for k := 1 + rng.Intn(3); k > 0; k-- {
		switch r := rng.Intn(9); {
		case r == 0:
			do = append(do, "acq:"+other)
		case r == 1:
			do = append(do, "rel:"+other)
		case r == 2 && !after:
			do = append(do, "xexpire:"+self, "wait")
		case r == 3:
			do = append(do, "cut:"+self, "wait", "heal:"+self)
		case r == 4:
			do = append(do, "cut:"+self, "sleep:4000", "wait", "heal:"+self)
		case r == 5:
			do = append(do, "sleep:2500", "wait")
		case r == 6 && after:
			do = append(do, "drop")
		case r == 7:
			do = append(do, "xexpire:"+other, "wait")
		default:
			do = append(do, "acq:"+other)
		}
	}
	return do
}

func TestVerifC03LockRows(t *testing.T) {
	out := os.Getenv("VERIF_OUT")
	if out == "" {
		t.Skip("VERIF_OUT not set")
	}
	var scripts []lkScript
	if s := os.Getenv("VERIF_LOCK_SCRIPT"); s != "" {
		var sc lkScript
		if err := json.Unmarshal([]byte(s), &sc); err != nil {
			t.Fatal(err)
		}
		scripts = []lkScript{sc}
	} else {
		seed := int64(vEnvInt("VERIF_SEED", 1))
		rng := rand.New(rand.NewSource(seed))
		sys := lkSystematic()
		frac := vEnvInt("VERIF_SYS_PCT", 100)
		for _, sc := range sys {
			if rng.Intn(100) < frac {
				scripts = append(scripts, sc)
			}
		}
		for i := 0; i < vEnvInt("VERIF_RUNS", 300); i++ {
			scripts = append(scripts, lkRandom(rng, fmt.Sprintf("rnd/%d/%d", seed, i)))
		}
	}
	si, sn := 0, 1
	if s := os.Getenv("VERIF_SHARD"); s != "" {
		fmt.Sscanf(s, "%d/%d", &si, &sn)
	}
	f, err := os.Create(filepath.Join(out, "rows.ndjson"))
	if err != nil {
		t.Fatal(err)
	}
	defer f.Close()
	bw := bufio.NewWriterSize(f, 1<<20)
	defer bw.Flush()
	for i, sc := range scripts {
		if i%sn != si {
			continue
		}
		tr := lkRun(t, sc)
		b, _ := json.Marshal(tr)
		bw.Write(b)
		bw.WriteByte('\n')
	}
}
