//go:build verif

package dcs

// C15 driver: sequential histories of the data operations issued by 1-3 REAL
// zkDCS clients against the fake ZooKeeper, with session expiries, cuts and
// process restarts in between.  One JSON line per history; DcsTrace.tla (TLC)
// replays each history through the contract DcsContract.tla and judges every
// logged result, returned value, child list and server-side snapshot.

import (
	"bufio"
	"encoding/json"
	"errors"
	"fmt"
	"math/rand"
	"os"
	"path/filepath"
	"sort"
	"strconv"
	"strings"
	"testing"
	"testing/synctest"
	"time"

	"github.com/go-zookeeper/zk"
	"github.com/rs/zerolog"

	"github.com/yandex/mysync/internal/verifsim"
)

func vEnvInt(name string, def int) int {
	if v, err := strconv.Atoi(os.Getenv(name)); err == nil {
		return v
	}
	return def
}

type c15Event struct {
	Op      string          `json:"op"`
	Client  string          `json:"client"`
	Key     string          `json:"key"`
	Spell   string          `json:"spell"`
	Val     string          `json:"val"`
	Res     string          `json:"res"`
	Got     string          `json:"got"`
	Kids    []string        `json:"kids"`
	Present map[string]bool `json:"present"`
	Eph     map[string]bool `json:"eph"`
	How     string          `json:"how"`
	Err     string          `json:"err,omitempty"`
}

type c15Trace struct {
	ID     string     `json:"id"`
	Events []c15Event `json:"events"`
}

var c15Keys = []string{"a", "a/b", "c", "d", "d/e", "d/e/f"}
var c15Spell = map[string][]string{
	"a":   {"a", "/a", "a/", "//a//", "/a/"},
	"a/b": {"a/b", "/a//b/", "a///b", "/a/b", "a/b//"},
	"c":   {"c", "/c", "c/", "///c"},
	"d":     {"d", "/d/"},
	"d/e":   {"d/e", "/d//e", "d/e/"},
	"d/e/f": {"d/e/f", "/d/e/f/", "d//e///f", "/d/e//f"},
}

type c15Client struct {
	name string
	d    DCS
	conn *zk.Conn
}

func c15Res(err error) string {
	switch {
	case err == nil:
		return "ok"
	case errors.Is(err, ErrExists):
		return "exists"
	case errors.Is(err, ErrNotFound):
		return "notfound"
	case errors.Is(err, ErrMalformed):
		return "malformed"
	}
	return "err"
}

func c15Run(t *testing.T, id string, seed int64, nOps int) c15Trace {
	tr := c15Trace{ID: id}
	synctest.Test(t, func(t *testing.T) {
		rng := rand.New(rand.NewSource(seed))
		srv := verifsim.NewZkServer()
		logger := zerolog.Nop()
		nClients := 1 + rng.Intn(3)
		names := []string{"p", "q", "r"}[:nClients]
		cl := map[string]*c15Client{}
		connect := func(name string) {
			d, conn, err := VerifConnect(srv.Dialer(name), &verifsim.StaticHosts{}, vCfg(name), &logger, func(zk.Event) {})
			if err != nil {
				t.Fatal(err)
			}
			if !d.WaitConnected(10 * time.Second) {
				t.Fatalf("%s: client %s cannot connect", id, name)
			}
			cl[name] = &c15Client{name: name, d: d, conn: conn}
		}
		for _, n := range names {
			connect(n)
		}
		cl[names[0]].d.Initialize()
		snapshot := func() c15Event {
			ev := c15Event{Op: "Snapshot", Present: map[string]bool{}, Eph: map[string]bool{}, Kids: []string{}}
			for _, k := range c15Keys {
				_, _, owner, ok := srv.NodeInfo("/test/" + k)
				ev.Present[k] = ok
				ev.Eph[k] = ok && owner != 0
			}
			return ev
		}
		emit := func(ev c15Event) {
			if ev.Kids == nil {
				ev.Kids = []string{}
			}
			if ev.Present == nil {
				ev.Present = map[string]bool{}
				ev.Eph = map[string]bool{}
				for _, k := range c15Keys {
					ev.Present[k] = false
					ev.Eph[k] = false
				}
			}
			tr.Events = append(tr.Events, ev)
		}
		for i := 0; i < nOps; i++ {
			c := cl[names[rng.Intn(len(names))]]
			key := c15Keys[rng.Intn(len(c15Keys))]
			sp := c15Spell[key][rng.Intn(len(c15Spell[key]))]
			val := 1 + rng.Intn(2)
			ev := c15Event{Client: c.name, Key: key, Spell: sp, Val: strconv.Itoa(val)}
			// every third operation on a nested key races with "somebody else creates the missing top-level ancestor right
			// after this client has found it missing" (the answer of the client's read is already on its way)
			var race *c15RaceHook
			if strings.Contains(key, "/") && rng.Intn(3) == 0 {
				race = &c15RaceHook{srv: srv, client: c.name, path: "/test/" + key[:strings.IndexByte(key, '/')]}
				srv.Hook = race
			}
			flush := func() {
				if race != nil {
					srv.Hook = nil
					if race.fired {
						emit(c15Event{Client: "tool", Op: "ToolBad", Key: key[:strings.IndexByte(key, '/')], Val: "0"})
					}
				}
			}
			_ = flush
			switch r := rng.Intn(100); {
			case r < 12:
				ev.Op = "Create"
				ev.Res = c15Res(c.d.Create(sp, val))
			case r < 22:
				ev.Op = "CreateEphemeral"
				ev.Res = c15Res(c.d.CreateEphemeral(sp, val))
			case r < 34:
				ev.Op = "Set"
				ev.Res = c15Res(c.d.Set(sp, val))
			case r < 46:
				ev.Op = "SetEphemeral"
				ev.Res = c15Res(c.d.SetEphemeral(sp, val))
			case r < 62:
				ev.Op = "Get"
				var got int
				err := c.d.Get(sp, &got)
				ev.Res = c15Res(err)
				if err == nil {
					ev.Got = strconv.Itoa(got)
				}
			case r < 74:
				ev.Op = "Delete"
				ev.Res = c15Res(c.d.Delete(sp))
			case r < 84:
				ev.Op = "Children"
				kids, err := c.d.GetChildren(sp)
				ev.Res = c15Res(err)
				for _, k := range kids {
					ev.Kids = append(ev.Kids, key+"/"+k)
				}
				sort.Strings(ev.Kids)
			case r < 88:
				ev.Op = "ToolBad"
				ev.Client = "tool"
				for anc := key; strings.Contains(anc, "/"); {
					anc = anc[:strings.LastIndexByte(anc, '/')]
					if oc := srv.OwnerClient("/test/" + anc); oc != "" && oc != "-" {
						key = "c" // the tool cannot create children of an ephemeral node either
						ev.Key = key
						break
					}
				}
				srv.Put("/test/"+key, "{bad")
			case r < 92:
				// server-side expiry of the client's session; the client library opens a new one
				ev.Op = "Expire"
				ev.How = "expire"
				srv.Hook = nil
				race = nil
				srv.ExpireClient(c.name)
				time.Sleep(3 * time.Second)
				synctest.Wait()
			case r < 96:
				// the host is cut off: the record must be gone within the session timeout (3s) plus slack
				ev.Op = "Expire"
				ev.How = "cut"
				srv.Hook = nil
				race = nil
				srv.Cut(c.name)
				time.Sleep(3*time.Second + 200*time.Millisecond)
				synctest.Wait()
				emit(ev)
				emit(snapshot())
				srv.Heal(c.name)
				time.Sleep(4 * time.Second)
				synctest.Wait()
				if !c.d.WaitConnected(10 * time.Second) {
					t.Fatalf("%s: %s did not reconnect", id, c.name)
				}
				continue
			default:
				// the process dies (connection closed without session close is a cut; a clean
				// close ends the session at once) and a new process starts
				ev.Op = "Expire"
				ev.How = "restart"
				srv.Hook = nil
				race = nil
				c.conn.Close()
				time.Sleep(200 * time.Millisecond)
				synctest.Wait()
				emit(ev)
				emit(snapshot())
				connect(c.name)
				continue
			}
			flush()
			emit(ev)
			if ev.Op == "Expire" || rng.Intn(6) == 0 {
				emit(snapshot())
			}
		}
		emit(snapshot())
		for _, c := range cl {
			c.conn.Close()
		}
		time.Sleep(5 * time.Second)
	})
	return tr
}

func TestVerifC15Rows(t *testing.T) {
	out := os.Getenv("VERIF_OUT")
	if out == "" {
		t.Skip("VERIF_OUT not set")
	}
	runs := vEnvInt("VERIF_RUNS", 300)
	nOps := vEnvInt("VERIF_OPS", 40)
	seed := int64(vEnvInt("VERIF_SEED", 1))
	f, err := os.Create(filepath.Join(out, "rows.ndjson"))
	if err != nil {
		t.Fatal(err)
	}
	defer f.Close()
	bw := bufio.NewWriterSize(f, 1<<20)
	defer bw.Flush()
	for i := 0; i < runs; i++ {
		tr := c15Run(t, fmt.Sprintf("h%d.%d", seed, i), seed*1000003+int64(i), nOps)
		b, _ := json.Marshal(tr)
		bw.Write(b)
		bw.WriteByte('\n')
	}
}


// c15RaceHook: right after `client` has been told that `path` does not exist, somebody else creates it.
type c15RaceHook struct {
	srv    *verifsim.ZkServer
	client string
	path   string
	fired  bool
}

func (h *c15RaceHook) BeforeZk(client, op, path string) (int32, bool) { return 0, false }

func (h *c15RaceHook) AfterZk(client, op, path string, code int32) bool {
	if !h.fired && client == h.client && op == "GetData" && path == h.path && code != 0 {
		h.fired = true
		h.srv.Put(h.path, "{bad")
	}
	return false
}
