//go:build verif

package dcs

import (
	"testing"
	"testing/synctest"
	"time"

	"github.com/go-zookeeper/zk"
	"github.com/rs/zerolog"

	"github.com/yandex/mysync/internal/verifsim"
)

func vCfg(host string) *ZookeeperConfig {
	c, _ := DefaultZookeeperConfig()
	c.Hostname = host
	c.Namespace = "/test"
	c.SessionTimeout = 3 * time.Second
	c.LockHeldTTL = 0
	c.BackoffMaxRetries = 2
	c.BackoffInterval = 10 * time.Millisecond
	c.BackoffMaxInterval = 50 * time.Millisecond
	c.BackoffMaxElapsedTime = time.Second
	return &c
}

func TestVerifZkSmoke(t *testing.T) {
	synctest.Test(t, func(t *testing.T) {
		srv := verifsim.NewZkServer()
		var ops []verifsim.ZkOp
		srv.Log = func(op verifsim.ZkOp) { ops = append(ops, op) }
		logger := zerolog.Nop()
		mk := func(name string) (DCS, *zk.Conn) {
			d, conn, err := VerifConnect(srv.Dialer(name), &verifsim.StaticHosts{}, vCfg(name), &logger, func(zk.Event) {})
			if err != nil {
				t.Fatal(err)
			}
			return d, conn
		}
		a, ca := mk("a")
		b, cb := mk("b")
		if !a.WaitConnected(5*time.Second) || !b.WaitConnected(5*time.Second) {
			t.Fatal("not connected")
		}
		a.Initialize()
		if !a.AcquireLock("manager") {
			t.Fatal("a should get the lock")
		}
		if b.AcquireLock("manager") {
			t.Fatal("b must not get the lock")
		}
		if err := a.Set("x/y", 5); err != nil {
			t.Fatal(err)
		}
		var v int
		if err := b.Get("/x//y/", &v); err != nil || v != 5 {
			t.Fatal(err, v)
		}
		if err := b.Create("x/y", 1); err != ErrExists {
			t.Fatal("want ErrExists", err)
		}
		// cut a: session expires after 3s; b takes over
		srv.Cut("a")
		time.Sleep(4 * time.Second)
		synctest.Wait()
		if !b.AcquireLock("manager") {
			t.Fatal("b should take over")
		}
		if a.IsConnected() {
			t.Fatal("a should be disconnected")
		}
		srv.Heal("a")
		time.Sleep(5 * time.Second)
		if !a.IsConnected() {
			t.Fatal("a should reconnect")
		}
		if a.AcquireLock("manager") {
			t.Fatal("a must not hold the lock")
		}
		t.Logf("ops=%d", len(ops))
		ca.Close()
		cb.Close()
		time.Sleep(2 * time.Second)
	})
}
