//go:build verif

package mysql

// C12 binding: enumerate the real quorum helpers and write one row per
// (n, w, semi-sync) to $VERIF_OUT/rows.ndjson; TLC (QuorumRows.tla) judges
// the rows against the property clauses.

import (
	"bufio"
	"encoding/json"
	"fmt"
	"math/rand"
	"os"
	"path/filepath"
	"strconv"
	"testing"

	"github.com/yandex/mysync/internal/config"
)

type quorumRow struct {
	N   int    `json:"n"`
	W   int    `json:"w"`
	SS  bool   `json:"ss"`
	Req int    `json:"req"`
	Q   int    `json:"q"`
	Okp []bool `json:"okp"`
}

func verifEnvInt(name string, def int) int {
	if v, err := strconv.Atoi(os.Getenv(name)); err == nil {
		return v
	}
	return def
}

func TestVerifQuorumRows(t *testing.T) {
	out := os.Getenv("VERIF_OUT")
	if out == "" {
		t.Skip("VERIF_OUT not set")
	}
	maxN := verifEnvInt("VERIF_MAXN", 64)
	maxW := verifEnvInt("VERIF_MAXW", 64)
	nLarge := verifEnvInt("VERIF_LARGE", 200)
	rng := rand.New(rand.NewSource(int64(verifEnvInt("VERIF_SEED", 1))))
	f, err := os.Create(filepath.Join(out, "rows.ndjson"))
	if err != nil {
		t.Fatal(err)
	}
	defer f.Close()
	bw := bufio.NewWriter(f)
	defer bw.Flush()
	enc := json.NewEncoder(bw)
	emit := func(n, w int, ss bool) {
		cfg := &config.Config{RplSemiSyncMasterWaitForSlaveCount: w, SemiSync: ss}
		sh := NewSwitchHelper(cfg)
		list := make([]string, n)
		for i := range list {
			list[i] = fmt.Sprintf("h%d", i)
		}
		row := quorumRow{N: n, W: w, SS: ss, Req: sh.GetRequiredWaitSlaveCount(list), Q: sh.GetFailoverQuorum(list)}
		for p := 0; p <= n+1; p++ {
			row.Okp = append(row.Okp, sh.CheckFailoverQuorum(list, p) == nil)
		}
		if err := enc.Encode(&row); err != nil {
			t.Fatal(err)
		}
	}
	for n := 0; n <= maxN; n++ {
		for w := 0; w <= maxW; w++ {
			emit(n, w, true)
			emit(n, w, false)
		}
	}
	// far beyond any deployable cluster (sampled)
	for i := 0; i < nLarge; i++ {
		n := maxN + 1 + rng.Intn(1500)
		w := rng.Intn(n + 3)
		emit(n, w, rng.Intn(2) == 0)
	}
}
