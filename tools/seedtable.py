#!/usr/bin/env python3
"""Markdown table of the seeded changes and what the checks said (from seeded/*/{meta,confirm,result-*}.json)."""
import glob
import json
import os

rows = []
for d in sorted(glob.glob("/verif/seeded/C??-?")):
    m = json.load(open(os.path.join(d, "meta.json")))
    c = json.load(open(os.path.join(d, "confirm.json"))) if os.path.exists(os.path.join(d, "confirm.json")) else {}
    conf = "demo test (passes on original, fails with patch)" if c.get("confirmed") else "reading the walk-through against the code"
    res = {}
    for f in sorted(glob.glob(os.path.join(d, "result-*.json"))):
        r = json.load(open(f))
        for k, v in r["checks"].items():
            res.setdefault(k, []).append("%s: %s%s" % (r["tier"], "DETECTED " + ",".join(v["clauses"])[:70] if v["exit"] == 1 and v["violations"]
                                                        else ("missed" if v["exit"] == 0 else "exit %s" % v["exit"]),
                                                        " (overlay)" if r.get("via") else ""))
    verdict = "; ".join("%s %s" % (k, " / ".join(v)) for k, v in res.items()) or "not run"
    summ = m.get("summary", "").replace("|", "/").replace("\n", " ")
    rows.append("| %s | %s | %s | %s |" % (os.path.basename(d), summ[:230], conf.split(" (")[0], verdict))
print("| seed | change | confirmed by | checks |\n|---|---|---|---|")
print("\n".join(rows))
