"""Helpers shared by the cluster-level property checks."""
import json
import os
from tools import vlib


def quorum(n, w):
    return max(n - min(n // 2, w), 1)


def good_members(row):
    p = row["p"]
    hp = set(row["hosts"][p]["exec"])
    good = []
    for q in row["l"]:
        h = row["hosts"].get(q)
        if h is None:
            continue
        if (q == p or h["ro"] != "rw") and set(h["exec"]) | set(h["recv"]) | set(h["pend"]) <= hp:
            good.append(q)
    return good


def load_meta(ctx):
    d = getattr(ctx, "last_rows_dir", None)
    meta = {"scenarios": {}, "runs": 0, "bases": 0, "panics": [], "summaries": []}
    p = os.path.join(d, "meta.ndjson")
    if os.path.exists(p):
        for m in vlib.read_ndjson(p):
            if m.get("summary"):
                meta["runs"] += m.get("runs", 0)
                meta["bases"] += m.get("bases", 0)
                meta["summaries"].append(m)
            elif m.get("panics"):
                meta["panics"].append(m)
            elif "scenario" in m:
                meta["scenarios"][m["scn"]] = m["scenario"]
    return meta


def no_panics_or_inconclusive(meta):
    # panics of mysync code are C20's business; they are recorded, not judged here
    return


def fault_class(sc):
    f = (sc or {}).get("fault")
    if not f:
        return "none"
    return "%s:%s" % (f["kind"], f["stmt"])


def promo_signature(row, sc):
    sig = {"kind": row["kind"], "request": (sc or {}).get("req", {}).get("kind"), "fault": fault_class(sc),
           "policy": (sc or {}).get("policy")}
    if row["kind"] == "promo":
        sig["promoted_is_to"] = row.get("to") == row.get("p")
        sig["old_master_up"] = row["hosts"].get(row["master"], {}).get("up")
    return sig


def compact_row(x):
    r = {k: x[k] for k in x if k != "hosts"}
    r["hosts"] = {h: {k: y[k] for k in ("up", "ro", "src", "io", "exec", "recv", "pend")} for h, y in x["hosts"].items()}
    return r


_MC_CACHE = {}


def mc_switchover(ctx, which=None):
    """TLC on the switchover design (spec/Switchover.tla): invariants on the model.
    which: list of config names; a model counterexample is a CANDIDATE only (exit 2)."""
    cfgs = which or (["MC_Switchover.cfg"] if ctx.quick else ["MC_Switchover_thorough.cfg", "MC_Switchover_foreign.cfg"])
    tot = {"configs": [], "distinct": 0, "generated": 0, "depth": 0, "wall_s": 0}
    if os.environ.get("VERIF_SKIP_MC"):   # debugging aid only (never used by registered commands)
        return dict(tot, distinct=1, generated=1, skipped=True)
    for cfg in cfgs:
        r = vlib.tlc(ctx, "MC_Switchover", cfg=cfg, workers=vlib.NCPU, timeout=1200 if ctx.quick else 7200)
        vlib.tlc_must(ctx, r, "MC_Switchover/" + cfg)
        if r.violations:
            raise vlib.Inconclusive("the switchover MODEL violates %s under %s - a candidate counterexample only; the model or "
                                    "the environment spec must be reconciled before it can be cited: %s"
                                    % (r.violations[0]["name"], cfg, json.dumps(r.violations[0]["state"])[:1500]))
        tot["configs"].append({"cfg": cfg, "distinct": r.distinct, "generated": r.generated, "depth": r.depth,
                               "wall_s": round(r.wall, 1)})
        tot["distinct"] += r.distinct
        tot["generated"] += r.generated
        tot["depth"] = max(tot["depth"], r.depth)
        tot["wall_s"] += round(r.wall, 1)
        ctx.log("MC_Switchover %s: %d distinct states, %.0fs" % (cfg, r.distinct, r.wall))
    return tot


def compact_final(x):
    r = {k: x[k] for k in x if k != "hosts"}
    r["hosts"] = {h: {k: y[k] for k in ("up", "ro", "src", "io", "sql", "offline", "exec", "pend")} for h, y in x["hosts"].items()}
    return r
