"""Helpers shared by the cluster-level property checks."""
import json
import os
from tools import vlib


def quorum(n, w):
    return max(n - min(n // 2, w), 1)


def good_members(row):
    p = row["p"]
    hp = set(row["hosts"][p]["exec"])
    good = []
    for q in row["l"]:
        h = row["hosts"].get(q)
        if h is None:
            continue
        if (q == p or h["ro"] != "rw") and set(h["exec"]) | set(h["recv"]) | set(h["pend"]) <= hp:
            good.append(q)
    return good


def load_meta(ctx):
    d = getattr(ctx, "last_rows_dir", None)
    meta = {"scenarios": {}, "runs": 0, "bases": 0, "panics": [], "summaries": []}
    p = os.path.join(d, "meta.ndjson")
    if os.path.exists(p):
        for m in vlib.read_ndjson(p):
            if m.get("summary"):
                meta["runs"] += m.get("runs", 0)
                meta["bases"] += m.get("bases", 0)
                meta["summaries"].append(m)
            elif m.get("panics"):
                meta["panics"].append(m)
            elif "scenario" in m:
                meta["scenarios"][m["scn"]] = m["scenario"]
    return meta


def no_panics_or_inconclusive(meta):
    # panics of mysync code are C20's business; they are recorded, not judged here
    return


def fault_class(sc):
    f = (sc or {}).get("fault")
    if not f:
        return "none"
    return "%s:%s" % (f["kind"], f["stmt"])


def promo_signature(row, sc):
    sig = {"kind": row["kind"], "request": (sc or {}).get("req", {}).get("kind"), "fault": fault_class(sc),
           "policy": (sc or {}).get("policy")}
    if row["kind"] == "promo":
        sig["promoted_is_to"] = row.get("to") == row.get("p")
        sig["old_master_up"] = row["hosts"].get(row["master"], {}).get("up")
    return sig


def compact_row(x):
    r = {k: x[k] for k in x if k != "hosts"}
    r["hosts"] = {h: {k: y[k] for k in ("up", "ro", "src", "io", "exec", "recv", "pend")} for h, y in x["hosts"].items()}
    return r


_MC_CACHE = {}


def mc_switchover(ctx, which=None):
    """TLC on the switchover design (spec/Switchover.tla): invariants on the model.
    which: list of config names; a model counterexample is a CANDIDATE only (exit 2)."""
    thorough = ["MC_Switchover.cfg", "MC_Switchover_mgr.cfg", "MC_Switchover_faults.cfg", "MC_Switchover_foreign.cfg"]
    cfgs = which or (["MC_Switchover.cfg"] if ctx.quick else thorough)
    if "MC_Switchover_thorough.cfg" in cfgs:
        # all three fault budgets at once does not finish within hours (>72 M states after 30 min); the thorough
        # tier runs the pairwise budgets instead; the combined config stays in spec/ for deep runs by hand
        cfgs = thorough
    tot = {"configs": [], "distinct": 0, "generated": 0, "depth": 0, "wall_s": 0}
    if os.environ.get("VERIF_SKIP_MC"):   # debugging aid only (never used by registered commands)
        return dict(tot, distinct=1, generated=1, skipped=True)
    import hashlib
    h = hashlib.sha256()
    for fn in sorted(os.listdir(vlib.SPEC)):
        if fn.endswith(".tla"):
            h.update(open(os.path.join(vlib.SPEC, fn), "rb").read())
    cdir = os.path.join(os.path.dirname(vlib.SPEC), "out", ".mc-cache")
    os.makedirs(cdir, exist_ok=True)
    for cfg in cfgs:
        # the model does not depend on /repo: an exhaustive pass is reused while the specifications are unchanged
        key = hashlib.sha256(h.digest() + open(os.path.join(vlib.SPEC, cfg), "rb").read()).hexdigest()[:24]
        cpath = os.path.join(cdir, "%s-%s.json" % (cfg, key))
        if os.path.exists(cpath) and not os.environ.get("VERIF_NO_MC_CACHE"):
            c = json.load(open(cpath))
            c["cached"] = True
        else:
            r = vlib.tlc(ctx, "MC_Switchover", cfg=cfg, workers=vlib.NCPU, timeout=1200 if ctx.quick else 7200)
            vlib.tlc_must(ctx, r, "MC_Switchover/" + cfg)
            if r.violations:
                raise vlib.Inconclusive("the switchover MODEL violates %s under %s - a candidate counterexample only; the model or "
                                        "the environment spec must be reconciled before it can be cited: %s"
                                        % (r.violations[0]["name"], cfg, json.dumps(r.violations[0]["state"])[:1500]))
            c = {"cfg": cfg, "distinct": r.distinct, "generated": r.generated, "depth": r.depth, "wall_s": round(r.wall, 1)}
            json.dump(c, open(cpath, "w"))
        tot["configs"].append(c)
        tot["distinct"] += c["distinct"]
        tot["generated"] += c["generated"]
        tot["depth"] = max(tot["depth"], c["depth"])
        tot["wall_s"] += c["wall_s"]
        ctx.log("MC_Switchover %s: %d distinct states, %.0fs%s" % (cfg, c["distinct"], c["wall_s"], " (cached)" if c.get("cached") else ""))
    return tot


def compact_final(x):
    r = {k: x[k] for k in x if k != "hosts"}
    r["hosts"] = {h: {k: y[k] for k in ("up", "ro", "src", "io", "sql", "offline", "exec", "pend")} for h, y in x["hosts"].items()}
    return r


def skeleton_rows(ctx, rows):
    """Every switchover activation of the real manager (rows of kind "skel": classes of its successful mutating calls in
    order) must be a walk through the control skeleton that Switchover.tla implements (SwitchSkel.tla, SkelOrder).
    A rejected walk is DRIFT between the model and the code - logged and counted, not a verdict on a listed property."""
    sk = [x for x in rows if x.get("kind") == "skel"]
    if not sk:
        return {"activations": 0, "distinct_walks": 0, "rejected": 0}
    fails, agg = vlib.judge_rows(ctx, sk, "SwitchSkelRows", cfg="SwitchSkelRows.cfg", chunk=3000, par=8)
    shown = set()
    for name, i, row in fails:
        walk = ",".join(c for c in row["seq"] if not c.startswith("aux:"))
        if walk not in shown and len(shown) < 5:
            shown.add(walk)
            ctx.log("MODEL-DRIFT %s: the calls of a switchover activation of %s are not a walk through the skeleton of "
                    "Switchover.tla: %s (scenario %s)" % (name, row["by"], walk, row["scn"]))
    return {"activations": sum(x["count"] for x in sk), "distinct_walks": len({",".join(x["seq"]) for x in sk}),
            "complete_walks": sum(x["count"] for x in sk if x["seq"] and x["seq"][-1] == "finish" and "master" in x["seq"]),
            "rejected": len(fails)}


def mc_liveness(ctx):
    """Temporal form of C06's bound: under weak fairness of the manager's actions a planned request is eventually removed
    (Switchover.tla LiveSpec / C06_PlannedResolved), with failures, and in the thorough tier manager crashes, within budgets.
    Exhaustive results are reused while the specifications are unchanged."""
    import hashlib
    cfg = "MC_Switchover_live_quick.cfg" if ctx.quick else "MC_Switchover_live.cfg"
    h = hashlib.sha256()
    for fn in sorted(os.listdir(vlib.SPEC)):
        if fn.endswith(".tla"):
            h.update(open(os.path.join(vlib.SPEC, fn), "rb").read())
    cdir = os.path.join(os.path.dirname(vlib.SPEC), "out", ".mc-cache")
    os.makedirs(cdir, exist_ok=True)
    key = hashlib.sha256(h.digest() + open(os.path.join(vlib.SPEC, cfg), "rb").read()).hexdigest()[:24]
    cpath = os.path.join(cdir, "%s-%s.json" % (cfg, key))
    if os.path.exists(cpath) and not os.environ.get("VERIF_NO_MC_CACHE"):
        c = json.load(open(cpath))
        c["cached"] = True
    else:
        r = vlib.tlc(ctx, "MC_Switchover", cfg=cfg, workers=8, timeout=1200 if ctx.quick else 7200)
        vlib.tlc_must(ctx, r, "MC_Switchover/" + cfg)
        if r.violations or "Temporal properties were violated" in r.out:
            raise vlib.Inconclusive("the switchover MODEL violates the liveness property C06_PlannedResolved under %s - a candidate "
                                    "counterexample only (model or fairness assumption to be reconciled)" % cfg)
        if "No error has been found" not in r.out:
            raise vlib.Inconclusive("liveness check under %s did not complete: %s" % (cfg, r.out[-600:]))
        c = {"cfg": cfg, "distinct": r.distinct, "generated": r.generated, "wall_s": round(r.wall, 1), "property": "C06_PlannedResolved"}
        json.dump(c, open(cpath, "w"))
    ctx.log("liveness %s: C06_PlannedResolved holds on %d distinct states%s" % (cfg, c["distinct"], " (cached)" if c.get("cached") else ""))
    return c
