#!/usr/bin/env python3
"""Setup-time self tests: the harness builds against /repo and the binding has teeth
(corrupted rows / traces are rejected by the trace specifications)."""
import json
import os
import sys

sys.path.insert(0, os.path.dirname(os.path.dirname(os.path.abspath(__file__))))
from tools import vlib  # noqa: E402


def main():
    ctx = vlib.Ctx("SELFTEST", "quick", 1)
    # 1. warm build of every injected package
    for pkg in ("internal/mysql", "internal/mysql/gtids", "internal/app", "internal/dcs"):
        inj = os.path.join(vlib.HARNESS, "inject", pkg)
        if os.path.isdir(inj) and any(f.endswith(".go") for f in os.listdir(inj)):
            vlib.go_test_build(ctx, pkg)
            print("built harness for", pkg)
    # 2. binding teeth: a corrupted C12 row must be rejected by QuorumRows
    bad = [{"n": 4, "w": 1, "ss": True, "req": 1, "q": 2, "okp": [False, False, True, True, True, True]}]
    r = vlib.tlc(ctx, "QuorumRows", files={"rows.ndjson": "\n".join(json.dumps(x) for x in bad) + "\n"}, cont=True, workers=1)
    names = {v["name"] for v in r.violations}
    if "C12_Intersect" not in names or "C12_AcceptSafe" not in names:
        print("SELFTEST FAILED: corrupted quorum row accepted", names, r.out[-500:])
        return 1
    # 3. a coordination history whose logged result contradicts the contract must be rejected by DcsTrace
    blank = {"client": "p", "spell": "", "val": "1", "got": "", "kids": [], "how": "",
             "present": {k: False for k in ("a", "a/b", "c", "d", "d/e", "d/e/f")},
             "eph": {k: False for k in ("a", "a/b", "c", "d", "d/e", "d/e/f")}}
    hist = {"id": "selftest", "events": [dict(blank, op="Create", key="a", res="ok"),
                                          dict(blank, op="Create", key="a", res="ok")]}   # second create must say "exists"
    r = vlib.tlc(ctx, "DcsTrace", files={"rows.ndjson": json.dumps(hist) + "\n"}, cont=True, workers=1)
    if not any("C15_Contract" in v["name"] for v in r.violations):
        print("SELFTEST FAILED: corrupted coordination history accepted", r.out[-500:])
        return 1
    # 4. a lock history in which a client is told "held" while another owns the node must be rejected by LockTrace
    ev = {"t": 0, "op": "Acquire", "client": "p", "res": True, "wire": False, "owner": "q", "preowner": "", "nested": False, "arg": ""}
    r = vlib.tlc(ctx, "LockTrace", files={"rows.ndjson": json.dumps({"id": "selftest", "events": [ev]}) + "\n"}, cont=True, workers=1)
    if not any("C03_Layer" in v["name"] for v in r.violations):
        print("SELFTEST FAILED: corrupted lock history accepted", r.out[-500:])
        return 1
    print("selftest ok")
    return 0


if __name__ == "__main__":
    try:
        sys.exit(main())
    except vlib.Inconclusive as e:
        print("SELFTEST FAILED:", e)
        sys.exit(1)
