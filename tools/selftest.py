#!/usr/bin/env python3
"""Setup-time self tests: the harness builds against /repo and the binding has teeth
(corrupted rows / traces are rejected by the trace specifications)."""
import json
import os
import sys

sys.path.insert(0, os.path.dirname(os.path.dirname(os.path.abspath(__file__))))
from tools import vlib  # noqa: E402


def main():
    ctx = vlib.Ctx("SELFTEST", "quick", 1)
    # 1. warm build of every injected package
    for pkg in ("internal/mysql", "internal/mysql/gtids", "internal/app", "internal/dcs"):
        inj = os.path.join(vlib.HARNESS, "inject", pkg)
        if os.path.isdir(inj) and any(f.endswith(".go") for f in os.listdir(inj)):
            vlib.go_test_build(ctx, pkg)
            print("built harness for", pkg)
    # 2. binding teeth: a corrupted C12 row must be rejected by QuorumRows
    bad = [{"n": 4, "w": 1, "ss": True, "req": 1, "q": 2, "okp": [False, False, True, True, True, True]}]
    r = vlib.tlc(ctx, "QuorumRows", files={"rows.ndjson": "\n".join(json.dumps(x) for x in bad) + "\n"}, cont=True, workers=1)
    names = {v["name"] for v in r.violations}
    if "C12_Intersect" not in names or "C12_AcceptSafe" not in names:
        print("SELFTEST FAILED: corrupted quorum row accepted", names, r.out[-500:])
        return 1
    print("selftest ok")
    return 0


if __name__ == "__main__":
    try:
        sys.exit(main())
    except vlib.Inconclusive as e:
        print("SELFTEST FAILED:", e)
        sys.exit(1)
