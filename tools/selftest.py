#!/usr/bin/env python3
"""Setup-time self tests: the harness builds against /repo and the binding has teeth
(corrupted rows / traces are rejected by the trace specifications)."""
import json
import os
import sys

sys.path.insert(0, os.path.dirname(os.path.dirname(os.path.abspath(__file__))))
from tools import vlib  # noqa: E402


def main():
    ctx = vlib.Ctx("SELFTEST", "quick", 1)
    # 1. warm build of every injected package
    for pkg in ("internal/mysql", "internal/mysql/gtids", "internal/app", "internal/dcs"):
        inj = os.path.join(vlib.HARNESS, "inject", pkg)
        if os.path.isdir(inj) and any(f.endswith(".go") for f in os.listdir(inj)):
            vlib.go_test_build(ctx, pkg)
            print("built harness for", pkg)
    # 2. binding teeth: a corrupted C12 row must be rejected by QuorumRows
    bad = [{"n": 4, "w": 1, "ss": True, "req": 1, "q": 2, "okp": [False, False, True, True, True, True]}]
    r = vlib.tlc(ctx, "QuorumRows", files={"rows.ndjson": "\n".join(json.dumps(x) for x in bad) + "\n"}, cont=True, workers=1)
    names = {v["name"] for v in r.violations}
    if "C12_Intersect" not in names or "C12_AcceptSafe" not in names:
        print("SELFTEST FAILED: corrupted quorum row accepted", names, r.out[-500:])
        return 1
    # 3. a coordination history whose logged result contradicts the contract must be rejected by DcsTrace
    blank = {"client": "p", "spell": "", "val": "1", "got": "", "kids": [], "how": "",
             "present": {k: False for k in ("a", "a/b", "c", "d", "d/e", "d/e/f")},
             "eph": {k: False for k in ("a", "a/b", "c", "d", "d/e", "d/e/f")}}
    hist = {"id": "selftest", "events": [dict(blank, op="Create", key="a", res="ok"),
                                          dict(blank, op="Create", key="a", res="ok")]}   # second create must say "exists"
    r = vlib.tlc(ctx, "DcsTrace", files={"rows.ndjson": json.dumps(hist) + "\n"}, cont=True, workers=1)
    if not any("C15_Contract" in v["name"] for v in r.violations):
        print("SELFTEST FAILED: corrupted coordination history accepted", r.out[-500:])
        return 1
    # 4. a lock history in which a client is told "held" while another owns the node must be rejected by LockTrace
    ev = {"t": 0, "op": "Acquire", "client": "p", "res": True, "wire": False, "owner": "q", "preowner": "", "nested": False, "arg": ""}
    r = vlib.tlc(ctx, "LockTrace", files={"rows.ndjson": json.dumps({"id": "selftest", "events": [ev]}) + "\n"}, cont=True, workers=1)
    if not any("C03_Layer" in v["name"] for v in r.violations):
        print("SELFTEST FAILED: corrupted lock history accepted", r.out[-500:])
        return 1
    # 5. activation rows: a genuine one is accepted, corrupted ones (candidate becomes manager after "not held"; a manager
    #    that asked although its timer forbids asking; a timer that appears from nowhere) are rejected by DaemonRows
    good = {"kind": "mode", "scn": "selftest", "by": "h2", "state": "Candidate", "next": "Manager", "locks": [True], "released": False,
            "zk": 3, "maint": {"st": "absent", "paused": False, "leave": False, "light": False}, "mfile": False, "mgrsw": True,
            "lq0": -1, "lq1": -1, "t0": 1000, "t1": 1000, "ed": 30000, "ad": 45000, "ended": "exit", "owner": "h2", "count": 1}
    bad1 = dict(good, locks=[False])
    bad2 = dict(good, state="Manager", next="Manager", lq0=1000, lq1=1000, t0=40000, t1=40000)
    bad3 = dict(good, state="Candidate", next="Candidate", locks=[False], lq1=900)
    r = vlib.tlc(ctx, "DaemonRows", cfg="DaemonRows.cfg", files={"rows.ndjson": "".join(json.dumps(x) + "\n" for x in (good, bad1, bad2, bad3))},
                 cont=True, workers=1)
    got = {(v["name"], int(v["state"]["i"])) for v in r.violations}
    want = {("C03_ManagerModeNeedsLock", 2), ("Conf_Mode", 2), ("Conf_Mode", 3), ("Conf_Timer", 4)}
    if any(i == 1 for _, i in got) or not want <= got:
        print("SELFTEST FAILED: activation rows misjudged by DaemonRows", sorted(got), r.out[-500:])
        return 1
    # 6. control skeleton: the walk of a real promotion is accepted, one that records the master before making it
    #    writable is rejected by SwitchSkelRows
    walk = ["aux:optnodes", "ro", "ro", "stopio", "stopio", "online", "stoprep", "changesrc", "startrep", "active", "recovery",
            "stoprep", "resetall", "semisync", "stopio", "startio", "active", "writable", "aux:timing", "master", "finish", "finish"]
    bad = [c for c in walk if c != "master"]
    bad.insert(bad.index("writable"), "master")
    rows_ = [{"kind": "skel", "scn": "selftest", "by": "h2", "seq": w_, "ended": "exit", "count": 1} for w_ in (walk, bad)]
    r = vlib.tlc(ctx, "SwitchSkelRows", cfg="SwitchSkelRows.cfg", files={"rows.ndjson": "".join(json.dumps(x) + "\n" for x in rows_)},
                 cont=True, workers=1)
    got = {int(v["state"]["i"]) for v in r.violations if v["name"] == "Skel_Order"}
    if got != {2}:
        print("SELFTEST FAILED: skeleton walks misjudged", got, r.out[-500:])
        return 1
    print("selftest ok")
    return 0


if __name__ == "__main__":
    try:
        sys.exit(main())
    except vlib.Inconclusive as e:
        print("SELFTEST FAILED:", e)
        sys.exit(1)
