#!/usr/bin/env python3
"""Markdown table of what the last run of every check covered (from evidence/*.json)."""
import glob
import json
import os
print("| id | tier | wall s | model states | real runs / traces | evaluations | distinct non-trivial | known findings seen |")
print("|---|---|---|---|---|---|---|---|")
for f in sorted(glob.glob("/verif/evidence/C??.json")):
    e = json.load(open(f))
    c = e["coverage"]
    print("| %s | %s | %.0f | %s | %s | %s | %s | %s |" % (e["property_id"], e["tier"], e["wall_s"], c.get("states", "-"),
          c.get("traces_validated_against_impl", "-"), c.get("evaluations", "-"), c.get("distinct_nontrivial", "-"),
          c.get("known_findings_seen", 0)))
