#!/usr/bin/env python3
"""Confirm a seeded change independently of the checks: in a scratch worktree of /repo, the seed's own
demonstration test must pass on the original tree and fail with the patch.  usage: seedconfirm.py <seeded dir>..."""
import glob
import json
import os
import re
import subprocess
import sys

PKG = {"app": "internal/app", "dcs": "internal/dcs", "mysql": "internal/mysql", "gtids": "internal/mysql/gtids",
       "optimization": "internal/app/optimization", "app_dcs": "internal/app/dcs", "dcs_test": "internal/app/dcs", "resetup": "internal/app/resetup", "util": "internal/util", "nodestate": "internal/app/node_state", "node_state": "internal/app/node_state"}
WT = "/tmp/confirm-wt"
ENV = dict(os.environ, GOFLAGS="-mod=mod", GOPROXY="off", GOTOOLCHAIN="auto")


def sh(cmd, cwd=None, timeout=1800):
    p = subprocess.run(cmd, cwd=cwd, shell=True, stdout=subprocess.PIPE, stderr=subprocess.STDOUT, text=True, errors="replace",
                       timeout=timeout, env=ENV)
    return p.returncode, p.stdout


def main():
    sh("git -C /repo worktree remove --force %s; git -C /repo worktree add --detach %s HEAD" % (WT, WT))
    try:
        for d in sys.argv[1:]:
            d = os.path.abspath(d)
            n = os.path.basename(d).split("-")[1]
            mt = json.load(open(os.path.join(d, "meta.json")))
            n = str(mt.get("slot", n))   # which of the agent's two deliverables this seed was (demo file naming)
            tests = sorted(glob.glob(os.path.join(d, "*_test.go.txt")))
            # the seed's own demo (demo_test / demoN_test) plus shared helpers (files without Test functions)
            res = {"seed": os.path.basename(d)}
            mine, helpers = [], []
            for t in tests:
                src = open(t).read()
                b = os.path.basename(t)
                has_tests = re.search(r"^func Test", src, re.M)
                if not has_tests:
                    helpers.append(t)
                elif (n == "2") == bool(re.search(r"2_test", b)):
                    mine.append(t)
            if not mine:
                # one demonstration file shared by both seeds of the property
                mine = [t for t in tests if re.search(r"^func Test", open(t).read(), re.M)][:1]
            if not mine:
                res["demo"] = "none (written walk-through only)"
            else:
                src = open(mine[0]).read()
                pkg = PKG.get(re.search(r"^package (\w+)", src, re.M).group(1))
                names = re.findall(r"^func (Test\w+)", src, re.M)
                race = "-race " if "C20-2" in d else ""
                out = {}
                for state in ("original", "patched"):
                    sh("git checkout -- . && git clean -fdq", cwd=WT)
                    if state == "patched":
                        rc, o = sh("git apply --whitespace=nowarn %s || patch -p1 --fuzz=3 --no-backup-if-mismatch < %s"
                                   % (os.path.join(d, "patch.diff"), os.path.join(d, "patch.diff")), cwd=WT)
                        if rc != 0:
                            out[state] = "patch does not apply"
                            continue
                    extra = [t for t in tests if t not in mine and t not in helpers] if ("C11-2" in d or mt.get("shared_demo_files")) else []
                    for t in mine + helpers + extra:
                        dst = os.path.join(WT, pkg, "zzconfirm_" + os.path.basename(t)[:-4])
                        open(dst, "w").write(open(t).read())
                    rc, o = sh("go test %s-vet=off -count=1 -run '^(%s)$' ./%s" % (race, "|".join(names), pkg), cwd=WT)
                    out[state] = "pass" if rc == 0 else ("FAIL" if "--- FAIL" in o or "FAIL" in o else "error")
                    if rc != 0 and state == "original":
                        out["original_output"] = o[-800:]
                if out.get("original") == "pass" and out.get("patched") == "pass":
                    # the only test file demonstrates the other seed of this property
                    res["demo"] = "none (written walk-through only)"
                else:
                    res["demo"] = out
                    res["confirmed"] = out.get("original") == "pass" and out.get("patched") == "FAIL"
            json.dump(res, open(os.path.join(d, "confirm.json"), "w"), indent=1)
            print(json.dumps(res)[:300])
    finally:
        sh("git -C /repo worktree remove --force %s; git -C /repo worktree prune" % WT)


if __name__ == "__main__":
    main()
