import sys, json, time, os, collections
sys.path.insert(0,'/verif')
from tools import vlib, cluster
test, module, runs = sys.argv[1], sys.argv[2], sys.argv[3]
cfg = sys.argv[4] if len(sys.argv)>4 else None
ctx=vlib.Ctx("T","quick",int(os.environ.get("VERIF_SEED","1")))
t=time.time()
rows,fails,agg=vlib.rows_check(ctx,"internal/app","^%s$"%test,module,env=dict({"VERIF_RUNS":runs}, **{k:v for k,v in os.environ.items() if k.startswith("VERIF_") and k not in ("VERIF_SEED",)}),timeout=1500,shards=16, chunk=1500, par=8, cfg=cfg)
print(len(rows), agg.distinct, round(time.time()-t,1))
print('crashes', [(c['scenario']['id'], c['panic'][:80], c['frames'][:2]) for c in getattr(ctx,'crashes',[])])
meta=cluster.load_meta(ctx); print('runs',meta['runs'], 'stragglers', sum(m.get('stragglers',0) for m in meta['summaries']))
c=collections.Counter(f[0] for f in fails)
print(c)
print(collections.Counter(r['kind'] for r in rows))
seen=collections.Counter()
import shutil
shutil.rmtree('/tmp/dbgrows',ignore_errors=True); os.makedirs('/tmp/dbgrows')
json.dump(rows, open('/tmp/dbgrows/rows.json','w'))
json.dump({"fails":[(n,i,r) for n,i,r in fails], "scenarios":meta['scenarios']}, open('/tmp/dbgrows/fails.json','w'))
for name,i,row in fails:
    seen[name]+=1
    if seen[name]>int(os.environ.get("SHOW","3")): continue
    if row['kind']=='final':
        print(name, row['scn'], 'master',row['tree']['master'], 'switch?',bool(row['tree']['switch']), 'states',row['states'], 'acked',row['acked'][-2:], row['ackviol'], 'rec',row['tree']['recovery'], 'act', row['tree']['active'])
        for h,x in row['hosts'].items(): print('   ',h, x['up'], x['ro'], 'src',x['src'], x['io'], x['sql'], 'off' if x['offline'] else '', x['exec'][-2:])
    else:
        print(name, json.dumps({k:v for k,v in row.items() if k!='hosts'})[:400])
