"""The mode machine of the daemon (spec/DaemonModes.tla, Daemon.tla, DaemonGen.tla, DaemonRows.tla):
model checking, behaviour generation, replay into the real daemons, judging of activation rows."""
import hashlib
import json
import os
import re
from tools import vlib

BEH = re.compile(r'<<"BEHAVIOUR", "(.*)">>\s*$')


def mc_daemon(ctx):
    """TLC on Daemon.tla; exhaustive results are reused while the specifications are unchanged."""
    h = hashlib.sha256()
    for fn in sorted(os.listdir(vlib.SPEC)):
        if fn.startswith("Daemon") and fn.endswith(".tla"):
            h.update(open(os.path.join(vlib.SPEC, fn), "rb").read())
    cdir = os.path.join(os.path.dirname(vlib.SPEC), "out", ".mc-cache")
    os.makedirs(cdir, exist_ok=True)
    res = {}
    for role, cfg in (("main", "MC_Daemon.cfg" if ctx.quick else "MC_Daemon_thorough.cfg"), ("idle", "MC_Daemon_idle.cfg")):
        key = hashlib.sha256(h.digest() + open(os.path.join(vlib.SPEC, cfg), "rb").read()).hexdigest()[:24]
        cpath = os.path.join(cdir, "%s-%s.json" % (cfg, key))
        if os.path.exists(cpath) and not os.environ.get("VERIF_NO_MC_CACHE"):
            c = json.load(open(cpath))
            c["cached"] = True
        else:
            r = vlib.tlc(ctx, "Daemon", cfg=cfg, workers=8, timeout=1200 if ctx.quick else 7200)
            vlib.tlc_must(ctx, r, "Daemon/" + cfg)
            c = {"cfg": cfg, "distinct": r.distinct, "generated": r.generated, "violations": [x["name"] for x in r.violations]}
            json.dump(c, open(cpath, "w"))
        res[role] = c
    if res["main"]["violations"]:
        raise vlib.Inconclusive("Daemon.tla violates its own properties (model counterexample, not a verdict): %s"
                                % res["main"]["violations"][:1])
    ctx.log("Daemon.tla: %d distinct states%s; the model exhibits the hand-over observation (lock owner idles as candidate): %s"
            % (res["main"]["distinct"], " (cached)" if res["main"].get("cached") else "", bool(res["idle"]["violations"])))
    return {"model_states": res["main"]["distinct"], "model_transitions": res["main"]["generated"],
            "model_exhibits_idle_owner": bool(res["idle"]["violations"])}


def mode_rows(ctx, v, modes, scenarios, prefix):
    """Judge activation rows with DaemonRows.tla; clauses starting with `prefix` are violations of the calling
    property, Conf_* clauses are counted as drift between model and code (logged, not a verdict)."""
    if not modes:
        return {"rows": 0, "activations": 0, "drift": 0, "transitions": []}
    fails, agg = vlib.judge_rows(ctx, modes, "DaemonRows", cfg="DaemonRows.cfg", chunk=4000, par=8)
    drift = []
    for name, i, row in fails:
        if name.startswith("Conf_"):
            drift.append((name, row))
            continue
        if not name.startswith(prefix):
            continue
        sc = scenarios.get(row.get("scn"))
        v.fail(name, {"layer": "mode", "state": row["state"], "next": row["next"]},
               "%s: activation of %s in mode %s returned %s (lock answers %s, released=%s, maintenance record %s) (scenario %s)"
               % (name, row["by"], row["state"], row["next"], row["locks"], row["released"], row["maint"], row["scn"]),
               {"scenario": sc, "row": row,
                "how": "VERIF_SCENARIO=<scenario json> go test -run TestVerifReplay ./internal/app (overlay); hand-over scripts: "
                       "VERIF_BEHAVIOURS=<file with the script> go test -run TestVerifHandover ./internal/app"})
    for name, row in drift[:5]:
        ctx.log("MODEL-DRIFT %s: %s" % (name, json.dumps(row)[:600]))
    return {"rows": len(modes), "activations": sum(m["count"] for m in modes), "drift": len(drift),
            "transitions": sorted({m["state"] + ">" + m["next"] for m in modes})}


def handover(ctx, v, prefix):
    """Scripts for the real daemons with manager_switchover on: behaviours of Daemon.tla printed by TLC plus the
    hand-written boundary scripts of the driver; every activation is judged by DaemonRows.tla."""
    nsim = 40 if ctx.quick else 6000
    r = vlib.tlc_must(ctx, vlib.tlc(ctx, "DaemonGen", cfg="DaemonGen.cfg", workers=1, timeout=3000, simulate="num=%d" % nsim,
                                    depth=30, seed=ctx.seed), "DaemonGen")
    seen, beh = set(), []
    for ln in r.out.splitlines():
        m = BEH.search(ln)
        if m:
            b = json.loads(m.group(1).replace('\\"', '"'))
            k = json.dumps(b[:-1])
            if k not in seen:
                seen.add(k)
                beh.append(b)
    if not beh:
        raise vlib.Inconclusive("TLC exported no behaviours of Daemon.tla")
    bf = os.path.join(ctx.sub("daemon-beh"), "behaviours.ndjson")
    with open(bf, "w") as f:
        for b in beh:
            f.write(json.dumps(b) + "\n")
    rows, fails, agg = vlib.rows_check(ctx, "internal/app", "^TestVerifHandover$", "DaemonRows", env={"VERIF_BEHAVIOURS": bf},
                                       timeout=7000, shards=16, chunk=4000, par=8, cfg="DaemonRows.cfg")
    scenarios = {}
    mp = os.path.join(ctx.last_rows_dir, "meta.ndjson")
    for d in [ctx.last_rows_dir] + [os.path.join(ctx.last_rows_dir, x) for x in sorted(os.listdir(ctx.last_rows_dir)) if x.startswith("shard-")]:
        mp = os.path.join(d, "meta.ndjson")
        if os.path.exists(mp):
            for m in vlib.read_ndjson(mp):
                if m.get("scn"):
                    scenarios[m["scn"]] = m.get("scenario")
    drift = 0
    for name, i, row in fails:
        if name.startswith("Conf_"):
            drift += 1
            if drift <= 5:
                ctx.log("MODEL-DRIFT %s: %s" % (name, json.dumps(row)[:600]))
            continue
        if not name.startswith(prefix):
            continue
        sc = scenarios.get(row.get("scn"))
        v.fail(name, {"layer": "mode", "state": row["state"], "next": row["next"]},
               "%s: activation of %s in mode %s returned %s (lock answers %s, released=%s, timer %s at %s..%s) (script %s)"
               % (name, row["by"], row["state"], row["next"], row["locks"], row["released"], row["lq0"], row["t0"], row["t1"], row["scn"]),
               {"scenario": sc, "row": row,
                "how": "VERIF_BEHAVIOURS=<file with scenario.extra on one line> go test -run TestVerifHandover ./internal/app (overlay)"})
    modes = [x for x in rows if x["kind"] == "mode"]
    idle = [x for x in rows if x["kind"] == "idle"]
    panics = [x for x in rows if x["kind"] == "panic"]
    if panics:
        ctx.log("NOTE: %d hand-over scripts ended with a recovered panic: %s" % (len(panics), panics[0]["site"][:200]))
    if idle:
        worst = max(idle, key=lambda x: x["maxms"])
        ctx.log("OBSERVATION (outside the listed properties): in %d of %d hand-over scripts the REAL daemon that owns the manager lock "
                "sat in candidate mode (nobody managing) for up to %d ms - App.AcquireLock refuses silently before checkQuorum "
                "can release the lock (Daemon.tla NoIdleOwner; DESIGN.md 11)" % (len({x["scn"] for x in idle}), len(scenarios), worst["maxms"]))
    return {"scripts": len(scenarios), "tlc_behaviours": len(beh), "rows": len(modes),
            "activations": sum(m["count"] for m in modes), "drift": drift,
            "voluntary_releases": sum(m["count"] for m in modes if m["released"]),
            "silent_refusals": sum(m["count"] for m in modes if m["state"] == "Manager" and m["next"] == "Candidate" and not m["locks"]),
            "transitions": sorted({m["state"] + ">" + m["next"] for m in modes}),
            "scripts_with_idle_owner": len({x["scn"] for x in idle}),
            "longest_idle_owner_ms": max([x["maxms"] for x in idle] or [0])}
