#!/usr/bin/env python3
"""Apply one seeded change to /repo, confirm it builds and passes the pinned tests, run the
check(s) of its property against it, undo it.  usage: seedeval.py <seeded dir> [--checks C01,C02] [--tier quick]"""
import json
import os
import subprocess
import sys
import time

REPO = "/repo"


def sh(cmd, cwd=None, timeout=3600, env=None):
    p = subprocess.run(cmd, cwd=cwd, shell=True, stdout=subprocess.PIPE, stderr=subprocess.STDOUT, text=True,
                       errors="replace", timeout=timeout, env=env)
    return p.returncode, p.stdout


def main():
    d = os.path.abspath(sys.argv[1])
    meta = json.load(open(os.path.join(d, "meta.json")))
    checks = [meta["property"]]
    tier = "quick"
    skiptests = "--skip-tests" in sys.argv
    for i, a in enumerate(sys.argv):
        if a == "--checks":
            checks = sys.argv[i + 1].split(",")
        if a == "--tier":
            tier = sys.argv[i + 1]
    rc, o = sh("git status --porcelain", cwd=REPO)
    if o.strip():
        print("repo not clean:\n" + o)
        sys.exit(2)
    patch = os.path.join(d, "patch.diff")
    rc, o = sh("git apply --whitespace=nowarn %s" % patch, cwd=REPO)
    if rc != 0:
        rc, o2 = sh("git apply --whitespace=nowarn -C1 %s" % patch, cwd=REPO)
        if rc != 0:
            rc, o3 = sh("patch -p1 --fuzz=3 --no-backup-if-mismatch < %s" % patch, cwd=REPO)
            if rc != 0:
                sh("git checkout -- . && git clean -fdq", cwd=REPO)
                print("patch does not apply:\n" + o + o2 + o3)
                sys.exit(2)
    res = {"seed": os.path.basename(d), "property": meta["property"], "tier": tier, "checks": {}}
    try:
        env = dict(os.environ, GOFLAGS="-mod=mod", GOPROXY="off", GOTOOLCHAIN="auto")
        rc, o = sh("go build ./...", cwd=REPO, env=env)
        res["builds"] = rc == 0
        if rc != 0:
            print("does not build:\n" + o[-2000:])
        elif not skiptests:
            rc, o = sh("go test -vet=off -count=1 ./internal/... ./cmd/... 2>&1 | grep -v 'no test files'", cwd=REPO, env=env)
            res["tests_pass"] = "FAIL" not in o
            if not res["tests_pass"]:
                print("pinned tests fail:\n" + o[-2000:])
        if res.get("builds"):
            for c in checks:
                t0 = time.time()
                rc, o = sh("./check %s --tier %s" % (c, tier), cwd="/verif", timeout=6 * 3600)
                viol = [ln for ln in o.splitlines() if ln.startswith("VIOLATION")]
                clauses = sorted({ln.split("clause=")[1].split(" ")[0] for ln in o.splitlines() if "clause=" in ln})
                res["checks"][c] = {"exit": rc, "violations": len(viol), "clauses": clauses, "wall_s": round(time.time() - t0, 1),
                                    "tail": o.splitlines()[-1][:200] if o.splitlines() else ""}
                print("%s on %s: exit=%d violations=%d clauses=%s (%.0fs)" % (c, res["seed"], rc, len(viol), clauses, time.time() - t0))
    finally:
        sh("git checkout -- . && git clean -fdq", cwd=REPO)
    res["detected"] = any(v["exit"] == 1 and v["violations"] > 0 for v in res["checks"].values())
    json.dump(res, open(os.path.join(d, "result-%s.json" % tier), "w"), indent=1)
    print("DETECTED" if res["detected"] else "MISSED", res["seed"])


if __name__ == "__main__":
    main()
