import sys, json, time, os, collections, re
sys.path.insert(0,'/verif')
from tools import vlib
test, shard, runs, tmo = sys.argv[1], sys.argv[2], sys.argv[3], int(sys.argv[4])
ctx=vlib.Ctx("T","quick",1)
out=ctx.sub("o")
rc,o=vlib.go_test(ctx,"internal/app","^%s$"%test,env={"VERIF_OUT":out,"VERIF_RUNS":runs,"VERIF_SHARD":shard}, timeout=tmo)
print("rc",rc)
if rc!=0:
    blocks=o.split('\n\n')
    print(blocks[0][:1500])
    for b in blocks:
        first=b.split('\n')[0]
        if 'synctest bubble' in first and 'durable' not in first:
            print(b[:2500]); print('----')
    for b in blocks:
        if ('vRun.func1(' in b or 'tickBody' in b):
            print(b[:1800]); print('----')
try:
    meta=vlib.read_ndjson(out+"/meta.ndjson")
    print(json.dumps(meta[-1])[:1500])
except Exception as e: print(e)
