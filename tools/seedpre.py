#!/usr/bin/env python3
"""Pre-screen a seeded change WITHOUT touching /repo (development aid; the results that count come from seedeval.py):
the patch is applied in a scratch worktree, the changed files are put in front of /repo's through the build overlay
(VERIF_DEV_OVERLAY) and the property's check is run.  usage: seedpre.py <dir with patch.diff+meta.json> [--checks ..] [--tier ..]"""
import json
import os
import subprocess
import sys
import time

WT = "/tmp/ovl-wt"


def sh(cmd, cwd=None, env=None, timeout=7200):
    p = subprocess.run(cmd, cwd=cwd, shell=True, stdout=subprocess.PIPE, stderr=subprocess.STDOUT, text=True, errors="replace",
                       timeout=timeout, env=env)
    return p.returncode, p.stdout


def main():
    d = os.path.abspath(sys.argv[1])
    pf = "patch.diff"
    mf = "meta.json"
    for i, a in enumerate(sys.argv):
        if a == "--patch":
            pf, mf = sys.argv[i + 1], sys.argv[i + 2]
    meta = json.load(open(os.path.join(d, mf)))
    checks = [meta["property"]]
    tier = "quick"
    for i, a in enumerate(sys.argv):
        if a == "--checks":
            checks = sys.argv[i + 1].split(",")
        if a == "--tier":
            tier = sys.argv[i + 1]
    wt = WT + "-" + str(os.getpid())
    sh("git -C /repo worktree add --detach %s HEAD" % wt)
    try:
        rc, o = sh("git apply --whitespace=nowarn %s" % os.path.join(d, pf), cwd=wt)
        if rc != 0:
            rc, o = sh("patch -p1 --fuzz=3 --no-backup-if-mismatch < %s" % os.path.join(d, pf), cwd=wt)
            if rc != 0:
                print("patch does not apply:\n" + o)
                sys.exit(2)
        rc, o = sh("git status --porcelain", cwd=wt)
        files = [ln[3:].strip() for ln in o.splitlines() if ln.strip()]
        scratch = "/tmp/seedpre-results-%d" % os.getpid()
        os.makedirs(scratch, exist_ok=True)
        env = dict(os.environ, VERIF_SCRATCH_RESULTS=scratch, VERIF_DEV_OVERLAY=",".join("%s=%s" % (f, os.path.join(wt, f)) for f in files))
        res = {"seed": os.path.basename(d), "property": meta["property"], "tier": tier, "checks": {}, "builds": True,
               "via": "build overlay (tools/seedpre.py): the patched files were put in front of /repo's through go's -overlay while "
                      "/repo itself was held by a thorough run; pinned tests were run by the seed's author and by tools/seedconfirm.py"}
        for c in checks:
            t0 = time.time()
            rc, o = sh("./check %s --tier %s" % (c, tier), cwd="/verif", env=env)
            viol = [ln for ln in o.splitlines() if ln.startswith("VIOLATION")]
            clauses = sorted({ln.split("clause=")[1].split(" ")[0] for ln in o.splitlines() if "clause=" in ln})
            drift = [ln for ln in o.splitlines() if "MODEL-DRIFT" in ln]
            print("%s on %s/%s: exit=%d violations=%d clauses=%s drift=%d (%.0fs) files=%s"
                  % (c, os.path.basename(d), pf, rc, len(viol), clauses, len(drift), time.time() - t0, files))
            res["checks"][c] = {"exit": rc, "violations": len(viol), "clauses": clauses, "wall_s": round(time.time() - t0, 1),
                                "tail": o.splitlines()[-1][:200] if o.splitlines() else ""}
            if rc not in (0, 1):
                print(o[-1500:])
        res["detected"] = any(v["exit"] == 1 and v["violations"] > 0 for v in res["checks"].values())
        if "--record" in sys.argv:
            json.dump(res, open(os.path.join(d, "result-%s.json" % tier), "w"), indent=1)
    finally:
        sh("git -C /repo worktree remove --force %s; rm -rf /tmp/seedpre-results-%d" % (wt, os.getpid()))


if __name__ == "__main__":
    main()
