#!/usr/bin/env python3
"""Regenerates MANIFEST.json from the table below (single place to edit)."""
import json
import os

VERIF = os.path.dirname(os.path.dirname(os.path.abspath(__file__)))
ALL = ["C%02d" % i for i in range(1, 21)]

CHECKS = {
    "C12": dict(
        category="model_checking",
        text="Closed form proved for all n,w with TLAPS on Quorum.tla; TLC checks the clauses exhaustively for "
             "n,w<=64; the three real helpers are enumerated on the same domain (plus random n<=1500) and TLC "
             "judges every returned value against the property clauses (QuorumRows.tla). Exhaustive domain is "
             "the right level for a 3-line arithmetic whose inputs are two small integers.",
        design_ref="DESIGN.md 7/C12",
        note="TLC, TLAPS+Z3, Go toolchain; the Go helpers are bound to the proved operators only on the finite domain",
        technique="TLA+ spec + TLAPS proof + TLC exhaustive; real helper outputs validated by TLC against the clauses"),
}

NOT_YET = "check not built yet in this round (work in progress, see DESIGN.md 9)"


def main():
    checks = []
    for pid in ALL:
        if pid not in CHECKS:
            continue
        c = CHECKS[pid]
        checks.append({
            "property_id": pid,
            "quick_cmd": "./check %s --tier quick" % pid,
            "thorough_cmd": "./check %s --tier thorough" % pid,
            "evidence_file": "/verif/evidence/%s.json" % pid,
            "replay_cmd_template": "./check %s --replay {path}" % pid,
            "engine": "tla-mbv",
            "level_claimed": {"category": c["category"], "text": c["text"], "design_ref": c["design_ref"]},
            "level_note": c["note"],
            "technique": c["technique"],
        })
    man = {
        "version": 1,
        "setup_cmd": "./setup.sh",
        "hooks": {
            "guard": "verif",
            "enable": "go test -overlay <generated> -tags verif (harness files are injected from /verif/harness by "
                      "overlay; /repo itself carries no verification code unless listed in source_commits)",
            "baseline_off_cmd": "cd /repo && go test -mod=mod -vet=off -count=1 -timeout 25m ./...",
            "source_commits": [],
            "add_only": True,
        },
        "engines": [{
            "name": "tla-mbv", "path": "/verif/check",
            "serves_properties": [c["property_id"] for c in checks],
            "kind_free_text": "explicit TLA+ specifications (spec/*.tla) model-checked with TLC (+TLAPS for C12); "
                              "real mysync code runs on wire-level fake MySQL/ZooKeeper servers under "
                              "testing/synctest, its recorded traces/rows are validated by TLC against the "
                              "property operators (TraceP), the environment spec (TraceEnv) and the algorithm "
                              "spec (TraceC)",
        }],
        "checks": checks,
        "notes": "See DESIGN.md. Exit 2 = inconclusive (tool/harness failure), never a verdict.",
        "not_applicable": [{"property_id": p, "reason": NOT_YET} for p in ALL if p not in CHECKS],
    }
    with open(os.path.join(VERIF, "MANIFEST.json"), "w") as fh:
        json.dump(man, fh, indent=1)
        fh.write("\n")


if __name__ == "__main__":
    main()
