#!/usr/bin/env python3
"""Regenerates MANIFEST.json from the table below (single place to edit)."""
import json
import os

VERIF = os.path.dirname(os.path.dirname(os.path.abspath(__file__)))
ALL = ["C%02d" % i for i in range(1, 21)]

CHECKS = {
    "C01": dict(
        category="model_checking",
        text="Switchover.tla models performSwitchover at external-call granularity on the MySQL/ZooKeeper environment spec; "
             "TLC checks promotion safety exhaustively (3 hosts, 2 txns, all GTID shapes and request kinds, 1 spurious "
             "failure, 1 node loss). The REAL procedure runs on wire-level fakes for a shape x request x policy grid with "
             "a fault (fail/hang/node loss) at call boundaries from a dry-run census; every promotion event and every "
             "freeze attempt is projected to a row and TLC evaluates the same ClusterProps operators on the observed "
             "ground truth (PromoRows.tla). Only the latter can raise a violation. Every switchover activation of the real manager is also reduced to its sequence of mutating calls and checked to be a walk through the control skeleton that Switchover.tla implements (SwitchSkel.tla: SkelOrder on the model, Skel_Order on the rows; drift is logged, not a verdict).",
        design_ref="DESIGN.md 7/C01",
        note="E1-E6 (fake MySQL semantics), TLC, synctest; weak reading: members count by ground truth dead or alive",
        technique="TLA+ model of the switchover (TLC exhaustive) + trace/row validation of real runs on fakes by TLC"),
    "C02": dict(
        category="model_checking",
        text="Switchover.tla (TLC, with manager crash) covers the promotion/hand-over design; the property itself is decided on "
             "the REAL daemon: a converged cluster on the wire-level fakes with a client workload suffers exactly one fault "
             "(mysqld crash, host crash, machine cut off, mysync killed, ZooKeeper lost by one host or all) or one manual "
             "switchover at a chosen instant of the tick/health cycle (round boundary or before the k-th SQL statement), is "
             "healed after 1/4/12 rounds and given 32 rounds to settle; the end state (ground truth of every server, the "
             "coordination tree, the acknowledged set and the acknowledgement log) is projected to a row and TLC evaluates "
             "the C02 operators of ClusterProps on it (FinalRows.tla: one writable master = recorded master, reachable "
             "replicas read-only and following, no acknowledged loss, single acknowledger).",
        design_ref="DESIGN.md 7/C02",
        note="E1-E7; convergence bound 32 rounds; grid sampled in quick, complete in thorough",
        technique="TLA+ cluster predicates evaluated by TLC on end states of real single-fault runs on fakes + TLC model of the switchover"),
    "C03": dict(
        category="model_checking",
        text="ZkLock.tla models AcquireLock/ReleaseLock of internal/dcs/zk.go at request granularity with the lock cache, TTL, "
             "disconnect/expiry/reconnect and event delivery; TLC checks AtMostOneTold and NotAfterLoss exhaustively (and "
             "exhibits the S12 race in the non-atomic-store variant, which was repaired in the code). REAL zkDCS clients run "
             "lock histories on the wire-level fake ZooKeeper: every single-injection script (ttl x backoff x prefix x "
             "acquire/release x injection point incl. the guarded scheduling hook before the cache store x injected action) "
             "and random multi-client scripts; every answer is logged with the server-side owner at its linearisation point "
             "and every lock-node delete with the owner of the removed node; TLC (LockTrace.tla) judges AtMostOneTold, "
             "NotAfterLoss, ReleaseOwnOnly. Application part: the real daemon in manager-handover scenarios (crash, cut, "
             "session expiry with a competing candidate at call boundaries of the switchover activation); every activation "
             "with cluster-wide actions, every positive lock answer and every promotion is projected to a row and judged by "
             "TLC (LockAppRows.tla: ToldOnlyOwner, ActsOnlyConfirmed, SwitchRechecks). Mode machine: Daemon.tla (exits of every "
             "state handler given lock answers / maintenance record / marker file, and the manager hand-over timer) is "
             "model-checked; every activation of a real handler in those runs and in hand-over scripts (TLC-simulated "
             "behaviours of the model replayed into daemons with manager_switchover on, plus timer-boundary scripts) is a row "
             "judged by TLC (DaemonRows.tla: ManagerModeNeedsLock, ManagerAsksFirst, ReleaseOnlyByHandover; Conf_* = drift).",
        design_ref="DESIGN.md 7/C03",
        note="E7 (no expiry between applying and answering a request of the same session); 2 genuine findings listed "
             "(ReleaseLock vs re-created node), 2 repaired (S12 cache store race, FailSwitchover after lost lock)",
        technique="TLA+ lock model (TLC exhaustive) + TLC trace validation of real zkDCS lock histories and of real daemon activations"),
    "C04": dict(
        category="model_checking",
        text="ActiveNodes.tla models updateActiveNodes at call granularity (both orders, manager death at every label, any "
             "single call failing); TLC proves that a completed failure-free iteration establishes (a)&(b) and pins the "
             "complete set of windows in which they break (DestroysOnlyKnown). The real update runs for 2-5 node "
             "situation classes with the manager killed / a call failing at census call boundaries; every activation "
             "(entry and exit/cut ground truth) and every list write is judged by TLC (IterRows.tla) against the C04 "
             "operators of ClusterProps; each broken witness is attributed to its history and matched against the seven "
             "listed findings - anything else is a violation.",
        design_ref="DESIGN.md 7/C04",
        note="E3 (flag judged as variable); failover switched off in these scenarios; 7 genuine findings listed",
        technique="TLA+ model of the update with crash/failure at every label (TLC) + TLC validation of real activations"),
    "C05": dict(
        category="model_checking",
        text="FailoverGate.tla states the eight gates over what the filing manager could observe; TLC checks a transcription of "
             "stateManager/approveFailover (both filing sites) against it on the complete product (55,296 cells). The real "
             "stateManager runs 13-round histories on the fakes for the all-open cell, every single-gate-closed cell and a "
             "random product incl. health flapping and manager changes; every creation of an automatic request and every "
             "suspicious-master activation is projected to a row and judged by TLC (GateRows.tla).",
        design_ref="DESIGN.md 7/C05",
        note="observations read from the tree at activation start; delay clock per manager process",
        technique="TLA+ gate table (TLC exhaustive) + TLC validation of filings recorded from real manager histories"),
    "C06": dict(
        category="model_checking",
        text="Request lifecycle: Switchover.tla (Start/Fail/Finish/Reject, attempt counter, limit) is model-checked with "
             "C06_SuccessMeansDone / C06_BoundedAttempts; the real stateManager runs 40-round histories on the fakes for "
             "every request kind x failure variant x limit x timeout, each request identity is digested from the recorded "
             "trace and TLC judges the eight C06 clauses on it (ReqRows.tla). Liveness: under weak fairness of the manager's actions a planned request is eventually removed (Switchover.tla LiveSpec, C06_PlannedResolved, TLC temporal checking). A scenario in which the real manager never returns from an activation (real-time watchdog of the driver, goroutine dump) is reported as C06_ManagerNeverStuck.",
        design_ref="DESIGN.md 7/C06",
        note="manager's coordination calls succeed (C07 covers the rest); CLI initiators emulated by create-if-absent writes",
        technique="TLA+ lifecycle model (TLC) + TLC validation of request histories recorded from real code"),
    "C07": dict(
        category="fault_enumeration",
        text="The managing process is killed, or cut from ZooKeeper, immediately after each external call of a "
             "switchover activation (cut points from a dry-run census) for 2-4 node shapes, all request kinds, both "
             "successor choices; after 30 rounds the final ground truth is judged by TLC against the end-state "
             "operators of ClusterProps (request resolved, one writable recorded master, replicas follow, no "
             "acknowledged loss). Switchover.tla with ManagerCrash at every label is model-checked alongside. Every switchover activation of the real manager is also reduced to its sequence of mutating calls and checked to be a walk through the control skeleton that Switchover.tla implements (SwitchSkel.tla: SkelOrder on the model, Skel_Order on the rows; drift is logged, not a verdict).",
        design_ref="DESIGN.md 7/C07",
        note="E1-E7; K=30 rounds; two classes of genuine defects are listed in known_findings.jsonl",
        technique="crash-point enumeration on real code over fakes; end states validated by TLC; TLA+ model with ManagerCrash"),
    "C08": dict(
        category="model_checking",
        text="Lost.tla is the decision table of the statement (exemptions, master safety, postponement window); TLC checks a "
             "transcription of stateLost against it on the complete product (24,864 cells). The real stateLost runs on the "
             "fakes for every role x cluster size 1-4 x per-replica condition x semi-sync x wait count x switch x outcome of "
             "the read-only attempt, three lost ticks around the inactivation delay; TLC judges the statements that reached "
             "the local and remote fake servers and the read_only flag against the table (LostRows.tla).",
        design_ref="DESIGN.md 7/C08",
        note="E1/E2; effects-based judgement; no boundary instants; complete for n<=3 in quick, n=4 sampled",
        technique="TLA+ decision table (TLC exhaustive) + TLC validation of real handler activations on fakes"),
    "C09": dict(
        category="model_checking",
        text="Maint.tla models the maintenance protocol (record absent/requested/acked/leaving, processes in manager/candidate/lost/"
             "maintenance/down, marker file, lock, operator promoting servers by hand, ZooKeeper outages, restarts); TLC proves "
             "that only a process in state Lost ever acts under acknowledged maintenance, that the record is removed only with "
             "exactly one alive master which is then recorded, and exhibits the S9 path. "
             "The real daemons run 16-round maintenance histories on the fakes: operator actions while paused (move the "
             "master, two masters, no master, stop replication, crash), disturbances (restarts, kills, ZooKeeper loss by the "
             "manager / all / not-yet-acknowledging candidates), +-disable semi-sync, with a committing workload; the frozen "
             "window, every removal of the record (with what the leaving activation observed when it started), kept "
             "records and light-mode runs are digested to rows and judged by TLC (MaintRows.tla). Every activation of a state "
             "handler in those runs is also judged against the mode machine (Daemon.tla / DaemonRows.tla: CandidateFollowsAck, "
             "PausedUntilToldToLeave, ManagerObeysRecord). One genuine finding (S9) is listed.",
        design_ref="DESIGN.md 7/C09",
        note="effect-based notion of change; CLI path emulated by the record it writes",
        technique="TLC validation of maintenance histories recorded from real code on fakes (TLA+ row spec)"),
    "C10": dict(
        category="fault_enumeration",
        text="From per-node initial states drawn from the product of read-only/offline flags, sources (incl. stale masters and "
             "an unregistered decoy server), replication thread/error states and semi-sync flags of a 3-4 node cluster the "
             "real manager runs 20 rounds on the fakes, with one random failing statement in a third of the runs; TLC judges "
             "the final ground truth (read-only replicas following the master within the repair budget, master restored) and "
             "the safety observations collected on the way (master key untouched, decoy server silent, never self, "
             "RESET REPLICA ALL only under the aggressive-mode limit and cooldown) with RepairRows.tla.",
        design_ref="DESIGN.md 7/C10",
        note="failover off; every mysync alive; E4/E5; stale-master clause judged on what was seen on the way",
        technique="initial-state grid + fault injection on real code over fakes; TLC validation of end states and safety logs"),
    "C11": dict(
        category="model_checking",
        text="Recovery.tla transcribes the case analysis of checkRecovery; TLC checks the C11 clauses on the complete product of observations (108 cells) and the REAL checkRecovery is run on every cell and compared with the model (Conf_Decision). Switchover.tla (SetRecovery: list shrink first, then mark; C11_MarkedNotListed) is model-checked; the real "
             "checkRecovery of a marked ex-master and the real manager run interleaved on the fakes over GTID relation x "
             "replication state x read-only x stuck commits x resetup file x interleaving order (incl. a further "
             "switchover); every mark removal is recorded with ground truth at that instant, every list write / promotion "
             "while marked, the end state and three marking scenarios; TLC judges them with RecoveryRows.tla.",
        design_ref="DESIGN.md 7/C11",
        note="E2/E4; stuck-commit waiting time not exceeded in these runs",
        technique="TLA+ model (TLC) + TLC validation of recovery-protocol events recorded from real code on fakes"),
    "C12": dict(
        category="model_checking",
        text="Closed form proved for all n,w with TLAPS on Quorum.tla; TLC checks the clauses exhaustively for "
             "n,w<=64; the three real helpers are enumerated on the same domain (plus random n<=1500) and TLC "
             "judges every returned value against the property clauses (QuorumRows.tla). Exhaustive domain is "
             "the right level for a 3-line arithmetic whose inputs are two small integers.",
        design_ref="DESIGN.md 7/C12",
        note="TLC, TLAPS+Z3, Go toolchain; the Go helpers are bound to the proved operators only on the finite domain",
        technique="TLA+ spec + TLAPS proof + TLC exhaustive; real helper outputs validated by TLC against the clauses"),
    "C13": dict(
        category="model_checking",
        text="Gtid.tla gives GTID relations their set semantics; TLC checks a transcription of the most-recent scan "
             "against 'a maximum exists' on all lists over a small universe, and then judges the outputs of the real "
             "IsSlaveBehindOrEqual/IsSlaveAhead/GTIDDiff/IsSplitBrained/findMostRecentNodeAndDetectSplitbrain on every "
             "pair of subsets of a 7-8 transaction universe (2 uuids, tags, gaps), all lists of 1-4 positions and random "
             "large sets. Exhaustive small universe + random beyond is the right level for pure set functions.",
        design_ref="DESIGN.md 7/C13",
        note="TLC; the harness's own GTID formatter/parser; go-mysql's parser is code under test",
        technique="TLA+ set-semantics spec; TLC validates rows of real function outputs (exhaustive small universe)"),
    "C14": dict(
        category="model_checking",
        text="Candidate.tla states the clauses over an arbitrary result and contains a transcription of the recursive "
             "choice; TLC checks the transcription against the clauses on all lists of <=3 positions over a grid, then "
             "judges the real filterOutNodeFromPositions+getMostDesirableNode on all lists of 0-2 and random lists of 3-5 "
             "positions (priorities, lags around the bound incl. unknown, chain/incomparable GTID sets, excluded host); "
             "non-termination is caught by a watchdog / crash attribution. The call sites are bound as well: rows through getMostDesirableReplicaToOptimize (its own bound), and cluster runs with different priorities and an unreadable priority record (PrioRows.tla, C14_PriorityAtCallSite).",
        design_ref="DESIGN.md 7/C14",
        note="TLC; non-negative bounds; call sites are covered by the cluster properties",
        technique="TLA+ clause spec + algorithm model (TLC exhaustive); real outputs validated by TLC"),
    "C15": dict(
        category="model_checking",
        text="DcsContract.tla is the sequential contract of the coordination layer (result and effect of every data operation as "
             "a function of the tree with ephemeral owners). Real zkDCS clients (1-3) run random histories of the operations "
             "over a small key space in many spellings against the wire-level fake ZooKeeper, interleaved with garbage "
             "written out of band, session expiry, cuts longer than the session timeout and process restarts; TLC replays "
             "every history through the contract (DcsTrace.tla) and judges each result, returned value, child list and the "
             "server-side tree snapshot (presence and ephemeral kind).",
        design_ref="DESIGN.md 7/C15",
        note="E7 (session expiry after exactly the timeout); operations issued while connected",
        technique="TLA+ sequential contract + TLC trace validation of histories executed by the real zkDCS on a wire-level fake"),
    "C16": dict(
        category="model_checking",
        text="Cascade.tla defines the resolution (Resolve) and its clauses; the real findBestStreamFrom is evaluated on every "
             "stream_from map of 1-3 cascade replicas (chains, cycles, self-references, HA references) x ancestor health x "
             "current source, under a watchdog, and TLC judges each result incl. exact agreement with Resolve; cluster runs "
             "record every CHANGE SOURCE on a cascade replica with ground-truth GTID sets (guarded move) and every list "
             "write / promotion with cascade replicas present (never counted).",
        design_ref="DESIGN.md 7/C16",
        note="registered names only (dangling references are C20's); health as the code defines 'reasonable lag'",
        technique="TLA+ resolution spec; TLC validation of real resolutions and of recorded re-pointing events"),
    "C17": dict(
        category="model_checking",
        text="OfflineMode.tla states the per-pass policy (enable only above the threshold with a writable master and within "
             "the zone share counting earlier ones of the pass, disable only at/below the lower threshold with a fresh "
             "negative resetup status, hysteresis, rate limiter, master kept online) over the ordered offline_mode "
             "statements of a pass; the real repairOfflineMode runs on fake servers for every percentage x separator x "
             "thousands of generated situations and pass sequences and TLC judges every pass (OfflineRows.tla).",
        design_ref="DESIGN.md 7/C17",
        note="zone rule restated independently in the harness; lenient on ambiguous broken+lagging replicas",
        technique="TLA+ policy spec; TLC validation of statement sequences recorded from real passes on fakes"),
    "C18": dict(
        category="model_checking",
        text="DiskGuard.tla gives NeedRO / MayWrite from the statement; TLC checks a transcription of the code's counters "
             "against them on the complete level grid, and judges every cell of master usage x 0-3 replicas x wait count x "
             "current mode x both switches executed through the real repairReadOnlyOnMaster on a fake master (statements, "
             "resulting mode, low_space write).",
        design_ref="DESIGN.md 7/C18",
        note="integer percentages; config validation not in the grid",
        technique="TLA+ decision table (TLC exhaustive) + TLC validation of real guard decisions on a fake server"),
    "C19": dict(
        category="model_checking",
        text="The real Syncer.Sync with the real registry adapter runs on fake ZooKeeper and fake servers over random registries "
             "(status, lag around both marks, settings, master registered by mistake) with an injected failing statement in a "
             "third of the syncs and two consecutive syncs; every registry delete is recorded with the ground-truth settings "
             "at that instant; planned switchovers with lagging targets, pre-optimised replicas and the C01 fault grid give "
             "promotion/attempt rows. TLC judges at-most-one, restore-then-drop, lost/converged handling (OptRows.tla) and "
             "not-promoted-relaxed / phase-ends-before-freeze (PromoRows.tla). The speed-up phase race (S4) is listed.",
        design_ref="DESIGN.md 7/C19",
        note="'relaxed' = settings differ from the master's; CLI commands emulated by registry entries",
        technique="TLC validation of sync results and promotion events recorded from real code on fakes (TLA+ row specs)"),
    "C20": dict(
        category="model_checking",
        text="RobustEnv.tla is the input space of the property as a TLA+ environment model (host registry incl. a ghost name, "
             "cascade registrations with missing/self/ghost/garbage source, master / active list / switch request / maintenance / "
             "recovery marks / health records absent, garbage, stale or dangling, mysync processes and mysqld up or down, every "
             "SQL call failing, ZooKeeper gone); TLC enumerates all its behaviours of length 1 and 2 (quick replays a sample of the latter) and "
             "simulates behaviours of length 8; every behaviour is replayed into the REAL daemon (three hosts, a mysync each, on "
             "the fakes): each action is followed by two rounds of every loop of every live process, then the final state is "
             "held for 68 rounds while goroutines and open connections are counted. Rows (recovered panics, leak counters) are "
             "judged by TLC (RobustRows.tla); a panic in a goroutine spawned by mysync kills the driver and is attributed to the "
             "behaviour; the loops of one process are additionally run concurrently under the Go race detector. Error paths: repeated failing SetReadOnlyWithForce calls must leave no goroutine behind (C20_NoLeakOnErrorPath).",
        design_ref="DESIGN.md 7/C20",
        note="Go race detector as monitor for the race clause; leak = sustained growth over three windows; 11 genuine defects "
             "repaired (fix: commits), see known_findings.jsonl",
        technique="TLA+ environment model whose TLC-generated behaviours are replayed into the real daemon + TLC judgement of the replay rows + race detector"),
}

NOT_YET = "check not built yet in this round (work in progress, see DESIGN.md 9)"


def main():
    checks = []
    for pid in ALL:
        if pid not in CHECKS:
            continue
        c = CHECKS[pid]
        checks.append({
            "property_id": pid,
            "quick_cmd": "./check %s --tier quick" % pid,
            "thorough_cmd": "./check %s --tier thorough" % pid,
            "evidence_file": "/verif/evidence/%s.json" % pid,
            "replay_cmd_template": "./check %s --replay {path}" % pid,
            "engine": "tla-mbv",
            "level_claimed": {"category": c["category"], "text": c["text"], "design_ref": c["design_ref"]},
            "level_note": c["note"],
            "technique": c["technique"],
        })
    man = {
        "version": 1,
        "setup_cmd": "./setup.sh",
        "hooks": {
            "guard": "verif",
            "enable": "go test -overlay <generated> -tags verif (harness files are injected from /verif/harness by "
                      "overlay; /repo itself carries no verification code unless listed in source_commits)",
            "baseline_off_cmd": "cd /repo && go test -mod=mod -vet=off -count=1 -timeout 25m $(GOFLAGS=-mod=mod go list ./... | grep -v '^github.com/yandex/mysync/tests$')",
            "source_commits": ["5303d2be68cacc02a7486c9c49550aaa10f52acf"],
            "add_only": True,
        },
        "engines": [{
            "name": "tla-mbv", "path": "/verif/check",
            "serves_properties": [c["property_id"] for c in checks],
            "kind_free_text": "explicit TLA+ specifications (spec/*.tla) model-checked with TLC (+TLAPS for C12); "
                              "real mysync code runs on wire-level fake MySQL/ZooKeeper servers under "
                              "testing/synctest, its recorded traces/rows are validated by TLC against the "
                              "property operators (TraceP), the environment spec (TraceEnv) and the algorithm "
                              "spec (TraceC)",
        }],
        "checks": checks,
        "notes": "See DESIGN.md. Exit 2 = inconclusive (tool/harness failure), never a verdict.",
        "not_applicable": [{"property_id": p, "reason": NOT_YET} for p in ALL if p not in CHECKS],
    }
    with open(os.path.join(VERIF, "MANIFEST.json"), "w") as fh:
        json.dump(man, fh, indent=1)
        fh.write("\n")


if __name__ == "__main__":
    main()
