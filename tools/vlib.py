"""Shared machinery for the mysync verification checks.

Everything a per-property check needs: scratch space, the TLC / tlapm runners
and their output parsers, the `go test -overlay` runner that injects the
harness into /repo's *current working tree*, the evidence writer and the
verdict / known-finding logic.

Exit codes (DESIGN.md 5.1):  0 held, 1 VIOLATION, 2 inconclusive (harness,
tool or environment failure - never a verdict about mysync).
"""
import atexit
import collections
import json
import os
import re
import shutil
import subprocess
import sys
import tempfile
import time

VERIF = os.path.dirname(os.path.dirname(os.path.abspath(__file__)))
REPO = os.environ.get("VERIF_REPO", "/repo")
SPEC = os.path.join(VERIF, "spec")
HARNESS = os.path.join(VERIF, "harness")
EVIDENCE = os.path.join(VERIF, "evidence")
KNOWN = os.path.join(VERIF, "known_findings.jsonl")
NCPU = os.cpu_count() or 4


class Inconclusive(Exception):
    """Harness/tool failure: exit 2, never a violation."""


class Ctx:
    def __init__(self, pid, tier, seed):
        self.pid = pid
        self.tier = tier
        self.seed = seed
        self.t0 = time.time()
        self.scratch = tempfile.mkdtemp(prefix="verif-%s-" % pid)
        atexit.register(shutil.rmtree, self.scratch, True)
        # VERIF_SCRATCH_RESULTS (development aid, used by tools/seedpre.py): evidence and replay files of a run against a
        # deliberately changed tree go to a scratch directory instead of /verif/evidence and /verif/out
        self.out = os.path.join(os.environ.get("VERIF_SCRATCH_RESULTS") or os.path.join(VERIF, "out"), pid)
        os.makedirs(self.out, exist_ok=True)
        self.notes = []

    def sub(self, name):
        d = os.path.join(self.scratch, name)
        os.makedirs(d, exist_ok=True)
        return d

    def log(self, *a):
        print("[%s %6.1fs]" % (self.pid, time.time() - self.t0), *a, flush=True)

    @property
    def quick(self):
        return self.tier == "quick"


# --------------------------------------------------------------------------
# TLC
# --------------------------------------------------------------------------

class TLCResult:
    def __init__(self):
        self.rc = None
        self.out = ""
        self.generated = 0
        self.distinct = 0
        self.depth = 0
        self.violations = []   # list of dict(kind, name, state(dict var->text), trace(list))
        self.errors = []       # tool errors (parse, eval, ...)
        self.printed = []      # PrintT output lines
        self.wall = 0.0
        self.coverage_zero = []

    @property
    def ok(self):
        return not self.errors and self.rc is not None


_RE_STATES = re.compile(r"(\d[\d,]*) states generated, (\d[\d,]*) distinct states found")
_RE_DEPTH = re.compile(r"The depth of the complete state graph search is (\d+)")
_RE_INV = re.compile(r"Error: Invariant (\S+) is violated")
_RE_ACT = re.compile(r"Error: Action property (\S+) is violated")
_RE_STATE_HDR = re.compile(r"^State (\d+): (.*)$")


def _parse_state_block(lines):
    """Parse 'var = value' / '/\\ var = value' lines of one TLC state."""
    st = {}
    cur = None
    for ln in lines:
        m = re.match(r"^(?:/\\ )?(\w+) = (.*)$", ln)
        if m:
            cur = m.group(1)
            st[cur] = m.group(2)
        elif cur is not None:
            st[cur] += " " + ln.strip()
    return st


def parse_tlc(out):
    r = TLCResult()
    r.out = out
    lines = out.splitlines()
    for m in _RE_STATES.finditer(out):
        r.generated = int(m.group(1).replace(",", ""))
        r.distinct = int(m.group(2).replace(",", ""))
    m = _RE_DEPTH.search(out)
    if m:
        r.depth = int(m.group(1))
    i = 0
    n = len(lines)
    while i < n:
        ln = lines[i]
        mi = _RE_INV.search(ln)
        ma = _RE_ACT.search(ln)
        if mi or ma or "Temporal properties were violated" in ln:
            if mi:
                kind, name = "invariant", mi.group(1)
            elif ma:
                kind, name = "action", ma.group(1)
            else:
                kind, name = "temporal", "temporal"
            # collect following state blocks
            j = i + 1
            trace = []
            block = None
            while j < n:
                l2 = lines[j]
                if l2.startswith("Error:") and not l2.startswith("Error: The behavior up to"):
                    break
                if re.match(r"^\d+ states generated", l2) or l2.startswith("Progress(") \
                        or l2.startswith("Finished") or l2.startswith("Model checking"):
                    break
                h = _RE_STATE_HDR.match(l2)
                if h:
                    if block is not None:
                        trace.append(_parse_state_block(block))
                    block = []
                elif block is not None:
                    if l2.strip() == "":
                        trace.append(_parse_state_block(block))
                        block = None
                    else:
                        block.append(l2)
                elif re.match(r"^(?:/\\ )?\w+ = ", l2):
                    # initial-state violation: state printed without header
                    block = [l2]
                j += 1
            if block:
                trace.append(_parse_state_block(block))
            r.violations.append({"kind": kind, "name": name,
                                 "state": trace[-1] if trace else {},
                                 "trace_len": len(trace)})
            i = j
            continue
        if ln.startswith("Error:") and "The behavior up to this point" not in ln:
            r.errors.append(ln + " " + (lines[i + 1] if i + 1 < n else ""))
        if ln.startswith("*** Errors") or ln.startswith("*** Abort") or "Parsing or semantic analysis failed" in ln \
                or "Semantic errors" in ln:
            r.errors.append(ln)
        if ln.startswith("<<\"") or ln.startswith("\"VP:") or ln.startswith("<<\"VP"):
            r.printed.append(ln)
        i += 1
    return r


def tlc(ctx, module, cfg=None, files=None, workers=None, cont=False, timeout=900,
        simulate=None, depth=None, extra=None, dfs=False, coverage=False,
        spec_files=None, seed=None, xss=False):
    """Run TLC on spec/<module>.tla in a scratch copy of spec/.

    files: dict name -> path or bytes/str content copied next to the spec
    (e.g. rows.ndjson).  Returns TLCResult.  Tool failures are reported in
    .errors (caller raises Inconclusive)."""
    d = tempfile.mkdtemp(prefix="tlc-", dir=ctx.scratch)
    for f in os.listdir(SPEC):
        if f.endswith((".tla", ".cfg")):
            shutil.copy(os.path.join(SPEC, f), d)
    for name, src in (files or {}).items():
        dst = os.path.join(d, name)
        if isinstance(src, (bytes, str)) and not (isinstance(src, str) and os.path.exists(src)):
            with open(dst, "wb" if isinstance(src, bytes) else "w") as fh:
                fh.write(src)
        else:
            shutil.copy(src, dst)
    cmd = ["tlc", "-metadir", os.path.join(d, "md"), "-noGenerateSpecTE"]
    if simulate:
        cmd += ["-simulate", simulate]
        if depth:
            cmd += ["-depth", str(depth)]
    cmd += ["-workers", str(workers or "auto")]
    if seed is not None:
        cmd += ["-seed", str(seed)]
    if cont:
        cmd += ["-continue"]
    if coverage:
        cmd += ["-coverage", "1"]
    if cfg:
        cmd += ["-config", cfg]
    cmd += list(extra or [])
    cmd += [module]
    env = dict(os.environ)
    jto = []
    if dfs:
        jto.append("-Dtlc2.tool.queue.IStateQueue=StateDeque")
    if xss:
        jto.append("-Xss512m")
    if jto:
        env["JAVA_TOOL_OPTIONS"] = (env.get("JAVA_TOOL_OPTIONS", "") + " " + " ".join(jto)).strip()
    t0 = time.time()
    try:
        p = subprocess.run(cmd, cwd=d, env=env, stdout=subprocess.PIPE, stderr=subprocess.STDOUT,
                           timeout=timeout, text=True, errors="replace")
        out, rc = p.stdout, p.returncode
    except subprocess.TimeoutExpired as e:
        out = (e.stdout or b"")
        if isinstance(out, bytes):
            out = out.decode("utf8", "replace")
        rc = -9
        subprocess.run(["pkill", "-f", "tlc2.TL[C].*" + re.escape(d)], check=False)
    r = parse_tlc(out)
    r.rc = rc
    r.wall = time.time() - t0
    r.dir = d
    if rc == -9:
        if simulate:
            r.timed_out = True      # simulation under an outer timeout is expected to be cut
        else:
            r.errors.append("TLC timed out after %ss" % timeout)
    if rc not in (0, 12, 13, -9) and not r.violations and not r.errors:
        r.errors.append("TLC exit code %s: %s" % (rc, out[-600:]))
    if coverage:
        r.coverage_zero = [l.strip() for l in out.splitlines() if re.search(r": 0$", l.strip())
                           and l.startswith("<")]
    return r


def tlc_must(ctx, r, what):
    if r.errors:
        tail = "\n".join(r.out.splitlines()[-40:])
        raise Inconclusive("%s: TLC failed: %s\n%s" % (what, r.errors[:3], tail))
    return r


def tlapm(ctx, module, timeout=600):
    d = tempfile.mkdtemp(prefix="tlapm-", dir=ctx.scratch)
    for f in os.listdir(SPEC):
        if f.endswith(".tla"):
            shutil.copy(os.path.join(SPEC, f), d)
    cmd = ["tlapm", "--threads", str(NCPU), "--cleanfp", module + ".tla"]
    try:
        p = subprocess.run(cmd, cwd=d, stdout=subprocess.PIPE, stderr=subprocess.STDOUT,
                           timeout=timeout, text=True, errors="replace")
    except subprocess.TimeoutExpired:
        raise Inconclusive("tlapm timed out on %s" % module)
    out = p.stdout
    m = re.search(r"All (\d+) obligations? proved", out)
    if m:
        k = int(m.group(1))
        return {"obligations": k, "discharged": k, "out": out}
    m = re.search(r"(\d+)/(\d+) obligations? failed", out)
    if m:
        return {"obligations": int(m.group(2)), "discharged": int(m.group(2)) - int(m.group(1)), "out": out}
    raise Inconclusive("tlapm: cannot parse output for %s: %s" % (module, out[-800:]))


# --------------------------------------------------------------------------
# Go harness (overlay injection into /repo's current working tree)
# --------------------------------------------------------------------------

def go_env():
    env = dict(os.environ)
    env.update({"GOFLAGS": "-mod=mod", "GOPROXY": "off", "GOTOOLCHAIN": "auto"})
    env.pop("GOSUMDB", None)
    env.pop("GONOSUMDB", None)
    return env


def make_overlay(ctx):
    """harness/inject/<repo-relative pkg dir>/*.go -> /repo/<pkg dir>/zzverif_*.go
       harness/sim/*.go -> /repo/internal/verifsim/*.go   (overlay-only package)"""
    repl = {}
    inj = os.path.join(HARNESS, "inject")
    for root, _dirs, fs in os.walk(inj):
        rel = os.path.relpath(root, inj)
        for f in fs:
            if f.endswith(".go"):
                repl[os.path.join(REPO, rel, "zzverif_" + f)] = os.path.join(root, f)
    sim = os.path.join(HARNESS, "sim")
    for f in sorted(os.listdir(sim)):
        if f.endswith(".go"):
            repl[os.path.join(REPO, "internal", "verifsim", f)] = os.path.join(sim, f)
    # development aid only (never set by a registered command): try a changed source file without touching /repo,
    # VERIF_DEV_OVERLAY="<repo-relative path>=<file>[,...]"
    for item in filter(None, os.environ.get("VERIF_DEV_OVERLAY", "").split(",")):
        rel, _, src = item.partition("=")
        repl[os.path.join(REPO, rel)] = src
    path = os.path.join(ctx.scratch, "overlay.json")
    with open(path, "w") as fh:
        json.dump({"Replace": repl}, fh)
    return path


def go_test(ctx, pkg, run, env=None, timeout=1200, race=False, count=1, binary=None, args=None, verbose=False):
    """go test -overlay ... -tags verif -run <run> ./<pkg>  (cwd=/repo).
    Returns (rc, output).  A build failure raises Inconclusive."""
    ov = make_overlay(ctx)
    e = go_env()
    e.update(env or {})
    cmd = ["go", "test", "-overlay", ov, "-tags", "verif", "-vet=off", "-count=%d" % count,
           "-timeout", "%ds" % timeout, "-run", run]
    if race:
        cmd.append("-race")
    if verbose:
        cmd.append("-v")
    cmd.append("./" + pkg)
    if args:
        cmd += ["-args"] + list(args)
    try:
        p = subprocess.run(cmd, cwd=REPO, env=e, stdout=subprocess.PIPE, stderr=subprocess.STDOUT,
                           timeout=timeout + 60, text=True, errors="replace")
    except subprocess.TimeoutExpired:
        raise Inconclusive("go test timed out: %s %s" % (pkg, run))
    out = p.stdout
    if "[build failed]" in out or "[setup failed]" in out or re.search(r"^# github.com/yandex", out, re.M):
        raise Inconclusive("harness does not build against the current tree:\n" + out[-3000:])
    return p.returncode, out


def go_test_build(ctx, pkg, race=False):
    """compile the injected test binary once; returns path"""
    ov = make_overlay(ctx)
    e = go_env()
    outbin = os.path.join(ctx.scratch, pkg.replace("/", "_") + (".race" if race else "") + ".test")
    cmd = ["go", "test", "-overlay", ov, "-tags", "verif", "-vet=off", "-c", "-o", outbin]
    if race:
        cmd.append("-race")
    cmd.append("./" + pkg)
    p = subprocess.run(cmd, cwd=REPO, env=e, stdout=subprocess.PIPE, stderr=subprocess.STDOUT,
                       text=True, errors="replace", timeout=900)
    if p.returncode != 0 or not os.path.exists(outbin):
        raise Inconclusive("harness does not build against the current tree:\n" + p.stdout[-3000:])
    return outbin


def run_bin(ctx, binary, run, env=None, timeout=1200, cwd=None):
    e = go_env()
    e.update(env or {})
    cmd = [binary, "-test.run", run, "-test.count=1", "-test.timeout", "%ds" % timeout]
    try:
        p = subprocess.run(cmd, cwd=cwd or REPO, env=e, stdout=subprocess.PIPE,
                           stderr=subprocess.STDOUT, timeout=timeout + 60, text=True, errors="replace")
    except subprocess.TimeoutExpired:
        raise Inconclusive("harness binary timed out: %s" % run)
    return p.returncode, p.stdout


def run_shards(ctx, binary, run, shards, env=None, timeout=1200):
    """run the same test binary in `shards` OS processes (VERIF_SHARD=i/N)."""
    procs = []
    e0 = go_env()
    e0.update(env or {})
    for i in range(shards):
        e = dict(e0)
        e["VERIF_SHARD"] = "%d/%d" % (i, shards)
        cmd = [binary, "-test.run", run, "-test.count=1", "-test.timeout", "%ds" % timeout]
        procs.append(subprocess.Popen(cmd, cwd=REPO, env=e, stdout=subprocess.PIPE,
                                      stderr=subprocess.STDOUT, text=True, errors="replace"))
    outs = []
    t_end = time.time() + timeout + 60
    for p in procs:
        try:
            o, _ = p.communicate(timeout=max(1, t_end - time.time()))
        except subprocess.TimeoutExpired:
            for q in procs:
                q.kill()
            raise Inconclusive("harness shard timed out: %s" % run)
        outs.append((p.returncode, o))
    return outs


# --------------------------------------------------------------------------
# ndjson helpers
# --------------------------------------------------------------------------

def read_ndjson(path):
    rows = []
    with open(path) as fh:
        for ln in fh:
            ln = ln.strip()
            if ln:
                rows.append(json.loads(ln))
    return rows


def write_ndjson(path, rows):
    with open(path, "w") as fh:
        for r in rows:
            fh.write(json.dumps(r, separators=(",", ":"), sort_keys=True) + "\n")


# --------------------------------------------------------------------------
# Known findings, verdict, evidence
# --------------------------------------------------------------------------

def load_known():
    ents = []
    if os.path.exists(KNOWN):
        for ln in open(KNOWN):
            ln = ln.strip()
            if ln.startswith("fixed:"):
                ents.append({"status": "fixed", "line": ln})
            elif ln and not ln.startswith("#"):
                ents.append(json.loads(ln))
    return ents


def sig_matches(entry_sig, sig):
    """every key of the listed signature must be present and equal in the observed one"""
    for k, v in entry_sig.items():
        if isinstance(v, list):
            if sig.get(k) not in v:
                return False
        elif sig.get(k) != v:
            return False
    return True


class Verdict:
    """Collects failures of property clauses observed on REAL-code behaviour."""

    def __init__(self, ctx):
        self.ctx = ctx
        self.fails = []      # dict(clause, sig(dict), what, replay(dict))

    def fail(self, clause, sig, what, replay):
        self.fails.append({"clause": clause, "sig": dict(sig, clause=clause), "what": what,
                           "replay": replay})

    def conclude(self):
        """prints KNOWN-FINDING / VIOLATION lines; returns (n_violations, n_known)"""
        known = [e for e in load_known() if e.get("property") == self.ctx.pid
                 and e.get("status") == "known"]
        nv = 0
        seen_known = {}
        seen_viol = {}
        for f in self.fails:
            hit = None
            for e in known:
                if sig_matches(e["signature"], f["sig"]):
                    hit = e
                    break
            if hit is not None:
                key = json.dumps(hit["signature"], sort_keys=True)
                seen_known.setdefault(key, [hit, 0])[1] += 1
                continue
            key = json.dumps(f["sig"], sort_keys=True)
            if key in seen_viol:
                seen_viol[key][1] += 1
                continue
            nv += 1
            if nv > 40:
                seen_viol[key] = ["", 1]
                continue
            path = os.path.join(self.ctx.out, "violation-%d.json" % nv)
            with open(path, "w") as fh:
                json.dump({"property": self.ctx.pid, "clause": f["clause"], "signature": f["sig"],
                           "what": f["what"], "replay": f["replay"], "seed": self.ctx.seed,
                           "tier": self.ctx.tier}, fh, indent=1, default=str)
            seen_viol[key] = [path, 1]
            print("VIOLATION property=%s replay=%s" % (self.ctx.pid, path))
            if nv <= 12:
                print("  clause=%s signature=%s" % (f["clause"], json.dumps(f["sig"], sort_keys=True)))
                print("  " + f["what"][:600])
        for key, (e, cnt) in seen_known.items():
            print("KNOWN-FINDING: property=%s %s (%d occurrence(s) this run)"
                  % (self.ctx.pid, e.get("what", key), cnt))
        return nv, len(seen_known)


def write_evidence(ctx, level, coverage, assumptions, violations):
    os.makedirs(EVIDENCE, exist_ok=True)
    ev = {
        "property_id": ctx.pid,
        "tier": ctx.tier,
        "seed": int(ctx.seed),
        "level": level,
        "coverage": coverage,
        "assumptions": assumptions,
        "wall_s": round(time.time() - ctx.t0, 2),
        "violations": int(violations),
    }
    path = os.path.join(os.environ.get("VERIF_SCRATCH_RESULTS") or EVIDENCE, ctx.pid + ".json")
    tmp = path + ".tmp"
    with open(tmp, "w") as fh:
        json.dump(ev, fh, indent=1, default=str)
        fh.write("\n")
    os.replace(tmp, path)
    return path


def tla_str_set(xs):
    return "{" + ", ".join('"%s"' % x for x in xs) + "}"


# --------------------------------------------------------------------------
# Row-style binding: real function outputs judged by a TLC "Rows" module
# --------------------------------------------------------------------------

def rows_check(ctx, pkg, test, module, env=None, timeout=1200, workers=2, rows_name="rows.ndjson",
               chunk=6000, par=7, crash_is=None, shards=1, allow_empty=False, cfg=None, hang_ok=False):
    """Run the injected Go driver `test` (writes $VERIF_OUT/rows.ndjson), then TLC `module`
    over the rows with -continue (rows split in chunks validated by parallel TLC processes).
    Returns (rows, [(invariant, row_index, row)], aggregate) where aggregate has .distinct/.generated.
    crash_is: (regex, invariant name) - a driver crash matching regex (e.g. stack overflow) is
    reported as a failure of that invariant on the row recorded in current.json."""
    import concurrent.futures
    out = ctx.sub("rows-" + test.strip("^$"))
    e = {"VERIF_OUT": out, "VERIF_SEED": str(ctx.seed), "VERIF_TIER": ctx.tier}
    e.update(env or {})
    crash_fail = None
    path = os.path.join(out, rows_name)
    if shards > 1:
        binary = go_test_build(ctx, pkg)
        crashes = []
        hangs = []
        resumed = {}

        def launch(k, skipfile):
            d = os.path.join(out, "shard-%d" % k)
            os.makedirs(d, exist_ok=True)
            ek = dict(go_env())
            ek.update(e)
            ek.update({"VERIF_OUT": d, "VERIF_SHARD": "%d/%d" % (k, shards), "VERIF_SKIPFILE": skipfile,
                       "VERIF_APPEND": "1" if resumed.get(k) else ""})
            # output goes to a file: a pipe that nobody drains while the other shards are awaited fills up (64 KB)
            # and blocks the driver in write(2)
            lf = open(os.path.join(d, "driver.log"), "a")
            return subprocess.Popen([binary, "-test.run", test, "-test.count=1", "-test.timeout", "%ds" % timeout],
                                    cwd=os.path.join(REPO, pkg), env=ek, stdout=lf, stderr=subprocess.STDOUT)
        skipfiles = {k: os.path.join(out, "skip-%d.txt" % k) for k in range(shards)}
        for f in skipfiles.values():
            open(f, "w").close()
        procs = {k: launch(k, skipfiles[k]) for k in range(shards)}
        t_end = time.time() + timeout + 60
        attempts = collections.Counter()
        pending = list(range(shards))
        while pending:
            k = pending.pop(0)
            p = procs[k]
            try:
                p.wait(timeout=max(1, t_end - time.time()))
            except subprocess.TimeoutExpired:
                for q in procs.values():
                    q.kill()
                raise Inconclusive("row driver %s shard %d timed out" % (test, k))
            lp = os.path.join(out, "shard-%d" % k, "driver.log")
            with open(lp, errors="replace") as fh:
                fh.seek(max(0, os.path.getsize(lp) - 400000))
                o = fh.read()
            if p.returncode != 0:
                d = os.path.join(out, "shard-%d" % k)
                m = re.search(r"^panic: (.*)$", o, re.M)
                hm = re.search(r"^VERIF-HANG scenario=(\S+) (.*)$", o, re.M)
                if hm and attempts[k] < 200 and os.path.exists(os.path.join(d, "current.json")):
                    # the scenario never ended (real-time watchdog of the driver): which goroutines sit in mysync code?
                    attempts[k] += 1
                    cur = json.load(open(os.path.join(d, "current.json")))
                    dump = o[o.find("VERIF-HANG scenario="):]
                    stuck = []
                    for g in dump.split("\n\n"):
                        fr = re.findall(r"(/repo/(?:internal|cmd)/(?![^\n]*zzverif_)[^\s]+\.go:\d+)", g)
                        fn = re.findall(r"^(github\.com/yandex/mysync/internal/app\.\(\*App\)\.[A-Za-z0-9_]+)", g, re.M)
                        if fr and fn and g.lstrip().startswith("goroutine "):
                            stuck.append({"state": g.lstrip().split("\n")[0][:80], "functions": fn[:4], "frames": fr[:4]})
                    hangs.append({"scenario": cur, "what": hm.group(2), "stuck": stuck[:6]})
                    done_ids = set()
                    for fn_ in (rows_name, "meta.ndjson"):
                        fp = os.path.join(d, fn_)
                        if not os.path.exists(fp):
                            continue
                        good = []
                        for ln in open(fp, errors="replace"):
                            try:
                                obj = json.loads(ln)
                            except ValueError:
                                break
                            if not ln.endswith("\n"):
                                break
                            good.append(ln)
                            if fn_ == "meta.ndjson" and isinstance(obj, dict) and obj.get("scn") and "scenario" in obj:
                                done_ids.add(obj["scn"])
                        with open(fp, "w") as fh:
                            fh.writelines(good)
                    with open(skipfiles[k], "a") as fh:
                        fh.write(cur["id"] + "\n")
                        for i in sorted(done_ids):
                            fh.write(i + "\n")
                    resumed[k] = True
                    # the log is truncated so that the next failure of this shard is not mistaken for this one
                    open(lp, "w").close()
                    procs[k] = launch(k, skipfiles[k])
                    pending.append(k)
                    continue
                own = m and "test timed out" not in m.group(1) and re.search(r"/repo/(internal|cmd)/(?![^\n]*zzverif_)[^\n]*\.go:\d+", o) \
                    and not re.search(r"^panic: .*\n(?:.*\n){0,6}.*zzverif_", o, re.M)
                if own and attempts[k] < 200 and os.path.exists(os.path.join(d, "current.json")):
                    attempts[k] += 1
                    cur = json.load(open(os.path.join(d, "current.json")))
                    i0 = o.find("panic: ")
                    frames = re.findall(r"(/repo/[^\s]+\.go:\d+)", o[i0:i0 + 6000])
                    crashes.append({"scenario": cur, "panic": m.group(1), "frames": [f for f in frames if "zzverif" not in f][:6],
                                    "text": o[i0:i0 + 1500]})
                    # resume: what the dead process had completed is kept (torn last lines dropped) and skipped
                    done_ids = set()
                    for fn in (rows_name, "meta.ndjson"):
                        fp = os.path.join(d, fn)
                        if not os.path.exists(fp):
                            continue
                        good = []
                        for ln in open(fp, errors="replace"):
                            try:
                                obj = json.loads(ln)
                            except ValueError:
                                break
                            if not ln.endswith("\n"):
                                break
                            good.append(ln)
                            if fn == "meta.ndjson" and isinstance(obj, dict) and obj.get("scn") and "scenario" in obj:
                                done_ids.add(obj["scn"])
                        with open(fp, "w") as fh:
                            fh.writelines(good)
                    with open(skipfiles[k], "a") as fh:
                        fh.write(cur["id"] + "\n")
                        for i in sorted(done_ids):
                            fh.write(i + "\n")
                    resumed[k] = True
                    procs[k] = launch(k, skipfiles[k])
                    pending.append(k)
                    continue
                for q in procs.values():
                    q.kill()
                with open(os.path.join(ctx.out, "driver-failure-shard%d.log" % k), "w") as fh:
                    fh.write(o)
                mm = re.search(r"^(panic: .*|fatal error: .*)$", o, re.M)
                raise Inconclusive("row driver %s shard %d failed (rc=%s): %s\n%s" % (test, k, p.returncode,
                                   mm.group(1) if mm else "", o[-1500:]))
        ctx.crashes = crashes
        ctx.hangs = hangs
        if hangs and not hang_ok:
            raise Inconclusive("scenario %s never ended (real-time watchdog of the driver); goroutines in mysync code: %s"
                               % (hangs[0]["scenario"].get("id"), json.dumps(hangs[0]["stuck"])[:1500]))
        with open(path, "w") as allrows:
            metas = []
            for k in range(shards):
                d = os.path.join(out, "shard-%d" % k)
                with open(os.path.join(d, rows_name)) as fh:
                    shutil.copyfileobj(fh, allrows)
                mp = os.path.join(d, "meta.ndjson")
                if os.path.exists(mp):
                    metas.append(open(mp).read())
        with open(os.path.join(out, "meta.ndjson"), "w") as fh:
            fh.write("".join(metas))
        rc = 0
    else:
        rc, o = go_test(ctx, pkg, test, env=e, timeout=timeout)
        if rc != 0:
            cur = os.path.join(out, "current.json")
            if crash_is and re.search(crash_is[0], o) and os.path.exists(cur):
                # the process died in the function under test (e.g. stack overflow of a non-terminating
                # recursion): the input recorded before the call is the witness
                row = json.load(open(cur))
                i0 = max(o.find("fatal error:"), o.find("panic:"), 0)
                row["crash"] = o[i0:i0 + 600]
                crash_fail = (crash_is[1], -1, row)
            else:
                raise Inconclusive("row driver %s failed (rc=%s):\n%s" % (test, rc, o[-2500:]))
    rows = []
    with open(path) as fh:
        lines = [ln for ln in fh if ln.strip()]
    for ln in lines:
        try:
            rows.append(json.loads(ln))
        except ValueError:
            if not crash_fail:
                raise Inconclusive("row driver %s wrote a torn row" % test)
    lines = lines[:len(rows)]
    if not rows and not crash_fail and not allow_empty:
        raise Inconclusive("row driver %s produced no rows" % test)
    ctx.last_rows_dir = out
    chunks = [(k, lines[k:k + chunk]) for k in range(0, len(lines), chunk)]

    def one(item):
        k, ls = item
        return k, len(ls), tlc(ctx, module, cfg=cfg, files={"rows.ndjson": "".join(ls)}, cont=True, workers=workers,
                               timeout=timeout)
    fails = []
    agg = TLCResult()
    agg.rc = 0
    with concurrent.futures.ThreadPoolExecutor(max_workers=par) as ex:
        for k, n, r in ex.map(one, chunks):
            tlc_must(ctx, r, module)
            if r.distinct != n:
                raise Inconclusive("%s: TLC examined %d rows, chunk has %d" % (module, r.distinct, n))
            agg.distinct += r.distinct
            agg.generated += r.generated
            for viol in r.violations:
                try:
                    i = int(viol["state"].get("i", "0"))
                except ValueError:
                    i = 0
                fails.append((viol["name"], k + i, rows[k + i - 1] if 0 < i <= n else {}))
    if crash_fail:
        fails.append(crash_fail)
    return rows, fails, agg


def judge_rows(ctx, rows, module, cfg=None, chunk=6000, par=7, workers=2, timeout=1200):
    """TLC `module` (row-validation pattern) over an in-memory list of rows; returns ([(invariant, index, row)], aggregate)."""
    import concurrent.futures
    lines = [json.dumps(r) + "\n" for r in rows]
    chunks = [(k, lines[k:k + chunk]) for k in range(0, len(lines), chunk)]

    def one(item):
        k, ls = item
        return k, len(ls), tlc(ctx, module, cfg=cfg, files={"rows.ndjson": "".join(ls)}, cont=True, workers=workers,
                               timeout=timeout)
    fails = []
    agg = TLCResult()
    agg.rc = 0
    with concurrent.futures.ThreadPoolExecutor(max_workers=par) as ex:
        for k, n, r in ex.map(one, chunks):
            tlc_must(ctx, r, module)
            if r.distinct != n:
                raise Inconclusive("%s: TLC examined %d rows, chunk has %d" % (module, r.distinct, n))
            agg.distinct += r.distinct
            agg.generated += r.generated
            for viol in r.violations:
                try:
                    i = int(viol["state"].get("i", "0"))
                except ValueError:
                    i = 0
                fails.append((viol["name"], k + i, rows[k + i - 1] if 0 < i <= n else {}))
    return fails, agg
