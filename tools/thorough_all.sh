#!/bin/bash
# runs the thorough tier of every check in turn (from the directory that holds ./check); one summary line per check
cd "$(dirname "$0")/.."
for id in "$@"; do
  s=$(date +%s)
  ./check $id --tier thorough > thorough-$id.log 2>&1
  rc=$?
  echo "$id rc=$rc $(( $(date +%s) - s ))s viol=$(grep -c '^VIOLATION' thorough-$id.log) known=$(grep -c '^KNOWN-FINDING' thorough-$id.log) $(tail -1 thorough-$id.log | cut -c1-120)"
done
echo ALLDONE
