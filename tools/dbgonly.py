import sys, json, re, os
sys.path.insert(0,'/verif')
from tools import vlib
test, scn = sys.argv[1], sys.argv[2]
pat = sys.argv[3] if len(sys.argv) > 3 else '.'
ctx=vlib.Ctx("T","quick",int(os.environ.get("VERIF_SEED","1")))
out=ctx.sub("o")
env={"VERIF_OUT":out,"VERIF_ONLY":scn,"VERIF_FULL":"1","VERIF_RUNS":"1000000"}
rc,o=vlib.go_test(ctx,"internal/app","^%s$"%test,env=env, timeout=900, verbose=True)
for ln in o.splitlines():
    if re.search(pat, ln): print(ln[:int(os.environ.get("W","200"))])
