import sys, json, re, os
sys.path.insert(0,'/verif')
from tools import vlib
scn=sys.argv[1]; pat=sys.argv[2] if len(sys.argv)>2 else '.'
d=json.load(open('/tmp/dbgrows/fails.json'))
sc=d['scenarios'].get(scn)
if sc is None and os.path.exists(scn): sc=json.load(open(scn))
ctx=vlib.Ctx("T","quick",1)
rc,o=vlib.go_test(ctx,"internal/app","^TestVerifReplay$",env={"VERIF_SCENARIO":json.dumps(sc),"VERIF_LOGS":os.environ.get("LOGS","")}, timeout=300, verbose=True)
for ln in o.splitlines():
    if re.search(pat, ln): print(ln[:int(os.environ.get("W","190"))])
