"""C10 repair converges to the canonical topology without changing the master."""
from tools import vlib
from tools import cluster


def run(ctx):
    v = vlib.Verdict(ctx)
    env = {"VERIF_RUNS": "70" if ctx.quick else "100000"}
    if not ctx.quick:
        env["VERIF_FULL"] = "1"
    rows, fails, r = vlib.rows_check(ctx, "internal/app", "^TestVerifC10$", "RepairRows", env=env, timeout=14000,
                                     shards=16, chunk=800, par=8)
    meta = cluster.load_meta(ctx)
    for name, i, row in fails:
        bad = []
        for h in row["ha"]:
            if h == row["master"]:
                continue
            x = row["final"][h]
            cls = row["classes"][row["ha"].index(h) - 1]
            if (name == "C10_ReplicasReadOnly" and x["ro"] == "rw") or \
               (name == "C10_ReplicasFollow" and not row["unrepairable"][h] and not (x["src"] == row["master"] and x["io"] == "Yes" and x["sql"])):
                bad.append({"host": h, "initial": cls, "final": {k: x[k] for k in ("ro", "src", "io", "sql", "ioerr", "sqlerr", "offline")}})
        sig = {"initial": sorted({"/".join(b["initial"].split("/")[2:4]) for b in bad}), "faulted": row["faulted"],
               "aggressive": row["aggressive"]}
        if row.get("faultstmt"):
            sig["fault"] = "%s@%s" % (row["faultstmt"], "stale" if row.get("faultat") in row["stale"] else "other")
        v.fail(name, sig, "after 16 rounds from initial classes %s (master %s): %s; stale %s offline-seen %s marked-seen %s; "
               "master key writes %s, decoy statements %s, self changes %s, resets %s (scenario %s)"
               % (row["classes"], row["scn"].split("-m")[-1][:12], bad or "master/safety clause", row["stale"], row["sawoffline"],
                  row["sawmarked"], row["masterkeywrites"], row["decoystmts"], row["selfchanges"], row["resets"], row["scn"]),
               {"row": {k: row[k] for k in row if k != "final"}, "scenario": meta["scenarios"].get(row["scn"]),
                "how": "go test -run TestVerifC10 (overlay), same VERIF_SEED"})
    cov = {
        "states": r.distinct, "transitions": r.generated,
        "traces_validated_against_impl": len(rows), "evaluations": len(rows),
        "distinct_nontrivial": len({tuple(x["classes"]) for x in rows if any(c != "sro/False/master/running/True" for c in x["classes"])}),
        "rule": "3-4 HA nodes; every non-master node drawn from read_only {rw,sro} x offline x source {master, another HA node, "
                "none = stale master, unregistered decoy server} x replication {running, stopped, transient IO error, permanent "
                "IO error, permanent SQL error, IO thread failing beyond / within the repair budget} x semi-sync flag; master "
                "read-only/offline; +-semi-sync, +-aggressive repair (limit 2, cooldown 3 s); one random statement failure in a "
                "third of the runs; single-dimension sweeps exhaustively, products randomly; 16 rounds; an unregistered decoy "
                "MySQL server is present; non-trivial = some node not canonical initially (distinct class vectors)",
        "samples": [{k: x[k] for k in x if k != "final"} for x in rows[:2]],
        "runs_with_stale_master": sum(1 for x in rows if x["stale"]), "runs_with_reset": sum(1 for x in rows if x["resets"]),
        "runs_with_failed_statement": sum(1 for x in rows if x["faulted"]), "exhaustive": False,
    }
    assumptions = ["the recorded master is reachable, has no source and is not marked for recovery",
                   "automatic failover is switched off; every mysync is alive (so recovery marks may be cleared again by the "
                   "marked host itself: the clause asks that the mark and the offline statement were SEEN)",
                   "E4/E5 of DESIGN.md 6; 'broken beyond the allowed repair attempts' = permanent error class, or an IO thread "
                   "that fails more often than start+reset attempts allow"]
    return "fault_enumeration", cov, assumptions, v
