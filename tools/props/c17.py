"""C17 offline-mode policy: thresholds, hysteresis and per-zone cap."""
from tools import vlib
from tools import cluster


def run(ctx):
    v = vlib.Verdict(ctx)
    env = {"VERIF_RUNS": "4000" if ctx.quick else "60000"}
    rows, fails, r = vlib.rows_check(ctx, "internal/app", "^TestVerifC17$", "OfflineRows", env=env, timeout=7000,
                                     shards=10, chunk=3000, par=6)
    for name, i, row in fails:
        sig = {"pct_class": "0" if row["pct"] <= 0 else ("100" if row["pct"] >= 100 else "mid"), "sep": row["sep"],
               "events": sorted({e["op"] + ":" + e["reason"] for e in row["events"]})}
        v.fail(name, sig, "repair pass %d with pct=%s sep=%r master(rw=%s offline=%s marked=%s) hosts=%s issued %s "
               "(last broken shutdown %s ms ago)" % (row["pass"], row["pct"], row["sep"], row["masterrw"], row["masteroffline"],
                                                     row["mastermarked"], row["hosts"], row["events"], row["lastshutdownagems"]),
               {"row": row, "how": "go test -run TestVerifC17 (overlay), same VERIF_SEED"})
    nontriv = len({str(x) for x in rows if x["events"]})
    cov = {
        "states": r.distinct, "transitions": r.generated,
        "traces_validated_against_impl": len(rows), "evaluations": len(rows), "distinct_nontrivial": nontriv,
        "rule": "percentages {0,1,32,33,34,49,50,51,99,100} x separators {'-','','x'} x random situations of 1-6 replicas in three "
                "zones (lag in {unknown,5,10,11,100,101,1000} s around thresholds 10/100 s, offline flag, permanently broken, "
                "resetup status fresh/stale and positive/negative, master offline/marked/read-only, rate limiter open/closed), "
                "1-2 consecutive passes; the real repairOfflineMode runs on fake servers; non-trivial = the pass issued an "
                "offline_mode statement",
        "samples": [x for x in rows if len(x["events"]) >= 2][:2] + rows[:1],
        "passes_with_offline": sum(1 for x in rows if any(e["op"] == "SetOffline" for e in x["events"])),
        "passes_with_online": sum(1 for x in rows if any(e["op"] == "SetOnline" for e in x["events"])),
        "exhaustive": False,
    }
    assumptions = ["the zone of a host is computed by the harness's own statement of the rule (prefix before the first separator)",
                   "an offline statement for a permanently broken replica is accepted if either the lag rule or the rate limiter "
                   "explains it; 'pending in the same pass' counts only replicas that are not broken (lenient)",
                   "host order within a pass is Go map order: every observed order is judged as it happened"]
    return "model_checking", cov, assumptions, v
