"""C19 replication optimisation never leaves untracked relaxed durability."""
from tools import vlib
from tools import cluster


def run(ctx):
    v = vlib.Verdict(ctx)
    runs = "400" if ctx.quick else "20000"
    rows, fails, r = vlib.rows_check(ctx, "internal/app", "^TestVerifC19$", "OptRows", env={"VERIF_RUNS": runs, "VERIF_PART": "sync"},
                                     timeout=7000, shards=12, chunk=3000, par=6)
    for name, i, row in fails:
        regs = sorted(h for h, x in row["hosts"].items() if x["regbefore"])
        sig = {"part": "sync", "faulted": row["faulted"], "seq": row["seq"]}
        v.fail(name, sig, "sync #%d (completed=%s, failed call injected=%s): hosts %s, drops %s (scenario %s)"
               % (row["seq"], row["completed"], row["faulted"], row["hosts"], row["drops"], row["scn"]),
               {"row": row, "how": "go test -run TestVerifC19 (overlay), VERIF_PART=sync, same VERIF_SEED; registered before: %s" % regs})
    # switchover part: the C01 grid (lag 0) plus switchovers with lagging targets, judged on the C19 clauses
    rows2, fails2, r2 = vlib.rows_check(ctx, "internal/app", "^TestVerifC19$", "PromoRows", env={"VERIF_PART": "switch"},
                                        timeout=7000, shards=12, chunk=3000, par=6, cfg="PromoRows_C19.cfg")
    meta2 = cluster.load_meta(ctx)
    rows3, fails3, r3 = vlib.rows_check(ctx, "internal/app", "^TestVerifC01$", "PromoRows",
                                        env={"VERIF_RUNS": "120" if ctx.quick else "20000", "VERIF_FAULTS_PER_BASE": "10"},
                                        timeout=7000, shards=16, chunk=1500, par=8, cfg="PromoRows_C19.cfg")
    meta3 = cluster.load_meta(ctx)
    for fl, meta in ((fails2, meta2), (fails3, meta3)):
        for name, i, row in fl:
            sc = meta["scenarios"].get(row.get("scn")) or {}
            f = sc.get("fault") or {}
            if row["kind"] == "promo":
                p = row["p"]
                relaxed = row["hosts"][p]["dur"] != "safe"
                registered = p in row["optreg"]
                cause = "relaxed_at_promotion" if relaxed else "registered_at_promotion"
                sig = {"part": "switch", "cause": cause, "by_speedup_phase": p in row.get("turbo", [])}
                what = ("%s promoted while %s (settings %s, registry %s); fault %s (scenario %s)"
                        % (p, cause, row["hosts"][p]["dur"], row["optreg"], f or "none", row["scn"]))
            else:
                sig = {"part": "switch", "cause": "relax_after_freeze"}
                what = "%d durability-relaxing statement(s) after the first freeze call of the attempt (scenario %s)" % (row["relaxafterfreeze"], row["scn"])
            v.fail(name, sig, what, {"scenario": sc, "row": cluster.compact_row(row) if row["kind"] == "promo" else {k: row[k] for k in row if k != "hosts"},
                                     "how": "VERIF_SCENARIO=<scenario json> go test -run TestVerifReplay ./internal/app (overlay)"})
    syncs = [x for x in rows if x["kind"] == "sync"]
    cov = {
        "states": r.distinct + r2.distinct + r3.distinct, "transitions": r.generated + r2.generated + r3.generated,
        "traces_validated_against_impl": len(syncs) + len(rows2) + len(rows3), "evaluations": len(syncs) + len(rows2) + len(rows3),
        "distinct_nontrivial": len({str((sorted(x["hosts"].items()), x["faulted"])) for x in syncs if x["drops"] or any(h["durafter"] != h["durbefore"] for h in x["hosts"].values())}),
        "rule": "sync: random registries over 1-5 replicas (+ the master registered by mistake): status new/enabled, lag in "
                "{unknown,10,59,60,61,119,120,121,500} s around the marks 60/120 s, settings safe / relaxed / odd, one injected "
                "failing statement in a third of the syncs, two consecutive syncs, all through the real Syncer.Sync with the real "
                "registry adapter on fake ZooKeeper and fake servers; switch: planned switchovers with target lag 0/90/300 s "
                "(speed-up phase) and the C01 fault grid, judged on 'not promoted relaxed/registered' and 'no relaxing "
                "statement after the first freeze'; non-trivial = sync that changed settings or the registry",
        "samples": syncs[:1] + [cluster.compact_row(x) for x in rows2 if x["kind"] == "promo"][:1],
        "syncs": len(syncs), "syncs_with_failed_call": sum(1 for x in syncs if x["faulted"]),
        "promotions_checked": sum(1 for x in rows2 + rows3 if x["kind"] == "promo"), "exhaustive": False,
    }
    assumptions = ["'relaxed' = durability settings different from the master's",
                   "converged = lag below the low mark (between the marks the code's status-dependent rule is not judged)",
                   "the CLI enable/disable commands are emulated by the registry entries they write"]
    return "model_checking", cov, assumptions, v
