"""C20 daemon robustness: behaviours of RobustEnv.tla (TLC) replayed into the real daemon; panics, crashes, leaks, races."""
import json
import os
import re
import subprocess
from tools import vlib
from tools import cluster

BEH = re.compile(r'<<"BEHAVIOUR", "(.*)">>\s*$')


def behaviours(ctx, cfg, simulate=None, timeout=1800, depth=None, seed=None):
    """run TLC on RobustEnv and collect the exported behaviours (lists of action records)"""
    r = vlib.tlc_must(ctx, vlib.tlc(ctx, "RobustEnv", cfg=cfg, workers=1, timeout=timeout, simulate=simulate, depth=depth,
                                    seed=seed), "RobustEnv")
    out = []
    for ln in r.out.splitlines():
        m = BEH.search(ln)
        if m:
            out.append(json.loads(m.group(1).replace('\\"', '"')))
    return r, out


def run(ctx):
    v = vlib.Verdict(ctx)
    # 1. TLC generates the inputs: every behaviour of length 1 and 2 (thorough) / 1 (quick) and simulated ones of length 8
    r1, b1 = behaviours(ctx, "MC_RobustEnv_1.cfg")
    r2, b2 = behaviours(ctx, "MC_RobustEnv.cfg")
    b2_all = list(b2)
    if ctx.quick:
        # the quick tier replays a seeded sample of the complete length-2 product
        import random
        rnd = random.Random(ctx.seed)
        b2 = rnd.sample(b2, min(250, len(b2)))
    nsim = 60 if ctx.quick else 4000
    rs, bs_all = behaviours(ctx, "MC_RobustEnv_sim.cfg", simulate="num=%d" % nsim, depth=9, seed=ctx.seed, timeout=3000)
    # simulation evaluates the export on every successor of the last chosen state: keep one behaviour per prefix
    seen, bs = set(), []
    for b in bs_all:
        k = json.dumps(b[:-1])
        if k not in seen:
            seen.add(k)
            bs.append(b)
    if not b1 or not bs:
        raise vlib.Inconclusive("TLC exported no behaviours (len1=%d sim=%d)" % (len(b1), len(bs)))
    # behaviours of length 2 that every sample contains: a commit that hangs for good, then the coordination service gone
    # or every SQL call failing (the error paths of fencing are taken tick after tick while the final state is held)
    pinned = [b for b in b2_all if b[0].get("var") == "commit" and b[0].get("val") == "stuck" and b[1].get("var") in ("zkerr", "sqlerr")]
    b2 = b2 + [b for b in pinned if b not in b2]
    allb = [("one/%d" % i, b) for i, b in enumerate(b1)] + [("two/%d" % i, b) for i, b in enumerate(b2)] + \
           [("sim/%d/%d" % (ctx.seed, i), b) for i, b in enumerate(bs)]
    bf = os.path.join(ctx.sub("beh"), "behaviours.ndjson")
    with open(bf, "w") as f:
        for i, b in allb:
            f.write(json.dumps({"id": "c20-" + i, "acts": b}) + "\n")
    ctx.log("behaviours: %d of length 1, %d of length 2, %d simulated of length 8" % (len(b1), len(b2), len(bs)))
    # 2. replay into the real daemon (both binaries are built first, from the same tree)
    race_bin = vlib.go_test_build(ctx, "internal/app", race=True)
    rows, fails, r = vlib.rows_check(ctx, "internal/app", "^TestVerifC20$", "RobustRows", env={"VERIF_BEHAVIOURS": bf},
                                     timeout=14000, shards=16, chunk=3000, par=4, cfg="RobustRows.cfg")
    meta = cluster.load_meta(ctx)
    for name, i, row in fails:
        sc = meta["scenarios"].get(row.get("scn")) or {}
        if name == "C20_NoPanicRow":
            site = re.sub(r"0x[0-9a-f]+", "", row["panics"][0])[:160]
            sig = {"panic": site}
            what = "recovered panic %r while replaying %s (%s)" % (row["panics"][0][:200], json.dumps(sc.get("acts")), row["scn"])
        elif name == "C20_NoLeakOnErrorPath":
            sig = {"errpath": row["fn"]}
            what = ("%d failing calls of %s left %d goroutines behind (%d before, %d after; %d of the calls failed) (%s)"
                    % (row["calls"], row["fn"], row["g1"] - row["g0"], row["g0"], row["g1"], row["failed"], row["scn"]))
        else:
            sig = {"final": row["final"]}
            what = ("holding the final state for 68 rounds: goroutines %s, open MySQL connections %s (minima over rounds 8-12, 36-40, "
                    "64-68) after %s (%s)" % (row["g"], row["c"], json.dumps(sc.get("acts")), row["scn"]))
        v.fail(name, sig, what, {"behaviour": sc, "row": row,
                                 "how": "VERIF_BEHAVIOURS=<file with this behaviour> go test -run TestVerifC20 ./internal/app (overlay)"})
    for c in getattr(ctx, "crashes", []):
        frames = [f for f in c["frames"] if "/repo/" in f][:2]
        v.fail("C20_NoCrash", {"frames": frames},
               "unrecoverable panic %r in a goroutine spawned by mysync at %s while replaying %s"
               % (c["panic"][:160], frames, json.dumps(c["scenario"].get("extra"))),
               {"behaviour": c["scenario"], "panic": c["panic"], "frames": c["frames"][:8]})
    # 3. data races: the loops of one process run concurrently under the race detector
    race = race_run(ctx, v, race_bin)
    cov = {
        "states": r1.distinct + (r2.distinct if r2 else 0), "transitions": r1.generated + (r2.generated if r2 else 0),
        "traces_validated_against_impl": len(rows),
        "evaluations": len(rows) * 3, "distinct_nontrivial": len({json.dumps(b) for _, b in allb}),
        "rule": "behaviours of RobustEnv.tla: all of length 1%s, plus TLC-simulated ones of length 8; each action (host "
                "registered/removed incl. a ghost, cascade registration with missing/self/ghost/garbage source, master record "
                "ghost/absent/garbage/empty, active list absent/garbage/ghost, switch request to/from ghost/garbage, maintenance, "
                "recovery marks, mysync killed/started, health record missing/garbage/stale, mysqld down/up, every SQL call "
                "failing, ZooKeeper gone) is followed by 2 rounds of every loop of every live daemon; final state held 68 rounds "
                "for the leak counters; non-trivial = distinct behaviours" % ("" if ctx.quick else " and 2"),
        "samples": [allb[0][1], allb[-1][1]],
        "behaviours_len1": len(b1), "behaviours_len2": len(b2), "behaviours_sim": len(bs),
        "unrecoverable_panics": len(getattr(ctx, "crashes", [])), "race": race,
        "exhaustive": False,
    }
    assumptions = ["the daemon's loops are driven by the harness (one activation per round); goroutine and connection counts are "
                   "minima over rounds 8-12, 36-40 and 64-68 of the held final state; leak = both steps grow by more than 6",
                   "coordination-tree contents are limited to the universe of RobustEnv.tla (3 real hosts, one ghost name)"]
    return "model_checking", cov, assumptions, v


def race_run(ctx, v, binary):
    out = ctx.sub("race")
    env = dict(vlib.go_env(), VERIF_OUT=out, VERIF_SEED=str(ctx.seed), VERIF_RUNS="6" if ctx.quick else "120",
               GORACE="halt_on_error=0 log_path=%s" % os.path.join(out, "race"))
    p = subprocess.run([binary, "-test.run", "^TestVerifC20Race$", "-test.timeout", "3h"], cwd="/repo/internal/app", env=env,
                       stdout=subprocess.PIPE, stderr=subprocess.STDOUT, text=True, errors="replace", timeout=11000)
    reports = []
    for fn in sorted(os.listdir(out)):
        if fn.startswith("race."):
            txt = open(os.path.join(out, fn), errors="replace").read()
            reports += [x for x in txt.split("==================") if "DATA RACE" in x]
    if p.returncode != 0 and not reports and "DATA RACE" not in p.stdout:
        raise vlib.Inconclusive("race driver failed:\n" + p.stdout[-3000:])
    if "DATA RACE" in p.stdout:
        reports += [x for x in p.stdout.split("==================") if "DATA RACE" in x]
    seen = set()
    for rep in reports:
        frames = [ln.strip() for ln in rep.splitlines() if "/repo/internal/" in ln and "zzverif" not in ln]
        if not frames:
            continue  # a race inside the harness or a library only: not mysync's
        key = tuple(sorted(set(re.sub(r" \+0x[0-9a-f]+", "", f) for f in frames[:2])))
        if key in seen:
            continue
        seen.add(key)
        v.fail("C20_NoDataRace", {"frames": list(key)}, "data race between %s" % " and ".join(key),
               {"report": rep[:4000], "how": "go test -race -run TestVerifC20Race ./internal/app (overlay)"})
    return {"reports": len(reports), "distinct_in_mysync": len(seen)}
