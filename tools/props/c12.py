"""C12 quorum arithmetic: TLAPS closed form + TLC exhaustive + real helpers judged by TLC."""
import os
from tools import vlib


def run(ctx):
    v = vlib.Verdict(ctx)
    # 1. closed form for all n, w (TLAPS)
    pr = vlib.tlapm(ctx, "Quorum_proofs")
    if pr["discharged"] != pr["obligations"]:
        raise vlib.Inconclusive("TLAPS proof of the closed form no longer goes through: %d/%d"
                                % (pr["discharged"], pr["obligations"]))
    ctx.log("TLAPS: %d/%d obligations" % (pr["discharged"], pr["obligations"]))
    # 2. the specification's operators satisfy the clauses on the bounded domain (TLC)
    mc = vlib.tlc_must(ctx, vlib.tlc(ctx, "MC_Quorum", workers=4, timeout=600), "MC_Quorum")
    if mc.violations:
        raise vlib.Inconclusive("specification Quorum.tla violates its own clauses: %s" % mc.violations[:2])
    ctx.log("MC_Quorum: %d states" % mc.distinct)
    # 3. real helpers -> rows -> TLC judges rows against the clauses
    out = ctx.sub("rows")
    env = {"VERIF_OUT": out, "VERIF_SEED": str(ctx.seed),
           "VERIF_MAXN": "64" if ctx.quick else "160", "VERIF_MAXW": "64" if ctx.quick else "100",
           "VERIF_LARGE": "300" if ctx.quick else "3000"}
    rc, o = vlib.go_test(ctx, "internal/mysql", "^TestVerifQuorumRows$", env=env)
    rows_path = os.path.join(out, "rows.ndjson")
    if rc != 0 or not os.path.exists(rows_path):
        raise vlib.Inconclusive("row driver failed:\n" + o[-2000:])
    rows = vlib.read_ndjson(rows_path)
    tr = vlib.tlc_must(ctx, vlib.tlc(ctx, "QuorumRows", files={"rows.ndjson": rows_path}, cont=True,
                                     workers=8, timeout=900), "QuorumRows")
    drift = 0
    for viol in tr.violations:
        i = int(viol["state"].get("i", "0"))
        row = rows[i - 1] if 0 < i <= len(rows) else {}
        if viol["name"].startswith("Conf_"):
            drift += 1
            continue
        sig = {"n_class": "n=%d" % row.get("n", -1) if row.get("n", 99) <= 3 else "n>3",
               "semi_sync": row.get("ss")}
        v.fail(viol["name"], sig, "quorum helpers return req=%s quorum=%s accept=%s for n=%s w=%s semi_sync=%s"
               % (row.get("req"), row.get("q"), row.get("okp"), row.get("n"), row.get("w"), row.get("ss")),
               {"row": row, "how": "go test -run TestVerifQuorumRows ./internal/mysql (overlay), row %d" % i})
    nontrivial = len({(r["n"], r["w"], r["ss"]) for r in rows if r["n"] >= 2 and r["w"] >= 1})
    cov = {
        "states": mc.distinct, "transitions": mc.generated,
        "traces_validated_against_impl": len(rows),
        "evaluations": len(rows), "distinct_nontrivial": nontrivial,
        "rule": "one row per (list size n, configured count w, semi_sync) from the real SwitchHelper; "
                "non-trivial = list has a replica and w>=1 (the arithmetic is not degenerate)",
        "samples": [r for r in rows if (r["n"], r["w"]) in ((5, 2), (4, 1), (3, 3))][:4],
        "exhaustive": True,
        "obligations": pr["obligations"], "discharged": pr["discharged"],
        "checker_cmd": "tlapm Quorum_proofs.tla ; tlc MC_Quorum ; tlc QuorumRows (rows from go test TestVerifQuorumRows)",
        "trusted_base": ["TLC", "TLAPS/Z3", "Go toolchain"],
        "model_conformance": {"rows_equal_to_spec_operators": len(rows) - drift, "drift": drift},
        "domain": "n,w in 0..%s/%s exhaustively, both semi_sync modes, every p in 0..n+1; %s random rows n up to 1500+"
                  % (env["VERIF_MAXN"], env["VERIF_MAXW"], env["VERIF_LARGE"]),
    }
    assumptions = ["the active list contains the master (replicas = n-1); for n=0 replicas = 0",
                   "closed form proved for the specification operators; the Go helpers are bound to them "
                   "exhaustively only on the stated finite domain"]
    return "model_checking", cov, assumptions, v
