"""C15 coordination data-plane contract: real zkDCS histories replayed through DcsContract.tla by TLC."""
import os
from tools import vlib


def run(ctx):
    v = vlib.Verdict(ctx)
    out = ctx.sub("rows")
    runs = 250 if ctx.quick else 6000
    env = {"VERIF_OUT": out, "VERIF_SEED": str(ctx.seed), "VERIF_RUNS": str(runs),
           "VERIF_OPS": "40" if ctx.quick else "60"}
    rc, o = vlib.go_test(ctx, "internal/dcs", "^TestVerifC15Rows$", env=env, timeout=3000)
    rows_path = os.path.join(out, "rows.ndjson")
    if rc != 0 or not os.path.exists(rows_path):
        raise vlib.Inconclusive("history driver failed:\n" + o[-3000:])
    rows = vlib.read_ndjson(rows_path)
    if len(rows) != runs:
        raise vlib.Inconclusive("driver wrote %d of %d histories" % (len(rows), runs))
    tr = vlib.tlc_must(ctx, vlib.tlc(ctx, "DcsTrace", files={"rows.ndjson": rows_path}, cont=True,
                                     workers=8, timeout=3000), "DcsTrace")
    seen = set()
    for viol in tr.violations:
        st = viol["state"]
        ti, li = int(st.get("tr", "0")), int(st.get("l", "1")) - 1
        clause = st.get("bad", '"?"').strip('"')
        if (ti, li) in seen or not (0 < ti <= len(rows)):
            continue
        seen.add((ti, li))
        h = rows[ti - 1]
        e = h["events"][li - 1] if 0 < li <= len(h["events"]) else {}
        sig = {"op": e.get("op"), "res": e.get("res")}
        v.fail(clause, sig, "history %s step %d: %s(%s as %r, %s) by %s returned %s got=%r kids=%s present=%s"
               % (h["id"], li, e.get("op"), e.get("key"), e.get("spell"), e.get("val"), e.get("client"), e.get("res"),
                  e.get("got"), e.get("kids"), e.get("present")),
               {"history": h["id"], "step": li, "prefix": h["events"][:li],
                "how": "VERIF_SEED=%s go test -run TestVerifC15Rows ./internal/dcs (overlay)" % ctx.seed})
    # growth beyond the list: the health record across a mysync restart (HealthRecord.tla); OwnerAlive must hold,
    # RecordWhileAlive is expected to fail (documented observation, DESIGN.md 11) - neither can raise a violation here
    hr = vlib.tlc_must(ctx, vlib.tlc(ctx, "HealthRecord", cfg="MC_HealthRecord_holds.cfg", workers=2, timeout=300), "HealthRecord")
    if hr.violations:
        raise vlib.Inconclusive("HealthRecord.tla violates OwnerAlive (model counterexample): %s" % hr.violations[:1])
    hz = vlib.tlc(ctx, "HealthRecord", cfg="MC_HealthRecord.cfg", workers=2, timeout=300)
    events = sum(len(h["events"]) for h in rows)
    kinds = {}
    for h in rows:
        for e in h["events"]:
            k = "%s:%s" % (e["op"], e.get("res") or e.get("how") or "")
            kinds[k] = kinds.get(k, 0) + 1
    cov = {
        "states": tr.distinct, "transitions": tr.generated,
        "traces_validated_against_impl": len(rows),
        "evaluations": events, "distinct_nontrivial": len(kinds),
        "rule": "one history = 40-60 operations by 1-3 real zkDCS clients (Create, CreateEphemeral, Set, SetEphemeral, Get, "
                "Delete, GetChildren) over keys {a, a/b, c} in 4-5 spellings each, interleaved with out-of-band garbage "
                "writes, server-side session expiry, a cut longer than the session timeout (snapshot taken at timeout+0.2s, "
                "before healing) and process restart; TLC replays each history through DcsContract.tla; "
                "non-trivial = distinct (operation, result) classes exercised",
        "samples": [rows[0]["events"][:3]] if rows else [],
        "result_classes": kinds,
        "health_record_model_states": hr.distinct, "restart_hazard_counterexample_found": bool(hz.violations),
        "exhaustive": False,
    }
    assumptions = ["operations are issued while the client is connected (the property quantifies over faults between operations)",
                   "E7: the fake server expires a detached session after exactly its negotiated timeout",
                   "values are JSON integers 1-2; unparsable content is written out of band or is the empty parent created by set"]
    return "model_checking", cov, assumptions, v
