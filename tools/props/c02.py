"""C02 single-fault tolerance: one fault / one manual switchover on a converged cluster with workload, end state judged by TLC."""
import json
from tools import vlib
from tools import cluster
from tools import daemon


def run(ctx):
    v = vlib.Verdict(ctx)
    mc = cluster.mc_switchover(ctx, which=["MC_Switchover_mgr.cfg"] if ctx.quick else ["MC_Switchover_thorough.cfg"])
    env = {"VERIF_RUNS": "60" if ctx.quick else "100000"}
    if not ctx.quick:
        env["VERIF_FULL"] = "1"
    rows, fails, r = vlib.rows_check(ctx, "internal/app", "^TestVerifC02$", "FinalRows", env=env, timeout=14000,
                                     shards=16, chunk=1500, par=8, cfg="FinalRows_C02.cfg")
    meta = cluster.load_meta(ctx)
    for name, i, row in fails:
        sc = meta["scenarios"].get(row.get("scn"))
        parts = row["scn"].split("-")
        fault = parts[7].split("@")[0] if len(parts) > 7 else "?"
        target_role = "?"
        if len(parts) > 7 and "@" in parts[7]:
            tgt = parts[7].split("@")[1]
            target_role = "master" if tgt == "h1" else ("manager" if ("m" + tgt) == parts[6] else "replica")
        sig = {"ha": len(row["ha"]), "fault": fault, "target": target_role}
        what = ("single fault %s: recorded master %s, states %s, servers %s, acked tail %s, ack violation %r (scenario %s)"
                % (parts[7] if len(parts) > 7 else "?", row["tree"]["master"], row["states"],
                   {h: [x["up"], x["ro"], x["src"]] for h, x in row["hosts"].items()}, row["acked"][-2:], row["ackviol"], row["scn"]))
        v.fail(name, sig, what, {"scenario": sc, "row": cluster.compact_final(row),
                                 "how": "VERIF_ONLY='%s' VERIF_FULL=1 go test -run TestVerifC02 ./internal/app (overlay)" % row["scn"]})
    # conformance of the mode machine (Daemon.tla) on these fault-heavy runs: islands, coordination loss, process kills
    # and restarts (drift is counted; the clauses that belong to listed properties are reported by C03 / C09)
    modes = daemon.mode_rows(ctx, v, [x for x in rows if x["kind"] == "mode"], meta["scenarios"], "-")
    finals = [x for x in rows if x["kind"] == "final"]
    moved = sum(1 for x in finals if x["tree"]["master"] != "h1")
    kinds = {}
    for x in finals:
        p = x["scn"].split("-")
        k = p[7].split("@")[0] if len(p) > 7 else "?"
        kinds[k] = kinds.get(k, 0) + 1
    cov = {
        "mode_machine_rows": modes,
        "states": mc["distinct"], "transitions": mc["generated"],
        "traces_validated_against_impl": len(finals),
        "evaluations": meta["runs"], "distinct_nontrivial": len({x["scn"] for x in finals}),
        "rule": "cluster of 2/3/4 HA nodes (+ optional cascade replica) x wait count 1/2 x failover on/off x semi-sync order x "
                "manager on master/replica x fault {mysqld crash, host crash, machine cut off (island), mysync killed, ZooKeeper "
                "lost by one host, by all, manual switchover to/from} x target host x instant (round boundary or before the "
                "1st/4th/9th/16th/25th/40th SQL statement of the round) x duration 1/4/12 rounds x replication policy "
                "(saturating / ragged lag) ; 3 warm-up rounds with client commits on every host that accepts writes, healing, "
                "32 settle rounds; quick samples the product, thorough runs all of it. non-trivial = distinct scenarios run",
        "samples": [cluster.compact_final(x) for x in finals[:2]],
        "runs_by_fault": kinds, "runs_with_master_change": moved, "cases_total": max([m.get("cases_total", 0) for m in meta["summaries"]] or [0]),
        "mc": mc,
        "unrecoverable_panics_in_mysync_goroutines": [{"scenario": c["scenario"]["id"], "panic": c["panic"], "frames": c["frames"][:3]}
                                                      for c in getattr(ctx, "crashes", [])],
        "exhaustive": False,
    }
    assumptions = ["E1-E7 of DESIGN.md 6 as implemented by the fakes (semi-sync timeout infinite, restart = read-only + offline, "
                   "prepared transactions of a crashed master are committed at restart)",
                   "convergence bound: 32 rounds (tick + health + recovery per live instance, 1 s each) after healing",
                   "clients commit on every host that accepts writes; 'no second node acknowledges' is judged on the acknowledgement "
                   "log: a host that was succeeded as acknowledger must not acknowledge again unless mysync re-promoted it",
                   "island = the machine is cut off both MySQL-wise and ZooKeeper-wise, its own mysync still reaches the local server"]
    return "model_checking", cov, assumptions, v
