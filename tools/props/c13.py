"""C13 GTID relations / split-brain detection vs set semantics."""
from tools import vlib


def run(ctx):
    v = vlib.Verdict(ctx)
    mc = vlib.tlc_must(ctx, vlib.tlc(ctx, "MC_Gtid", workers=8, timeout=600), "MC_Gtid")
    if mc.violations:
        raise vlib.Inconclusive("Gtid.tla scan model disagrees with Maxima: %s" % mc.violations[:2])
    uni = "7" if ctx.quick else "8"
    rows, fails, r1 = vlib.rows_check(ctx, "internal/app", "^TestVerifGtidPairs$", "GtidRows",
                                      env={"VERIF_UNIVERSE": uni, "VERIF_RANDOM": "300" if ctx.quick else "5000"},
                                      timeout=3000)
    for name, i, row in fails:
        s, m = row.get("s", []), row.get("m", [])
        sig = {"tags": any(t[1] for t in s + m), "uuids": len({t[0] for t in s + m}),
               "relation": row.get("dlabel")}
        v.fail(name, sig, "GTID helpers on replica=%r source=%r: behind=%s ahead=%s diff=%s/%s/%s sb=%s panic=%r"
               % (row.get("stext"), row.get("mtext"), row.get("behind"), row.get("ahead"), row.get("dlabel"),
                  row.get("dsrc"), row.get("drep"), row.get("sb"), row.get("panic")),
               {"row": row, "driver": "TestVerifGtidPairs", "row_index": i})
    rows2, fails2, r2 = vlib.rows_check(ctx, "internal/app", "^TestVerifMostRecent$", "RecentRows",
                                        env={"VERIF_MAXLEN": "4" if ctx.quick else "5",
                                             "VERIF_RANDOM": "2000" if ctx.quick else "20000"}, timeout=3000)
    for name, i, row in fails2:
        sig = {"positions": len(row.get("pos", [])), "split": row.get("split")}
        v.fail(name, sig, "most-recent choice on %r returned res=%s split=%s panic=%r"
               % (row.get("pos"), row.get("res"), row.get("split"), row.get("panic")),
               {"row": row, "driver": "TestVerifMostRecent", "row_index": i})
    nontriv = sum(1 for r in rows if r["s"] and r["m"] and r["s"] != r["m"]) + \
        sum(1 for r in rows2 if len(r["pos"]) >= 2)
    cov = {
        "states": mc.distinct + r1.distinct + r2.distinct, "transitions": mc.generated + r1.generated + r2.generated,
        "traces_validated_against_impl": len(rows) + len(rows2),
        "evaluations": len(rows) + len(rows2), "distinct_nontrivial": nontriv,
        "rule": "pairs: every ordered pair of subsets of a %s-transaction universe (2 uuids, tagged and untagged, gaps) "
                "+ random large sets over 3 uuids/2 tags; lists: every list of 1..N subsets of a 3-txn universe + random "
                "lists of 2-5; non-trivial = both sets non-empty and different / list of >=2 positions; rows are "
                "distinct by construction (enumeration) " % uni,
        "samples": [rows[len(rows) // 3], rows[-1], rows2[len(rows2) // 2]],
        "exhaustive": True,
        "pairs": len(rows), "lists": len(rows2),
        "spec_scan_model_states": mc.distinct,
    }
    assumptions = ["GTID text is rendered by the harness's own formatter in MySQL syntax and the diff text parsed by "
                   "its own parser; go-mysql's parser is part of the code under test",
                   "split brain is read as 'no position contains all others' (the reading the statement's last sentence gives)"]
    return "model_checking", cov, assumptions, v
