"""C14 candidate selection honours priority within the lag bound."""
from tools import vlib


def run(ctx):
    v = vlib.Verdict(ctx)
    mc = vlib.tlc_must(ctx, vlib.tlc(ctx, "MC_Candidate", workers=16, timeout=900), "MC_Candidate")
    if mc.violations:
        raise vlib.Inconclusive("Candidate.tla: the algorithm model violates the clauses: %s" % mc.violations[:2])
    rows, fails, r = vlib.rows_check(
        ctx, "internal/app", "^TestVerifCandidate$", "CandidateRows",
        env={"VERIF_MAXEXH": "2", "VERIF_RANDOM": "12000" if ctx.quick else "150000"}, timeout=3000,
        crash_is=(r"stack overflow|goroutine stack exceeds", "C14_Terminates"))
    drift = 0
    for name, i, row in fails:
        if name.startswith("Conf_"):
            drift += 1
            continue
        pos = row.get("pos", [])
        sig = {"equal_prio": len({p["prio"] for p in pos}) <= 1, "from_given": row.get("from", 0) != 0,
               "empty": len(pos) == 0}
        v.fail(name, sig, "candidate choice on %r bound=%s from=%s returned %s hang=%s panic=%r %s"
               % (pos, row.get("b"), row.get("from"), row.get("res"), row.get("hang"), row.get("panic"),
                  row.get("crash", "")[:300]),
               {"row": row, "driver": "TestVerifCandidate", "row_index": i})
    # the call site: whatever performSwitchover promotes for a "switch away from X" request is never X, also when the
    # request is resumed after the recorded master has already moved (manager cut right after the master was published)
    from tools import cluster
    rows7, fails7, r7 = vlib.rows_check(ctx, "internal/app", "^TestVerifC07$", "PromoRows",
                                        env={"VERIF_RUNS": "45" if ctx.quick else "100000", "VERIF_CUTS_PER_BASE": "4" if ctx.quick else "1000",
                                             "VERIF_FULL": "" if ctx.quick else "1"},
                                        timeout=14000, shards=16, chunk=3000, par=8, cfg="PromoRows_C14.cfg")
    meta7 = cluster.load_meta(ctx)
    for name, i, row in fails7:
        v.fail(name, {"site": "performSwitchover", "request": row.get("cause")},
               "promotion of %s by %s for a request away from %s (scenario %s)" % (row["p"], row["by"], row["from"], row["scn"]),
               {"scenario": meta7["scenarios"].get(row["scn"]), "row": {k: row[k] for k in row if k != "hosts"}})
    # the call site again: candidates with different priorities, all within the bound; the read of one priority record fails
    rowsp, failsp, rp = vlib.rows_check(ctx, "internal/app", "^TestVerifC14Prio$", "PrioRows", env={}, timeout=3000, shards=12, chunk=3000,
                                        par=2, cfg="PrioRows.cfg")
    metap = cluster.load_meta(ctx)
    for name, i, row in failsp:
        v.fail(name, {"site": "getNodePositions", "failing_read": bool(row.get("failing"))},
               "promoted %s although the highest-priority candidate within the bound is %s (priority record of %r unreadable, "
               "request %s) (scenario %s)" % (row["promoted"], row["best"], row["failing"], row["request"], row["scn"]),
               {"scenario": metap["scenarios"].get(row["scn"]), "row": row})
    promos_from = sum(1 for x in rows7 if x["kind"] == "promo" and x.get("from"))
    nontriv = len({str((x["pos"], x["b"], x["from"])) for x in rows if len(x["pos"]) >= 2})
    cov = {
        "states": mc.distinct + r.distinct, "transitions": mc.generated + r.generated,
        "traces_validated_against_impl": len(rows), "evaluations": len(rows), "distinct_nontrivial": nontriv,
        "rule": "all lists of 0-2 positions over priorities {0,1,2} x lags {0,b-1,b,b+1,2b+2,unknown} x 4 GTID sets "
                "(chain and incomparable) x excluded host x bounds {0,1,60}; random lists of 3-5 over a finer grid; "
                "non-trivial = at least two positions; distinct counted on (positions, bound, from)",
        "samples": [rows[len(rows) // 7], rows[len(rows) // 2], rows[-1]],
        "call_site_promotions_with_from": promos_from, "call_site_runs": meta7["runs"], "call_site_priority_runs": len(rowsp),
        "exhaustive": True,
        "model_conformance": {"rows_equal_to_algorithm_model": len(rows) - drift, "drift": drift},
        "algorithm_model_states": mc.distinct,
    }
    assumptions = ["bounds are non-negative (as the statement says); lags are finite numbers",
                   "the tie-break is specified only through what it implies for the result (Tops), so every "
                   "order-dependent outcome among incomparable GTID sets is accepted",
                   "call-site clause (promoted node is never the 'from' host) is re-checked on cluster traces by C01/C06"]
    return "model_checking", cov, assumptions, v
