"""C04 published active list covers every semi-sync acker and matches the ack count."""
import json
from tools import vlib
from tools import cluster

ENABLE_LAG = 5000


def broken(hosts, ha, master, active, w):
    ina = set(active)
    bad = set()
    for r in ha:
        if r == master or r not in hosts:
            continue
        h = hosts[r]
        if h["reach"] and h["sss"] and r not in ina:
            bad.add("a")
    req = min(len(active) // 2, w)
    if req > 0 and master in hosts:
        m = hosts[master]
        if not m["ssm"] or m["wsc"] < req:
            bad.add("b")
    return "".join(sorted(bad))


def lag_joiner_listed(row):
    ex = row["exit"]
    return [h for h in row["active1"] if h != row["master"] and h in ex and ex[h]["reach"] and not ex[h]["sss"]
            and ex[h]["datalag"] > ENABLE_LAG]


def calls_of(row):
    out = []
    for c in row.get("calls", []):
        stmt, rest = c.split("@", 1)
        at, res = rest.split("=", 1)
        out.append((stmt, at, res))
    return out


RESTART = ("StartIO", "StopIO", "StartReplica", "StopReplica")


def publish_failed(row):
    """the injected fault of the scenario made the write of active_nodes fail inside this activation"""
    f = row.get("_fault") or {}
    return row["faulted"] and f.get("chan") == "zk" and f.get("at") == "active_nodes"


def witnesses(row):
    """Every reason why (a) or (b) is false at the exit/cut of the activation, attributed to the history
    that produced it.  Labels that are not 'unexplained' correspond to entries of known_findings.jsonl."""
    ex, master, a1, a0 = row["exit"], row["master"], set(row["active1"]), set(row["active0"])
    calls = calls_of(row)
    ok = lambda stmt, at: any(s == stmt and a == at and r == "ok" for s, a, r in calls)
    failed = lambda stmts, at: any(s in stmts and a == at and r != "ok" for s, a, r in calls)
    wit = []
    for r in row["ha"]:
        if r == master or r not in ex:
            continue
        h = ex[r]
        if not (h["reach"] and h["sss"] and r not in a1):
            continue
        if ok("SemiSyncSetSlave", r):                       # a joiner enabled in this activation
            if failed(RESTART, r):
                wit.append(("S13_enable_restart_failed", r))
            elif row["ended"] == "dead" or publish_failed(row):
                wit.append(("S2_enable_before_publish_cut", r))
            elif a1 == a0 and master in ex and not ex[master]["reach"] and (a0 - {x for x in a0 if x in ex and ex[x]["reach"]}):
                # nothing was published although a joiner had been enabled: the iteration also wanted to evict a member
                # and the eviction guard refused because the master had become unreachable in between
                wit.append(("S15_enable_then_shrink_refused_master_lost", r))
            else:
                wit.append(("unexplained_a_enabled_not_listed", r))
        elif r in a0:                                        # a member that left the list with the flag on
            if failed(("SemiSyncDisable",), r):
                wit.append(("S14_disable_failed_evicted", r))
            else:
                wit.append(("unexplained_a_evicted_with_flag", r))
        else:
            wit.append(("unexplained_a", r))
    req = min(len(a1) // 2, row["w"])
    if req > 0 and master in ex and (not ex[master]["ssm"] or ex[master]["wsc"] < req):
        lowered = any(s in ("SetWaitCount", "SemiSyncDisable") and a == master and r == "ok" for s, a, r in calls)
        if lag_joiner_listed(row):
            wit.append(("S10_lag_joiner_listed", ",".join(lag_joiner_listed(row))))
        elif any(s == "SemiSyncSetSlave" and r != "ok" for s, a, r in calls) or \
                any(ok("SemiSyncSetSlave", a) and failed(RESTART, a) for s, a, r in calls):
            wit.append(("F6_enable_failed_decrement", ""))
        elif (row["ended"] == "dead" or publish_failed(row)) and lowered:
            wit.append(("S3_wait_count_lowered_before_publish_cut", ""))
        elif lowered and a1 == a0 and not ex[master]["reach"]:
            # master-first order: the wait count was lowered for the shrunk list, then the eviction guard refused to
            # publish it because the master had stopped answering
            wit.append(("S16_wait_count_lowered_then_shrink_refused_master_lost", ""))
        elif failed(("SetWaitCount", "SemiSyncSetMaster"), master):
            wit.append(("S11_master_adjust_failed_list_published", ""))
        elif row["ended"] == "dead" and a1 != a0 and not lowered:
            wit.append(("unexplained_b_cut", ""))
        else:
            wit.append(("unexplained_b", ""))
    return wit


def run(ctx):
    v = vlib.Verdict(ctx)
    base = open(vlib.SPEC + "/MC_ActiveNodes.cfg").read()

    class MC:
        distinct = 0
        generated = 0
    mc = MC()
    for mf in ("TRUE", "FALSE"):
        for w in ((1, 2) if ctx.quick else (1, 2, 3)):
            cfg = base.replace("MF = TRUE", "MF = " + mf).replace("W = 2", "W = %d" % w)
            if not ctx.quick:
                cfg = cfg.replace("MaxFaults = 1", "MaxFaults = 2")
            r0 = vlib.tlc_must(ctx, vlib.tlc(ctx, "MC_ActiveNodes", files={"MC_ActiveNodes.cfg": cfg}, workers=8, timeout=1500),
                               "MC_ActiveNodes")
            if r0.violations:
                raise vlib.Inconclusive("ActiveNodes.tla (MF=%s W=%d): %s violated on the model: a window in which (a)&(b) break "
                                        "that is not among the known ones (candidate only): %s"
                                        % (mf, w, r0.violations[0]["name"], json.dumps(r0.violations[0]["state"])[:800]))
            mc.distinct += r0.distinct
            mc.generated += r0.generated
    env = {"VERIF_RUNS": "70" if ctx.quick else "100000", "VERIF_FAULTS_PER_BASE": "5" if ctx.quick else "1000"}
    if not ctx.quick:
        env["VERIF_FULL"] = "1"
    rows, fails, r = vlib.rows_check(ctx, "internal/app", "^TestVerifC04$", "IterRows", env=env, timeout=14000,
                                     shards=16, chunk=1500, par=8)
    meta = cluster.load_meta(ctx)
    for name, i, row in fails:
        sc = meta["scenarios"].get(row.get("scn")) or {}
        f = sc.get("fault") or {}
        if row["kind"] == "iter":
            row["_fault"] = f
            wits = witnesses(row) or [("unexplained_none", "")]
            for label, detail in wits:
                sig = {"cause": label}
                what = ("manager activation %d of %s (%s, fault %s): (a)&(b) broken at its end because %s %s; list %s -> %s, "
                        "calls %s (scenario %s)" % (row["seq"], row["by"], row["ended"], f or "none", label, detail,
                                                    row["active0"], row["active1"], row.get("calls", [])[-8:], row["scn"]))
                v.fail(name, sig, what, {"scenario": sc, "row": {k: row[k] for k in row if k not in ("entry", "exit", "_fault")},
                                         "how": "go test -run TestVerifC04 (overlay) with the same VERIF_SEED; scenario id " + row["scn"]})
            continue
        elif row["kind"] == "markwrite":
            sig = {"cause": "marked_while_listed"}
            what = ("%s marked %s for recovery while the published list was still %s (master %s) (scenario %s)"
                    % (row["by"], row["host"], row["active"], row["master"], row["scn"]))
        else:
            lagj = [h for h in row["value"] if h != row["master"] and h in row["hosts"] and not row["hosts"][h]["sss"]
                    and row["hosts"][h]["datalag"] > row["enablelag"] and h not in row["old"]]
            sig = {"cause": "S10_lag_joiner_listed" if lagj else "unexplained"}
            what = ("list write %s (old %s) by %s: lagging joiners %s, not-replicating clocks %s bound %s, recovery %s (scenario %s)"
                    % (row["value"], row["old"], row["by"], lagj, row["notreplms"], row["inactms"], row["recovery"], row["scn"]))
        v.fail(name, sig, what, {"scenario": sc, "row": {k: row[k] for k in row if k not in ("entry", "exit", "hosts")},
                                 "how": "VERIF_SCENARIO=<scenario json> is not enough for C04 (class setup): re-run "
                                        "go test -run TestVerifC04 with the same VERIF_SEED; scenario id " + row["scn"]})
    iters = [x for x in rows if x["kind"] == "iter"]
    lists = [x for x in rows if x["kind"] == "listwrite"]
    nontriv = len({(x["scn"], x["seq"]) for x in iters if x["lastmut"]})
    cov = {
        "states": mc.distinct, "transitions": mc.generated,
        "traces_validated_against_impl": meta["runs"],
        "evaluations": len(rows), "runs": meta["runs"], "distinct_nontrivial": nontriv,
        "rule": "evaluations = rows judged (manager activations and list writes) of `runs` scenario runs; clusters of 2-5 HA nodes (+cascade); every replica in one of 12 situation classes (member ok/dead/stopped/"
                "diverged/dubious/io-error/isolated, joiner ok/lagging with and without IO progress/dead, recovery-marked); "
                "both adjustment orders; configured count 1-3; 9 rounds; then the same with the manager killed after, or "
                "one call failing at, a call boundary of its activations (census; sampled in quick). One row per manager "
                "activation and per list write. non-trivial = activation that issued a mutating call",
        "samples": [{k: x[k] for k in x if k not in ("entry", "exit")} for x in iters[:2]] +
                   [{k: x[k] for k in x if k != "hosts"} for x in lists[:1]],
        "activations": len(iters), "list_writes": len(lists),
        "activations_cut_by_crash": sum(1 for x in iters if x["ended"] == "dead"),
        "activations_with_failed_call": sum(1 for x in iters if x["faulted"]),
        "base_scenarios": meta["bases"], "exhaustive": False,
    }
    assumptions = ["E3: rpl_semi_sync_slave_enabled is judged as the variable (as the statement says), not the latched state",
                   "'reachable from the manager' = the server is up and its network is not cut",
                   "the inactivation delay is measured per manager process from the first activation that started after the "
                   "replica stopped replicating, plus two activation lengths of slack",
                   "automatic failover is switched off in these scenarios (C05/C02 cover it)"]
    return "model_checking", cov, assumptions, v
