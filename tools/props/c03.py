"""C03 exclusive manager: ZkLock.tla (TLC) + real zkDCS lock histories + daemon activations judged by TLC."""
import json
import os
from tools import vlib
from tools import cluster
from tools import daemon


def release_cause(events, li):
    """Why did a delete request of client c remove a lock node owned by somebody else?
    Looks at the events between the start of the enclosing ReleaseLock call and the delete."""
    e = events[li - 1]
    c = e["client"]
    k = li - 2
    window = []
    while k >= 0:
        x = events[k]
        if x["op"] == "Begin" and x["client"] == c and x["arg"] == "rel":
            break
        window.append(x)
        k -= 1
    if k < 0:
        return "delete_outside_release"
    # window is newest-first; the owner check of this release must have been right when it was made
    gets = [x for x in window if x["op"] == "ZkGet" and x["client"] == c]
    if not gets or gets[0]["owner"] != c:
        return "none"
    if any(x["op"] == "ZkDelete" and x["client"] == c and x["preowner"] == c for x in window):
        return "delete_resent_after_lost_reply"
    if any(x["op"] == "ZkExpire" and x["client"] == c for x in window):
        return "session_replaced_between_check_and_delete"
    return "none"


def run(ctx):
    v = vlib.Verdict(ctx)
    # 1. the design: lock model, exhaustive (atomic check-and-store, as the code is after the S12 repair)
    mc = vlib.tlc_must(ctx, vlib.tlc(ctx, "ZkLock", cfg="MC_ZkLock.cfg" if ctx.quick else "MC_ZkLock_thorough.cfg",
                                     workers=8, timeout=3000), "ZkLock")
    if mc.violations:
        raise vlib.Inconclusive("ZkLock.tla violates its own invariants (model counterexample, not a verdict): %s"
                                % mc.violations[:1])
    race = vlib.tlc(ctx, "ZkLock", cfg="MC_ZkLock_race.cfg", workers=4, timeout=900)
    ctx.log("ZkLock: %d states; non-atomic store variant exhibits the S12 race: %s" % (mc.distinct, bool(race.violations)))

    # 2. layer: real zkDCS clients, systematic single injections + random histories
    out = ctx.sub("lockrows")
    shards = 8
    import subprocess
    binary = vlib.go_test_build(ctx, "internal/dcs")
    procs = []
    for i in range(shards):
        d = os.path.join(out, "s%d" % i)
        os.makedirs(d, exist_ok=True)
        env = dict(vlib.go_env(), VERIF_OUT=d, VERIF_SEED=str(ctx.seed), VERIF_SHARD="%d/%d" % (i, shards),
                   VERIF_RUNS="400" if ctx.quick else "40000", VERIF_SYS_PCT="100")
        lf = open(os.path.join(d, "driver.log"), "w")   # a file, not a pipe: nobody drains the other shards' pipes meanwhile
        procs.append((d, subprocess.Popen([binary, "-test.run", "^TestVerifC03LockRows$", "-test.timeout", "3h"],
                                          cwd=os.path.join("/repo", "internal/dcs"), env=env,
                                          stdout=lf, stderr=subprocess.STDOUT)))
    hist = []
    for d, p in procs:
        p.wait(timeout=11000)
        o = open(os.path.join(d, "driver.log"), errors="replace").read()[-400000:]
        if p.returncode != 0:
            raise vlib.Inconclusive("lock history driver failed:\n" + o[-3000:])
        hist += vlib.read_ndjson(os.path.join(d, "rows.ndjson"))
    stuck = [h["id"] for h in hist if h["stuck"]]
    if stuck:
        raise vlib.Inconclusive("lock histories in which a call never returned (harness watchdog): %s" % stuck[:5])
    hp = os.path.join(out, "rows.ndjson")
    with open(hp, "w") as f:
        for h in hist:
            f.write(json.dumps({"id": h["id"], "events": h["events"]}) + "\n")
    tr = vlib.tlc_must(ctx, vlib.tlc(ctx, "LockTrace", files={"rows.ndjson": hp}, cont=True, workers=8, timeout=3000),
                       "LockTrace")
    seen = set()
    for viol in tr.violations:
        st = viol["state"]
        ti, li = int(st["tr"]), int(st["l"]) - 1
        if (ti, li) in seen:
            continue
        seen.add((ti, li))
        clause = st["bad"].strip('"')
        h = hist[ti - 1]
        e = h["events"][li - 1]
        sig = {"layer": "zk"}
        if clause == "C03_ReleaseOwnOnly":
            sig["cause"] = release_cause(h["events"], li)
        else:
            sig["from_cache"] = not e["wire"]
        v.fail(clause, sig, "history %s event %d: %s by %s res=%s wire=%s owner=%s preowner=%s (script %s)"
               % (h["id"], li, e["op"], e["client"], e["res"], e["wire"], e["owner"], e["preowner"], json.dumps(h["script"]["steps"])),
               {"script": h["script"], "events": h["events"][:li],
                "how": "VERIF_LOCK_SCRIPT='<script json>' go test -run TestVerifC03LockRows ./internal/dcs (overlay)"})
    n_events = sum(len(h["events"]) for h in hist)
    told = sum(1 for h in hist for e in h["events"] if e["op"] == "Acquire" and e["res"])
    cached = sum(1 for h in hist for e in h["events"] if e["op"] == "Acquire" and e["res"] and not e["wire"])
    deletes = sum(1 for h in hist for e in h["events"] if e["op"] == "ZkDelete")

    # 3. application: activations of the real daemon in manager-handover scenarios
    env = {"VERIF_RUNS": "40" if ctx.quick else "100000", "VERIF_CUTS_PER_BASE": "6" if ctx.quick else "1000",
           "VERIF_LOCKROWS": "1"}
    if not ctx.quick:
        env["VERIF_FULL"] = "1"
    rows, fails, r = vlib.rows_check(ctx, "internal/app", "^TestVerifC07$", "LockAppRows", env=env, timeout=14000,
                                     shards=16, chunk=3000, par=8, cfg="LockAppRows.cfg")
    meta = cluster.load_meta(ctx)
    for name, i, row in fails:
        sc = meta["scenarios"].get(row.get("scn"))
        f = (sc or {}).get("fault") or {}
        sig = {"layer": "app", "cut": f.get("kind", "").replace("_after", "")}
        if row["kind"] == "act":
            sig["action"] = row["unconfirmed"]
            what = "%s in state %s issued %r after its last lock answer was 'not held' (scenario %s)" % (
                row["by"], row["state"], row["unconfirmed"], row["scn"])
        elif row["kind"] == "told":
            what = "%s was told it holds the manager lock while the lock node belonged to %r (scenario %s)" % (
                row["by"], row["owner"], row["scn"])
        else:
            what = "promotion of %s by %s inside a switchover without both lock re-checks (scenario %s)" % (
                row["p"], row["by"], row["scn"])
        v.fail(name, sig, what, {"scenario": sc, "row": {k: row[k] for k in row if k != "hosts"},
                                 "how": "VERIF_SCENARIO=<scenario json> go test -run TestVerifReplay ./internal/app (overlay)"})
    # 4. the mode machine (Daemon.tla): the model, every activation of a state handler in those runs, and the
    #    hand-over scripts (behaviours of the model replayed into real daemons with manager_switchover on)
    dm = daemon.mc_daemon(ctx)
    drift = daemon.mode_rows(ctx, v, [x for x in rows if x["kind"] == "mode"], meta["scenarios"], "C03_")
    ho = daemon.handover(ctx, v, "C03_")
    acts = [x for x in rows if x["kind"] == "act"]
    tolds = [x for x in rows if x["kind"] == "told"]
    promos = [x for x in rows if x["kind"] == "promo" and x["inswitch"]]
    cov = {
        "states": mc.distinct, "transitions": mc.generated,
        "traces_validated_against_impl": len(hist) + meta["runs"],
        "evaluations": n_events + len(rows), "distinct_nontrivial": len({h["id"] for h in hist if any(e["nested"] for e in h["events"])}),
        "rule": "layer: every (ttl 0/1/30s, backoff fast/default, prefix, acquire|release, injection point = before/after each "
                "ZooKeeper request on the lock node or the scheduling hook before the cache store, injected action = other "
                "client's acquire/release, expiry, cut, lost reply, tail) single-injection script plus random multi-client "
                "scripts; non-trivial = histories in which an injected action ran inside a call. application: the C07 "
                "manager-handover scenarios (manager dies / is cut off / its session expires and another candidate asks first, "
                "at call boundaries of the switchover activation), every activation and every positive lock answer projected",
        "samples": [hist[0]["events"][:4]] if hist else [],
        "lock_histories": len(hist), "lock_events": n_events, "positive_answers": told, "answers_from_cache": cached,
        "lock_node_deletes": deletes,
        "app_runs": meta["runs"], "activations_with_cluster_wide_actions": sum(a["count"] for a in acts),
        "positive_answers_app": sum(t["count"] for t in tolds), "promotions_in_switchover": len(promos),
        "model_race_variant_violates": bool(race.violations),
        "mode_machine": dict(dm, scenario_rows=drift, handover=ho),
        "exhaustive": False,
    }
    assumptions = ["E7: a session ends only by server-side expiry/close; no expiry is injected between the server applying a request "
                   "of that session and answering it (inherent lease race, the model's Expire guard)",
                   "ground truth of a positive answer = owner of the lock node at the call's last wire request on it, or at the "
                   "return when the answer came from the cache",
                   "cluster-wide action = mutating SQL on another node, or a write of master / active list / switch request or "
                   "outcome / recovery mark / maintenance; 'holds' = the last lock answer of the same activation was positive",
                   "external removal of the lock node by an operator is outside the quantifier"]
    return "model_checking", cov, assumptions, v
