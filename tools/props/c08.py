"""C08 lost coordination service: fence the node unless provably safe."""
from tools import vlib
from tools import cluster


def live(c, ss):
    return c == "streaming" or (c == "not_semisync" and not ss)


def must_fence(r):
    if r["n"] == 1 or r["role"] in ("cascade", "nonha") or r["disabled"]:
        return False
    if r["role"] == "replica":
        return True
    n = sum(1 for c in r["conds"] if live(c, r["semisync"]))
    return not (n >= r["wsc"] if r["semisync"] else n >= len(r["conds"]))


def run(ctx):
    v = vlib.Verdict(ctx)
    mc = vlib.tlc_must(ctx, vlib.tlc(ctx, "MC_Lost", workers=8, timeout=900), "MC_Lost")
    if mc.violations:
        raise vlib.Inconclusive("Lost.tla: transcription and table disagree on the model: %s" % mc.violations[0]["state"])
    env = {"VERIF_RUNS": "120" if ctx.quick else "100000"}
    if not ctx.quick:
        env["VERIF_FULL"] = "1"
    rows, fails, r = vlib.rows_check(ctx, "internal/app", "^TestVerifC08$", "LostRows", env=env, timeout=14000,
                                     shards=16, chunk=4000, par=4)
    meta = cluster.load_meta(ctx)
    for name, i, row in fails:
        sig = {"role": row["role"], "variant": row["variant"], "must_fence": must_fence(row),
               "unreachable": "timing_out" in row["conds"]}
        v.fail(name, sig, "lost-state activation %d: role=%s n=%d replicas=%s semi_sync=%s wait=%s disabled=%s since=%sms: "
               "local statements %s, remote %s, read_only after=%s, next=%s (scenario %s)"
               % (row["tick"], row["role"], row["n"], row["conds"], row["semisync"], row["wsc"], row["disabled"], row["sincems"],
                  row["localmut"], row["remotemut"], row["roafter"], row["next"], row["scn"]),
               {"row": row, "scenario": meta["scenarios"].get(row["scn"]), "how": "go test -run TestVerifC08 (overlay); scenario id " + row["scn"]})
    distinct = len({(x["role"], x["n"], tuple(x["conds"]), x["semisync"], x["wsc"], x["disabled"], x["variant"], x["tick"]) for x in rows})
    cov = {
        "states": mc.distinct + r.distinct, "transitions": mc.generated + r.generated,
        "traces_validated_against_impl": len(rows), "evaluations": len(rows), "distinct_nontrivial": distinct,
        "rule": "role (master/replica/cascade) x cluster size 1-4 x per-replica condition^(n-1) (streaming/stopped/wrong source/"
                "not semi-sync/refusing/timing out) x semi-sync x wait count x disable switch x outcome variant of the read-only "
                "attempt (ok, in-flight commits killed, stuck commits, other error, hang) x 3 lost ticks (0 s, 2 s, 8 s after "
                "the first); complete for n<=3, sampled for n=4 in quick; distinct = distinct decision cells x tick",
        "samples": rows[:2] + rows[-1:],
        "cells_requiring_fence": sum(1 for x in rows if must_fence(x)),
        "cells_postponed": sum(1 for x in rows if must_fence(x) and not x["roissued"]),
        "cells_fenced": sum(1 for x in rows if x["roissued"]),
        "cells_stuck_commit_path": sum(1 for x in rows if "SetOffline" in x["localmut"]),
        "decision_table_states": mc.distinct, "exhaustive": not ctx.quick,
    }
    assumptions = ["E1/E2: read-only blocks on commits waiting for an ack; KILL releases them unless the scenario says stuck",
                   "judged on effects: statements that reached the local/remote fake servers and the read_only flag after the tick",
                   "ticks are placed 2 s inside and 3 s outside the inactivation delay (no boundary instants)"]
    return "model_checking", cov, assumptions, v
