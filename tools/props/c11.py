"""C11 recovery protocol keeps diverged ex-masters out until proven clean."""
from tools import vlib
from tools import cluster


def run(ctx):
    v = vlib.Verdict(ctx)
    mc = cluster.mc_switchover(ctx, which=["MC_Switchover_faults.cfg"] if ctx.quick else ["MC_Switchover_thorough.cfg"])
    # the decision table of the recovery check (Recovery.tla): the clauses hold on the complete product of observations
    dm = vlib.tlc_must(ctx, vlib.tlc(ctx, "MC_Recovery", cfg="MC_Recovery.cfg", workers=2, timeout=600), "MC_Recovery")
    if dm.violations:
        raise vlib.Inconclusive("Recovery.tla violates its own clauses (model counterexample): %s" % dm.violations[:1])
    rows, fails, r = vlib.rows_check(ctx, "internal/app", "^TestVerifC11$", "RecoveryRows", env={}, timeout=7000,
                                     shards=12, chunk=4000, par=4, cfg="RecoveryRows.cfg")
    meta = cluster.load_meta(ctx)
    for name, i, row in fails:
        sig = {"kind": row["kind"], "variant": "-".join(row["scn"].split("-")[1:4])}
        if row["kind"] == "decide":
            sig = {"kind": "decide", "decision": row["decision"][:40]}
        v.fail(name, sig, "%s (scenario %s)" % ({k: row[k] for k in row if k != "scn"}, row["scn"]),
               {"row": row, "scenario": meta["scenarios"].get(row["scn"]),
                "how": "VERIF_ONLY=<scenario id> go test -run TestVerifC11 (overlay)"})
    ends = [x for x in rows if x["kind"] == "end"]
    cov = {
        "states": mc["distinct"] + r.distinct, "transitions": mc["generated"] + r.generated,
        "traces_validated_against_impl": meta["runs"], "evaluations": meta["runs"],
        "distinct_nontrivial": len({x["scn"] for x in rows if x["kind"] in ("clear", "end") and (x["kind"] == "clear" or x.get("resetupfile"))}),
        "rule": "marked ex-master h2 with GTID relation to the master {behind, equal, ahead, diverged} x replication {running, IO "
                "error, SQL error, not configured} x read_only {sro, rw} x stuck commits x resetup file present x interleaving "
                "{host's check before the manager's tick, after it, with a further switchover}; 10 rounds; plus three marking "
                "scenarios (failover from a dead master, failover whose old master cannot be frozen and is ahead, a second "
                "master met by repair); rows: every mark removal with ground truth, every list write / promotion while marked, "
                "end state; non-trivial = the mark was cleared or the resetup marker written",
        "samples": [x for x in rows if x["kind"] == "clear"][:1] + ends[:1] + [x for x in rows if x["kind"] == "mustmark"][:1],
        "mark_removals": sum(1 for x in rows if x["kind"] == "clear"),
        "ends_with_resetup_marker": sum(1 for x in ends if x["resetupfile"]),
        "list_writes_and_promotions_while_marked": sum(1 for x in rows if x["kind"] == "listed"),
        "mc": mc, "exhaustive": True,
    }
    assumptions = ["E2/E4: killed in-flight commits are locally committed; a replica holding transactions of the source's own "
                   "uuid that the source lacks gets IO error 13114",
                   "Switchover.tla carries C11_MarkedNotListed on the model; the waiting time for stuck commits (1 min) is not "
                   "exceeded in these 10-round runs, so 'stuck' hosts only have to stay marked"]
    return "model_checking", cov, assumptions, v
