"""C01 promotion only of a caught-up node backed by a frozen quorum."""
import json
import os
from tools import vlib
from tools import cluster


def run(ctx):
    v = vlib.Verdict(ctx)
    mc = cluster.mc_switchover(ctx)
    runs = "250" if ctx.quick else "100000"
    env = {"VERIF_RUNS": runs, "VERIF_FAULTS_PER_BASE": "12" if ctx.quick else "400"}
    if not ctx.quick:
        env["VERIF_FULL"] = os.environ.get("VERIF_C01_FULL", "")
    rows, fails, r = vlib.rows_check(ctx, "internal/app", "^TestVerifC01$", "PromoRows", env=env, timeout=7000,
                                     shards=16, chunk=1500, par=8, cfg="PromoRows_C01.cfg")
    meta = cluster.load_meta(ctx)
    cluster.no_panics_or_inconclusive(meta)
    for name, i, row in fails:
        sc = meta["scenarios"].get(row.get("scn"))
        sig = cluster.promo_signature(row, sc)
        if row["kind"] == "promo":
            what = ("promotion of %s by %s with list %s: frozen members behind it = %s, quorum needs %s (scenario %s)"
                    % (row["p"], row["by"], row["l"], cluster.good_members(row), cluster.quorum(len(row["l"]), row["w"]), row["scn"]))
        else:
            what = ("split brain among frozen members %s but promos=%s emerge=%s (scenario %s)"
                    % (row["frozen"], row["promos"], row["emerge"], row["scn"]))
        v.fail(name, sig, what, {"scenario": sc, "row": row,
                                 "how": "VERIF_SCENARIO=<scenario json> go test -run TestVerifReplay ./internal/app (overlay)"})
    promos = [x for x in rows if x["kind"] == "promo"]
    atts = [x for x in rows if x["kind"] == "attempt"]
    distinct = len({json.dumps([x["p"], x["l"], {h: [y["ro"], y["exec"], y["recv"], y["pend"], y["up"]] for h, y in x["hosts"].items()}],
                               sort_keys=True) for x in promos})
    skel = cluster.skeleton_rows(ctx, rows)
    cov = {
        "control_skeleton": skel,
        "states": mc["distinct"], "transitions": mc["generated"],
        "traces_validated_against_impl": meta["runs"],
        "evaluations": meta["runs"], "distinct_nontrivial": distinct,
        "rule": "real performSwitchover runs on the fakes: GTID shape (9 per replica x 4 master) x request kind (to/from/auto/"
                "forced/worker) x world policy (eager/lazy) x one fault {fail,hang,node dies before/after} at a call "
                "boundary taken from a dry-run census; non-trivial = a promotion event occurred; distinct = distinct "
                "(promoted host, list, per-host ro/exec/recv/pend/up) at the trigger instant",
        "samples": [cluster.compact_row(x) for x in (promos[:2] + atts[:1])],
        "promotion_events": len(promos), "attempts_with_freeze": len(atts),
        "attempts_split_brain_abort": sum(1 for a in atts if a["emerge"]),
        "base_scenarios": meta["bases"], "mc": mc,
        "exhaustive": False,
    }
    assumptions = ["environment assumptions E1-E6 (DESIGN.md 6) as implemented by the fake MySQL server",
                   "a member counts towards the quorum by ground truth, dead or alive: not writable and holding nothing "
                   "(executed, received or pending) that the promoted node has not executed",
                   "frozen members of an attempt = the hosts whose positions mysync reads after its first lock re-check; "
                   "split brain = no frozen member contains all others (the reading C13 gives)",
                   "async escape hatch scenarios are excluded (semi-sync or plain async replication only)"]
    return "model_checking", cov, assumptions, v
