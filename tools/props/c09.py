"""C09 maintenance freezes automation; leaving re-learns the real master."""
from tools import vlib
from tools import cluster


def run(ctx):
    v = vlib.Verdict(ctx)
    rows, fails, r = vlib.rows_check(ctx, "internal/app", "^TestVerifC09$", "MaintRows", env={}, timeout=7000,
                                     shards=14, chunk=4000, par=4)
    meta = cluster.load_meta(ctx)
    for name, i, row in fails:
        p = row["scn"].split("-")
        sig = {"kind": row["kind"], "action": p[2] if len(p) > 2 else "", "disturbance": p[3] if len(p) > 3 else ""}
        if row["kind"] == "frozen":
            ch = row.get("changes", [])
            selffence = bool(ch) and all(c.split(":")[1].startswith("SetSuperReadOnly@") and c.split(":")[0] == c.split("@")[1] for c in ch)
            sig = {"kind": "frozen", "class": "lost_unacked_candidate_fences_itself"
                   if selffence and "zk_loss_unacked" in row["scn"] else "other"}
        v.fail(name, sig, "%s (scenario %s)" % ({k: row[k] for k in row if k != "scn"}, row["scn"]),
               {"row": row, "scenario": meta["scenarios"].get(row["scn"]),
                "how": "VERIF_ONLY=<scenario id> go test -run TestVerifC09 (overlay)"})
    cov = {
        "states": r.distinct, "transitions": r.generated,
        "traces_validated_against_impl": meta["runs"], "evaluations": meta["runs"],
        "distinct_nontrivial": len({x["scn"] for x in rows if x["kind"] in ("frozen", "light")}),
        "rule": "full maintenance: operator action while paused {none, move the master, create two masters, leave no master, stop "
                "replication, crash a replica} x disturbance {none, manager restarted / killed, candidate restarted, ZooKeeper "
                "lost by the manager / by all / by candidates that have not seen the acknowledgement} x disable semi-sync on "
                "entry x world policy (workload commits in eager), leave requested at round 10 of 16; light maintenance: "
                "forced failover pending, master dies, planned switchover, broken replica; non-trivial = run in which "
                "maintenance was acknowledged (or light mode active)",
        "samples": [x for x in rows if x["kind"] == "frozen"][:1] + [x for x in rows if x["kind"] == "leave"][:1] +
                   [x for x in rows if x["kind"] == "stay"][:1] + [x for x in rows if x["kind"] == "light"][:1],
        "frozen_windows": sum(1 for x in rows if x["kind"] == "frozen"),
        "leaves_observed": sum(1 for x in rows if x["kind"] == "leave"),
        "stays_checked": sum(1 for x in rows if x["kind"] == "stay"), "exhaustive": True,
    }
    assumptions = ["a 'change' is a mutating statement that altered the fake server's state (no-op statements are not changes)",
                   "the frozen window runs from the manager's acknowledgement to the operator's leave request",
                   "the CLI's own enable/disable code path (TCP) is emulated by writing the record it writes"]
    return "model_checking", cov, assumptions, v
