"""C09 maintenance freezes automation; leaving re-learns the real master."""
from tools import vlib
from tools import cluster
from tools import daemon


def run(ctx):
    v = vlib.Verdict(ctx)
    # the design: Maint.tla (two processes, record, operator, outages, restarts); what must hold holds, and the one
    # path on which C09_Frozen fails in the model is finding S9 (a model counterexample alone is never a verdict)
    mc = vlib.tlc_must(ctx, vlib.tlc(ctx, "Maint", cfg="MC_Maint.cfg" if ctx.quick else "MC_Maint_thorough.cfg", workers=8, timeout=3000), "Maint")
    if mc.violations:
        raise vlib.Inconclusive("Maint.tla violates its own invariants (model counterexample): %s" % mc.violations[:1])
    s9 = vlib.tlc(ctx, "Maint", cfg="MC_Maint_S9.cfg", workers=4, timeout=900)
    ctx.log("Maint.tla: %d states; S9 path exhibited by the model: %s" % (mc.distinct, bool(s9.violations)))
    rows, fails, r = vlib.rows_check(ctx, "internal/app", "^TestVerifC09$", "MaintRows", env={}, timeout=7000,
                                     shards=14, chunk=4000, par=4)
    meta = cluster.load_meta(ctx)
    for name, i, row in fails:
        p = row["scn"].split("-")
        sig = {"kind": row["kind"], "action": p[2] if len(p) > 2 else "", "disturbance": p[3] if len(p) > 3 else ""}
        if row["kind"] == "frozen":
            ch = row.get("changes", [])
            selffence = bool(ch) and all(c.split(":")[1].startswith("SetSuperReadOnly@") and c.split(":")[0] == c.split("@")[1] for c in ch)
            sig = {"kind": "frozen", "class": "lost_unacked_candidate_fences_itself"
                   if selffence and "zk_loss_unacked" in row["scn"] else "other"}
        v.fail(name, sig, "%s (scenario %s)" % ({k: row[k] for k in row if k != "scn"}, row["scn"]),
               {"row": row, "scenario": meta["scenarios"].get(row["scn"]),
                "how": "VERIF_ONLY=<scenario id> go test -run TestVerifC09 (overlay)"})
    # the mode machine (Daemon.tla): every activation of a state handler in those runs; the clauses of the statement
    # ("candidates follow only after acknowledgement", the paused loop, the manager obeying the record) are C09's
    dm = daemon.mc_daemon(ctx)
    modes = daemon.mode_rows(ctx, v, [x for x in rows if x["kind"] == "mode"], meta["scenarios"], "C09_")
    cov = {
        "mode_machine": dict(dm, scenario_rows=modes),
        "states": mc.distinct + r.distinct, "transitions": mc.generated + r.generated,
        "maintenance_model_states": mc.distinct, "model_exhibits_S9": bool(s9.violations),
        "traces_validated_against_impl": meta["runs"], "evaluations": meta["runs"],
        "distinct_nontrivial": len({x["scn"] for x in rows if x["kind"] in ("frozen", "light")}),
        "rule": "full maintenance: operator action while paused {none, move the master, create two masters, leave no master, stop "
                "replication, crash a replica} x disturbance {none, manager restarted / killed, candidate restarted, ZooKeeper "
                "lost by the manager / by all / by candidates that have not seen the acknowledgement} x disable semi-sync on "
                "entry x world policy (workload commits in eager), leave requested at round 10 of 16; light maintenance: "
                "forced failover pending, master dies, planned switchover, broken replica; non-trivial = run in which "
                "maintenance was acknowledged (or light mode active)",
        "samples": [x for x in rows if x["kind"] == "frozen"][:1] + [x for x in rows if x["kind"] == "leave"][:1] +
                   [x for x in rows if x["kind"] == "stay"][:1] + [x for x in rows if x["kind"] == "light"][:1],
        "frozen_windows": sum(1 for x in rows if x["kind"] == "frozen"),
        "leaves_observed": sum(1 for x in rows if x["kind"] == "leave"),
        "stays_checked": sum(1 for x in rows if x["kind"] == "stay"), "exhaustive": True,
    }
    assumptions = ["a 'change' is a mutating statement that altered the fake server's state (no-op statements are not changes)",
                   "the frozen window runs from the manager's acknowledgement to the operator's leave request",
                   "the CLI's own enable/disable code path (TCP) is emulated by writing the record it writes"]
    return "model_checking", cov, assumptions, v
