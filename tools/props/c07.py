"""C07 switchover is resumable after a manager crash / loss of the coordination service at any point."""
import json
from tools import vlib
from tools import cluster


def classify(name, row):
    n = len(row["ha"])
    if n == 2:
        return "two_node_cluster"
    if name == "C02_NoAckedLossRow":
        m = row["tree"]["master"]
        have = set(row["hosts"].get(m, {}).get("exec", [])) | set(row["hosts"].get(m, {}).get("pend", []))
        miss = [t for t in row["acked"] if t not in have]
        if miss and all(row["states"].get(t.split(":")[0]) in ("DEAD", None) for t in miss):
            return "late_ack_on_master_without_mysync"
    return "other"


def run(ctx):
    v = vlib.Verdict(ctx)
    mc = cluster.mc_switchover(ctx, which=["MC_Switchover_mgr.cfg"] if ctx.quick else ["MC_Switchover_thorough.cfg"])
    env = {"VERIF_RUNS": "45" if ctx.quick else "100000", "VERIF_CUTS_PER_BASE": "6" if ctx.quick else "1000"}
    if not ctx.quick:
        env["VERIF_FULL"] = "1"
    rows, fails, r = vlib.rows_check(ctx, "internal/app", "^TestVerifC07$", "FinalRows", env=env, timeout=14000,
                                     shards=16, chunk=1500, par=8, cfg="FinalRows_C07.cfg")
    meta = cluster.load_meta(ctx)
    for name, i, row in fails:
        sc = meta["scenarios"].get(row.get("scn"))
        f = (sc or {}).get("fault") or {}
        sig = {"class": classify(name, row), "ha": len(row["ha"]), "request": (sc or {}).get("req", {}).get("kind"),
               "cut": f.get("kind", "").replace("_after", ""), "successor": "same" if "-same-" in row["scn"] else "other"}
        what = ("after the manager was cut at %s@%s#%s (%s): recorded master %s, request pending=%s, states %s, "
                "servers %s (scenario %s)"
                % (f.get("stmt"), f.get("at"), f.get("occ"), f.get("kind"), row["tree"]["master"], bool(row["tree"]["switch"]),
                   row["states"], {h: [x["up"], x["ro"], x["src"]] for h, x in row["hosts"].items()}, row["scn"]))
        v.fail(name, sig, what, {"scenario": sc, "row": cluster.compact_final(row),
                                 "how": "VERIF_SCENARIO=<scenario json> go test -run TestVerifReplay ./internal/app (overlay)"})
    skel = cluster.skeleton_rows(ctx, rows)
    finals = [x for x in rows if x["kind"] == "final"]
    distinct = len({x["scn"] for x in finals})
    cov = {
        "states": mc["distinct"], "transitions": mc["generated"],
        "traces_validated_against_impl": len(finals),
        "evaluations": meta["runs"], "distinct_nontrivial": distinct,
        "rule": "cluster of 2/3/4 HA nodes x GTID shape (old master alive/dead) x request kind x world policy x successor "
                "(same host restarted / another host) x cut kind (process dies / loses ZooKeeper) x cut point = every "
                "external call of the switchover activation taken from a dry-run census (sampled in quick); then 30 "
                "rounds (tick+health+recovery per live instance, 1 s each). non-trivial = run in which the cut fired "
                "(distinct scenario ids)",
        "samples": [cluster.compact_final(x) for x in finals[:2]],
        "control_skeleton": skel,
        "final_states_checked": len(finals), "base_scenarios": meta["bases"], "mc": mc,
        "unrecoverable_panics_in_mysync_goroutines": [{"scenario": c["scenario"]["id"], "panic": c["panic"], "frames": c["frames"][:3]}
                                                      for c in getattr(ctx, "crashes", [])],
        "exhaustive": False,
    }
    assumptions = ["E1-E7 of DESIGN.md 6 as implemented by the fakes; convergence bound K = 30 rounds of 1 s",
                   "loss of the coordination service heals 8 rounds after it happened",
                   "replicas 'follow' = configured source is the recorded master (a diverged ex-master cannot replicate)",
                   "panics inside goroutines spawned by mysync (RunParallel) kill the simulated process; they are "
                   "recorded here and judged by C20"]
    return "fault_enumeration", cov, assumptions, v
