"""C18 disk-space guard: read-only at critical usage, hysteresis on return."""
from tools import vlib
from tools import cluster


def run(ctx):
    v = vlib.Verdict(ctx)
    mc = vlib.tlc_must(ctx, vlib.tlc(ctx, "MC_DiskGuard", workers=8, timeout=900), "MC_DiskGuard")
    if mc.violations:
        raise vlib.Inconclusive("DiskGuard.tla: transcription and table disagree: %s" % mc.violations[0]["state"])
    env = {} if ctx.quick else {"VERIF_FULL": "1"}
    rows, fails, r = vlib.rows_check(ctx, "internal/app", "^TestVerifC18$", "DiskRows", env=env, timeout=7000,
                                     shards=8, chunk=4000, par=6)
    for name, i, row in fails:
        sig = {"keepsuper": row["keepsuper"], "robefore": row["robefore"], "master_level": "crit" if row["mu"] >= 95 else
               ("grey" if row["mu"] > 90 else ("none" if row["mu"] < 0 else "ok"))}
        v.fail(name, sig, "disk guard: master usage %s%%, semi-sync replicas %s, wait count %s, read_only before %s -> after %s, "
               "statements %s, low_space write %s (keep_super_writable=%s semi_sync=%s)"
               % (row["mu"], row["reps"], row["wsc"], row["robefore"], row["roafter"], row["stmts"], row["lowspace"],
                  row["keepsuper"], row["semisync"]), {"row": row, "how": "go test -run TestVerifC18 (overlay)"})
    cov = {
        "states": mc.distinct + r.distinct, "transitions": mc.generated + r.generated,
        "traces_validated_against_impl": len(rows), "evaluations": len(rows),
        "distinct_nontrivial": len({str(x) for x in rows if x["stmts"]}),
        "rule": "master usage {no report,50,90,92,95,99}% x 0-3 replicas each {usage 50/90/92/95/99 running semi-sync | semi-sync "
                "off | replication stopped | no disk report} x wait count 1-2 x current mode rw/ro/sro x keep_super_writable x "
                "semi_sync; thresholds 95/90; complete for <=2 replicas (+selected triples) in quick, complete triples in "
                "thorough; non-trivial = the guard issued a statement",
        "samples": [x for x in rows if x["stmts"]][:2] + rows[:1],
        "cells_to_ro": sum(1 for x in rows if "SetSuperReadOnly" in x["stmts"] or "SetReadOnlyNoSuper" in x["stmts"]),
        "cells_to_rw": sum(1 for x in rows if "SetWritable" in x["stmts"]),
        "cells_untouched": sum(1 for x in rows if not x["stmts"]),
        "exhaustive": True,
    }
    assumptions = ["usage values are integer percentages (Used/Total = pct/100 exactly)",
                   "config.Validate / SetDynamicDefaults threshold sanity is not part of this grid"]
    return "model_checking", cov, assumptions, v
