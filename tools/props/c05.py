"""C05 automatic failover is filed only when every gate is open."""
from tools import vlib
from tools import cluster


def run(ctx):
    v = vlib.Verdict(ctx)
    mc = vlib.tlc_must(ctx, vlib.tlc(ctx, "MC_FailoverGate", workers=8, timeout=900), "MC_FailoverGate")
    if mc.violations:
        raise vlib.Inconclusive("FailoverGate.tla: transcription and gate table disagree: %s" % mc.violations[0]["state"])
    env = {"VERIF_RUNS": "110" if ctx.quick else "100000"}
    if not ctx.quick:
        env["VERIF_FULL"] = "1"
    rows, fails, r = vlib.rows_check(ctx, "internal/app", "^TestVerifC05$", "GateRows", env=env, timeout=14000,
                                     shards=16, chunk=3000, par=6)
    meta = cluster.load_meta(ctx)
    for name, i, row in fails:
        p = row["scn"].split("-")
        sig = {"kind": row["kind"], "master": p[1], "history": p[5] if len(p) > 5 else ""}
        if row["kind"] == "filed":
            what = ("automatic failover filed by %s with: failover=%s maintenance=%r master record bad=%s for %sms (delay %sms, "
                    "waived by crash-recovery=%s/resetup=%s or fs read-only=%s), all others replicating=%s, alive in list %s of %s "
                    "(semi_sync=%s), last automatic failover %sms ago (cooldown %sms) (scenario %s)"
                    % (row["by"], row["failover"], row["maintenance"], row["masterbad"], row["sincefirstbadms"], row["delayms"],
                       row["crashrecovered"], row["resetupcrashed"], row["fsreadonly"], row["allothersreplicating"], row["aliveinlist"],
                       row["listsize"], row["semisync"], row["lastautoagems"], row["cooldownms"], row["scn"]))
        else:
            what = ("manager %s could not reach the master while its health record was good, yet issued %s cluster-wide call(s), "
                    "filed=%s (scenario %s)" % (row["by"], row["clusterwidecalls"], row["filed"], row["scn"]))
        v.fail(name, sig, what, {"row": row, "scenario": meta["scenarios"].get(row["scn"]),
                                 "how": "VERIF_ONLY=<scenario id> go test -run TestVerifC05 (overlay), same VERIF_SEED"})
    filed = [x for x in rows if x["kind"] == "filed"]
    cov = {
        "states": mc.distinct + r.distinct, "transitions": mc.generated + r.generated,
        "traces_validated_against_impl": meta["runs"], "evaluations": meta["runs"],
        "distinct_nontrivial": len({x["scn"] for x in filed}),
        "rule": "master condition (MySQL dead / host dead / read-only filesystem / crash-recovered / healthy / unreachable from the "
                "manager only) x replica states x maintenance none/light/full x last switch (none / automatic recent / automatic "
                "old / manual recent) x history (steady / health flapping / manager change) x failover on/off x "
                "resetup_crashed_hosts x pending request x dead list member x semi-sync x failover delay 0/5 s: the all-open "
                "cell, every single-gate-closed cell, and a random product (sampled in quick); 13 rounds each; non-trivial = "
                "scenario in which an automatic failover was filed",
        "samples": filed[:2] + [x for x in rows if x["kind"] == "susp"][:1],
        "filings_observed": len(filed), "suspicious_master_activations": sum(1 for x in rows if x["kind"] == "susp"),
        "scenarios_without_filing": meta["runs"] - len({x["scn"] for x in filed}),
        "gate_table_states": mc.distinct, "exhaustive": False,
    }
    assumptions = ["what a manager activation 'could observe' is read from the tree at the activation's start (records change only "
                   "between activations in this driver)",
                   "the delay clock is per manager process and restarts when the record is seen good",
                   "after a crash-recovery restart with resetup enabled the health record need not be bad (second filing site)"]
    return "model_checking", cov, assumptions, v
