"""C16 cascade replicas: source resolution terminates, never self, never quorum."""
from tools import vlib
from tools import cluster


def run(ctx):
    v = vlib.Verdict(ctx)
    env = {} if ctx.quick else {"VERIF_FULL": "1"}
    rows, fails, r = vlib.rows_check(ctx, "internal/app", "^TestVerifC16$", "CascadeRows", env=env, timeout=7000,
                                     shards=12, chunk=5000, par=8)
    meta = cluster.load_meta(ctx)
    for name, i, row in fails:
        if row["kind"] == "resolve":
            sig = {"kind": "resolve", "cyclic": row["host"] in [row["sf"].get(x) for x in row["sf"]], "cur": bool(row["cur"])}
            what = ("findBestStreamFrom(%s) with stream_from map %s, healthy %s, currently streaming from %r returned %r (hang=%s "
                    "panic=%r)" % (row["host"], row["sf"], row["healthy"], row["cur"], row["res"], row["hang"], row["panic"]))
        elif row["kind"] == "move":
            sig = {"kind": "move"}
            what = ("cascade replica %s re-pointed %s -> %s while replicating=%s with own transactions %s, new source has %s "
                    "(scenario %s)" % (row["host"], row["oldsrc"], row["newsrc"], row["wasreplicating"], row["execself"][-3:],
                                       row["execnew"][-3:], row["scn"]))
        elif row["kind"] == "cascveto":
            sig = {"kind": "cascveto"}
            what = ("%d automatic failover(s) filed for a master whose server is fine while every HA replica replicates: the "
                    "unreachable cascade replica was counted as an HA node (scenario %s)" % (row["failoversfiled"], row["scn"]))
        else:
            sig = {"kind": "count"}
            what = "list %s / promoted %s contain a cascade replica (scenario %s)" % (row["listed"], row["promoted"], row["scn"])
        v.fail(name, sig, what, {"row": row, "scenario": meta["scenarios"].get(row.get("scn")), "how": "go test -run TestVerifC16 (overlay)"})
    res = [x for x in rows if x["kind"] == "resolve"]
    cov = {
        "states": r.distinct, "transitions": r.generated,
        "traces_validated_against_impl": len(rows), "evaluations": len(rows),
        "distinct_nontrivial": len({str((x["sf"], x["healthy"], x["cur"])) for x in res if x["res"] != x["master"]}),
        "rule": "resolve: every stream_from map of 1-3 cascade replicas over {none, master, HA node, cascade nodes} (chains, "
                "cycles, self-references, references to HA nodes) x health of every possible ancestor (healthy / ping fails / "
                "offline / lagging / replication stopped / lag unknown; sampled above 40 combinations per map in quick) x "
                "current source of the replica (running from the configured one / from another / stopped / no replica status); "
                "move: GTID relation (equal/behind/ahead/diverged) x reason (source dies / lags / offline / configuration "
                "changed) x world policy in cluster runs; count: switchovers and failovers in clusters with 2 cascade "
                "replicas; non-trivial = resolution other than the master",
        "samples": res[:1] + [x for x in rows if x["kind"] == "move"][:1] + [x for x in rows if x["kind"] == "count"][:1],
        "resolutions": len(res), "moves_observed": sum(1 for x in rows if x["kind"] == "move"),
        "list_writes_with_cascade_present": sum(1 for x in rows if x["kind"] == "count"),
        "exhaustive": not ctx.quick,
    }
    assumptions = ["stream_from names are registered hosts (dangling references are C20's input space)",
                   "healthy source = reachable, online, and master or replicating with known lag below stream_from_reasonable_lag"]
    return "model_checking", cov, assumptions, v
