"""C06 every switch request reaches exactly one terminal outcome, in bounded time."""
import json
from tools import vlib
from tools import cluster


def run(ctx):
    v = vlib.Verdict(ctx)
    mc = cluster.mc_switchover(ctx, which=["MC_Switchover_faults.cfg"] if ctx.quick else ["MC_Switchover_thorough.cfg"])
    live = cluster.mc_liveness(ctx)
    rows, fails, r = vlib.rows_check(ctx, "internal/app", "^TestVerifC06$", "ReqRows", env={}, timeout=7000,
                                     shards=16, chunk=3000, par=4, hang_ok=True)
    meta = cluster.load_meta(ctx)
    # a scenario that never ends: a handler of the REAL manager loops for ever (hours of virtual time) while the request
    # is pending - no attempt is counted, neither the limit nor the timeout is looked at again
    for h in getattr(ctx, "hangs", []):
        fns = sorted({f.split(".")[-1] for g in h["stuck"] for f in g["functions"]})
        if not h["stuck"]:
            raise vlib.Inconclusive("scenario %s never ended but no goroutine sits in mysync code (harness problem)" % h["scenario"].get("id"))
        v.fail("C06_ManagerNeverStuck", {"variant": h["scenario"].get("id", "").split("-")[1], "stuck_in": fns[:3]},
               "the manager never returned from an activation while a request was pending (scenario %s %s); goroutines in "
               "mysync code: %s" % (h["scenario"].get("id"), h["what"], json.dumps(h["stuck"])[:1200]),
               {"scenario": h["scenario"], "stuck": h["stuck"],
                "how": "go test -run TestVerifC06 ./internal/app (overlay) with VERIF_ONLY=<scenario id>; the driver's real-time "
                       "watchdog (VERIF_HANG_S) dumps the goroutines"})
    for name, i, row in fails:
        sc = meta["scenarios"].get(row.get("scn"))
        sig = {"variant": row["scn"].split("-")[1], "trans": row["trans"], "cause": row["cause"]}
        v.fail(name, sig, "request %s (%s/%s) limit=%s timeout=%ss: success=%s rejected=%s opdelete=%s gone=%s maxrun=%s "
               "surviveddeadline=%s attempts=%s (scenario %s)"
               % (row["ident"], row["cause"], row["trans"], row["limit"], row["timeouts"], row["success"], row["rejected"],
                  row["opdelete"], row["gone"], row["maxrun"], row["surviveddeadline"], row["attempts"][:4], row["scn"]),
               {"scenario": sc, "row": row, "how": "go test -run TestVerifC06 ./internal/app (overlay); scenario id " + row["scn"]})
    nontriv = len({(x["scn"], x["ident"]) for x in rows if x["attempts"] or x["success"] + x["rejected"] + x["opdelete"] > 0})
    cov = {
        "states": mc["distinct"], "transitions": mc["generated"],
        "traces_validated_against_impl": meta["runs"],
        "evaluations": len(rows), "runs": meta["runs"], "distinct_nontrivial": nontriv,
        "rule": "evaluations = request rows judged (one per switch request seen) of `runs` scenario runs; request kind (to/from/forced failover/worker-written) x history variant (clean, catch-up stuck forever, a "
                "persistently failing call in freeze / re-point / promote / writable / the status query of the catch-up wait, operator abort early/late, a second "
                "initiator (worker; automatic failover when the master dies), light maintenance) x attempt limit 1-3 x "
                "switchover timeout {12 s, 1 h}, 40 rounds of 1 s on the virtual clock; one row per request identity; "
                "non-trivial = the request was attempted or reached an outcome",
        "samples": rows[:2] + rows[-1:],
        "requests_observed": len(rows), "with_success": sum(1 for x in rows if x["success"]),
        "with_rejection": sum(1 for x in rows if x["rejected"]), "with_abort": sum(1 for x in rows if x["opdelete"]),
        "mc": mc, "liveness": live, "scenarios_that_never_ended": len(getattr(ctx, "hangs", [])), "exhaustive": True,
    }
    assumptions = ["coordination calls of the manager succeed and it does not crash (C07's subject)",
                   "initiators other than the manager are emulated by direct create-if-absent writes of the key (the CLI's "
                   "own code path needs TCP and is not exercised here)",
                   "for requests without initiation time only the attempt limit is demanded"]
    return "model_checking", cov, assumptions, v
