#!/usr/bin/env python3
"""Pretty-print a TLC counterexample as per-step diffs.  usage: tlatrace.py <tlc output file>"""
import re
import sys


def parse(out):
    states = []
    cur = None
    for ln in out.splitlines():
        m = re.match(r"^State (\d+): (.*)$", ln)
        if m:
            cur = {"_hdr": m.group(2), "_vars": {}}
            states.append(cur)
            continue
        if cur is None:
            continue
        m = re.match(r"^/\\ (\w+) = (.*)$", ln)
        if m:
            cur["_last"] = m.group(1)
            cur["_vars"][m.group(1)] = m.group(2)
        elif ln.strip() == "":
            cur = None
        elif cur.get("_last"):
            cur["_vars"][cur["_last"]] += " " + ln.strip()
    return states


def main():
    out = open(sys.argv[1]).read()
    st = parse(out)
    prev = {}
    for i, s in enumerate(st):
        hdr = re.sub(r" line \d+, col \d+ to line \d+, col \d+ of module \w+", "", s["_hdr"])
        print("== %d %s" % (i + 1, hdr))
        for k, v in sorted(s["_vars"].items()):
            if prev.get(k) != v:
                print("   %s = %s" % (k, v))
        prev = s["_vars"]


if __name__ == "__main__":
    main()
