SPECIFICATION Spec
INVARIANTS C02_OneWritableMasterRow C02_ReplicasFollowRow C02_NoAckedLossRow C02_SingleAckerRow C02_MasterRecordedRow
CHECK_DEADLOCK FALSE
