SPECIFICATION Spec
INVARIANTS C08_FenceWhenRequired C08_Postpone C08_NoChangeWhenSafe C08_StuckCommits C08_NothingElse C08_StaysLost
CHECK_DEADLOCK FALSE
