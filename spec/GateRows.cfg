SPECIFICATION Spec
INVARIANTS C05_FailoverEnabled C05_NoMaintenance C05_NoOtherRequest C05_MasterBadForDelay C05_NotAllReplicating C05_Quorum C05_Cooldown C05_AllGates C05_SuspiciousMaster
CHECK_DEADLOCK FALSE
