SPECIFICATION Spec
CONSTANTS
  Key = {"a", "a/b", "c", "d", "d/e", "d/e/f"}
  Parent <- ParentMap
INVARIANTS C15_Contract
CHECK_DEADLOCK FALSE
