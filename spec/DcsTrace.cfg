SPECIFICATION Spec
CONSTANTS
  Key = {"a", "a/b", "c"}
  Parent <- ParentMap
INVARIANTS C15_Contract
CHECK_DEADLOCK FALSE
