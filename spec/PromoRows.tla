------------------------------ MODULE PromoRows -----------------------------
(* TraceP for C01 (and the promotion clauses of C11/C16/C19/C03): one row   *)
(* per observed promotion event / switchover attempt of the REAL code.      *)
EXTENDS ClusterProps, SequencesExt, Json, TLC
Rows == ndJsonDeserialize("rows.ndjson")
VARIABLE i
Init == i \in 1..Len(Rows)
Next == UNCHANGED i
Spec == Init /\ [][Next]_i
R == Rows[i]
HostNames == DOMAIN R.hosts
\* what the promoted node had received and never applied when THIS promotion discarded its relay log
\* (RESET REPLICA ALL) still counts as held by it: promoting it without applying them is precisely
\* "promotion of a node that is not caught up"
RelayLost(h) == IF R.kind = "promo" /\ h = R.p THEN ToSet(R.relaylost) ELSE {}
H == [h \in HostNames |-> [up |-> R.hosts[h].up, ro |-> R.hosts[h].ro,
                           exec |-> ToSet(R.hosts[h].exec), recv |-> ToSet(R.hosts[h].recv) \cup RelayLost(h),
                           pend |-> ToSet(R.hosts[h].pend), dur |-> R.hosts[h].dur]]
IsPromo   == R.kind = "promo"
IsAttempt == R.kind = "attempt"
L == ToSet(R.l) \cap HostNames

C01_PromotionSafeRow ==
    IsPromo /\ ~R.asyncesc =>
       IF R.semisync THEN C01_PromotionSafeSemi(L, R.p, H, R.w)
       ELSE C01_PromotionSafeAsyncRepl(L, R.p, H)
C01_SplitBrainAbortsRow ==
    IsAttempt /\ R.readsok /\ C01_SplitBrainAmong(ToSet(R.frozen), H) =>
       /\ R.promos = 0
       /\ (R.ended = "exit" => R.emerge)
\* C11: a host marked for recovery is never promoted;  C16: nor a cascade replica
C11_NoMarkedPromotedRow == IsPromo => R.p \notin ToSet(R.recovery)
C16_NoCascadePromotedRow == IsPromo => R.p \notin ToSet(R.cascade)
\* C19: not promoted while relaxed or registered
C19_NotPromotedRelaxedRow == IsPromo => H[R.p].dur = "safe" /\ R.p \notin ToSet(R.optreg)
\* C19: the speed-up phase has ended before the freeze: no durability-relaxing statement after the first freeze call
C19_PhaseEndsBeforeFreezeRow == IsAttempt => R.relaxafterfreeze = 0
\* C14 at the call site: never the host the switch moves away from
C14_NeverFromRow == IsPromo /\ R.from # "" => R.p # R.from
\* C03: lock re-confirmed after freezing and again after catch-up
C03_SwitchRechecksRow == IsPromo /\ R.inswitch => R.locksok
=============================================================================
