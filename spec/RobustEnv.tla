----------------------------- MODULE RobustEnv ------------------------------
(***************************************************************************)
(* C20 - the input space of the daemon's robustness property as a TLA+      *)
(* environment model: what the coordination tree and the servers may        *)
(* contain when an iteration or a background check runs.  Every variable is *)
(* something an operator, mysync's own CLI, an external tool or a failure   *)
(* can produce; every action changes one of them.  The model has no safety  *)
(* property of its own (TypeOK only): TLC enumerates / samples its          *)
(* behaviours and each one is replayed into the REAL daemon on the fakes     *)
(* (harness c20_test.go); the verdict (no panic, no process death, bounded   *)
(* goroutines and connections) comes from those runs (RobustRows.tla).       *)
(***************************************************************************)
EXTENDS Integers, Sequences, FiniteSets, TLC, Json
CONSTANTS MaxLen        \* behaviours are emitted at this length
Real   == {"h1", "h2", "h3"}
Ghost  == "g1"                \* a name no server and no mysync answers to
Names  == Real \cup {Ghost}
VARIABLES ha,        \* registered HA nodes (ha_nodes/*)
          casc,      \* cascade registration of h3 / g1: "none" or stream_from
          master,    \* recorded master
          active,    \* published active list
          switch,    \* pending switch request
          maint,     \* maintenance record
          recov,     \* recovery marks
          inst,      \* mysync process per real host
          health,    \* health record of a host whose mysync is dead
          mysql,     \* mysqld per real host
          opt,       \* optimisation registry entry per name: "none" | "new" | "enabled" | "garbage"
          sqlerr,    \* how SQL calls of the daemons answer
          zkerr,     \* how coordination calls answer
          hist
vars == <<ha, casc, master, active, switch, maint, recov, inst, health, mysql, opt, sqlerr, zkerr, hist>>

MasterVals == Names \cup {"absent", "garbage", "empty"}
ActiveVals == {"auto", "absent", "garbage", "empty", "ghost", "all_ghost"}
SwitchVals == {"absent", "to_ghost", "from_ghost", "to_h2", "from_h1", "to_self", "garbage", "empty_obj", "failover_ghost"}
MaintVals  == {"absent", "on", "leaving", "garbage"}
CascVals   == {"none", "h1", "h2", "self", Ghost, "empty", "garbage"}
HealthVals == {"auto", "missing", "garbage", "stale"}
SqlVals    == {"ok", "fail", "nulls"}
ZkVals     == {"ok", "fail"}
OptVals    == {"none", "new", "enabled", "garbage"}

TypeOK == /\ ha \subseteq Names /\ casc \in [{"h3", Ghost} -> CascVals] /\ master \in MasterVals
          /\ active \in ActiveVals /\ switch \in SwitchVals /\ maint \in MaintVals /\ recov \subseteq Names
          /\ inst \in [Real -> {"run", "dead"}] /\ health \in [Real -> HealthVals]
          /\ mysql \in [Real -> {"up", "down"}] /\ sqlerr \in SqlVals /\ zkerr \in ZkVals
          /\ opt \in [{"h2", "h3", Ghost} -> OptVals]

Init == /\ ha = Real /\ casc = [h \in {"h3", Ghost} |-> "none"] /\ master = "h1" /\ active = "auto"
        /\ switch = "absent" /\ maint = "absent" /\ recov = {} /\ inst = [h \in Real |-> "run"]
        /\ health = [h \in Real |-> "auto"] /\ mysql = [h \in Real |-> "up"] /\ sqlerr = "ok" /\ zkerr = "ok"
        /\ opt = [h \in {"h2", "h3", Ghost} |-> "none"]
        /\ hist = <<>>

Rec(var, key, val) == [var |-> var, key |-> key, val |-> val]
Log(r) == hist' = Append(hist, r)

AddHost(h)    == h \notin ha /\ ha' = ha \cup {h} /\ Log(Rec("ha", h, "add"))
                 /\ UNCHANGED <<casc, master, active, switch, maint, recov, inst, health, mysql, opt, sqlerr, zkerr>>
RemoveHost(h) == h \in ha /\ ha' = ha \ {h} /\ Log(Rec("ha", h, "remove"))
                 /\ UNCHANGED <<casc, master, active, switch, maint, recov, inst, health, mysql, opt, sqlerr, zkerr>>
SetCasc(h, v) == casc[h] # v /\ casc' = [casc EXCEPT ![h] = v] /\ Log(Rec("casc", h, v))
                 /\ UNCHANGED <<ha, master, active, switch, maint, recov, inst, health, mysql, opt, sqlerr, zkerr>>
SetMaster(v)  == master # v /\ master' = v /\ Log(Rec("master", "", v))
                 /\ UNCHANGED <<ha, casc, active, switch, maint, recov, inst, health, mysql, opt, sqlerr, zkerr>>
SetActive(v)  == active # v /\ active' = v /\ Log(Rec("active", "", v))
                 /\ UNCHANGED <<ha, casc, master, switch, maint, recov, inst, health, mysql, opt, sqlerr, zkerr>>
SetSwitch(v)  == switch # v /\ switch' = v /\ Log(Rec("switch", "", v))
                 /\ UNCHANGED <<ha, casc, master, active, maint, recov, inst, health, mysql, opt, sqlerr, zkerr>>
SetMaint(v)   == maint # v /\ maint' = v /\ Log(Rec("maint", "", v))
                 /\ UNCHANGED <<ha, casc, master, active, switch, recov, inst, health, mysql, opt, sqlerr, zkerr>>
Mark(h)       == h \notin recov /\ recov' = recov \cup {h} /\ Log(Rec("recov", h, "add"))
                 /\ UNCHANGED <<ha, casc, master, active, switch, maint, inst, health, mysql, opt, sqlerr, zkerr>>
Unmark(h)     == h \in recov /\ recov' = recov \ {h} /\ Log(Rec("recov", h, "remove"))
                 /\ UNCHANGED <<ha, casc, master, active, switch, maint, inst, health, mysql, opt, sqlerr, zkerr>>
Kill(h)       == inst[h] = "run" /\ inst' = [inst EXCEPT ![h] = "dead"] /\ Log(Rec("inst", h, "dead"))
                 /\ UNCHANGED <<ha, casc, master, active, switch, maint, recov, health, mysql, opt, sqlerr, zkerr>>
Start(h)      == inst[h] = "dead" /\ inst' = [inst EXCEPT ![h] = "run"] /\ health' = [health EXCEPT ![h] = "auto"]
                 /\ Log(Rec("inst", h, "run"))
                 /\ UNCHANGED <<ha, casc, master, active, switch, maint, recov, mysql, opt, sqlerr, zkerr>>
SetHealth(h, v) == inst[h] = "dead" /\ v # "auto" /\ health[h] # v /\ health' = [health EXCEPT ![h] = v]
                 /\ Log(Rec("health", h, v))
                 /\ UNCHANGED <<ha, casc, master, active, switch, maint, recov, inst, mysql, opt, sqlerr, zkerr>>
Crash(h)      == mysql[h] = "up" /\ mysql' = [mysql EXCEPT ![h] = "down"] /\ Log(Rec("mysql", h, "down"))
                 /\ UNCHANGED <<ha, casc, master, active, switch, maint, recov, inst, health, opt, sqlerr, zkerr>>
Restart(h)    == mysql[h] = "down" /\ mysql' = [mysql EXCEPT ![h] = "up"] /\ Log(Rec("mysql", h, "up"))
                 /\ UNCHANGED <<ha, casc, master, active, switch, maint, recov, inst, health, opt, sqlerr, zkerr>>
SetSql(v)     == sqlerr # v /\ sqlerr' = v /\ Log(Rec("sqlerr", "", v))
                 /\ UNCHANGED <<ha, casc, master, active, switch, maint, recov, inst, health, mysql, opt, zkerr>>
\* the client workload commits on every server that accepts writes (commits hang when no acker is left)
Commit        == Log(Rec("commit", "", "all"))
                 /\ UNCHANGED <<ha, casc, master, active, switch, maint, recov, inst, health, mysql, opt, sqlerr, zkerr>>
\* ... and a commit that hangs for good: it waits for an acknowledgement and the session survives KILL (the forced
\* read-only attempts of a fencing node then FAIL, tick after tick - the error path of everything that fences)
CommitStuck   == Log(Rec("commit", "", "stuck"))
                 /\ UNCHANGED <<ha, casc, master, active, switch, maint, recov, inst, health, mysql, opt, sqlerr, zkerr>>
\* an entry of the optimisation registry appears / changes / goes (mysync optimize on|off, the manager's own
\* turbo mode, an external tool); it may name a host that is not registered (any more)
SetOpt(h, v)  == opt[h] # v /\ opt' = [opt EXCEPT ![h] = v] /\ Log(Rec("opt", h, v))
                 /\ UNCHANGED <<ha, casc, master, active, switch, maint, recov, inst, health, mysql, sqlerr, zkerr>>
SetZk(v)      == zkerr # v /\ zkerr' = v /\ Log(Rec("zkerr", "", v))
                 /\ UNCHANGED <<ha, casc, master, active, switch, maint, recov, inst, health, mysql, opt, sqlerr>>

Next == /\ Len(hist) < MaxLen
        /\ \/ \E h \in Names : AddHost(h) \/ RemoveHost(h) \/ Mark(h) \/ Unmark(h)
           \/ \E h \in {"h3", Ghost}, v \in CascVals : SetCasc(h, v)
           \/ \E v \in MasterVals : SetMaster(v)
           \/ \E v \in ActiveVals : SetActive(v)
           \/ \E v \in SwitchVals : SetSwitch(v)
           \/ \E v \in MaintVals : SetMaint(v)
           \/ \E h \in Real : Kill(h) \/ Start(h) \/ Crash(h) \/ Restart(h)
           \/ \E h \in Real, v \in HealthVals : SetHealth(h, v)
           \/ \E v \in SqlVals : SetSql(v)
           \/ \E v \in ZkVals : SetZk(v)
           \/ Commit \/ CommitStuck
           \/ \E h \in {"h2", "h3", Ghost}, v \in OptVals : SetOpt(h, v)
Spec == Init /\ [][Next]_vars

\* behaviour export: one line per complete behaviour (always TRUE)
Emit == Len(hist) = MaxLen => PrintT(<<"BEHAVIOUR", ToJson(hist)>>)
=============================================================================
