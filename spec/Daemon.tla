------------------------------- MODULE Daemon -------------------------------
(***************************************************************************)
(* Behavioural model of the mode machine: node processes share one lock    *)
(* (ephemeral: it goes with the owner's session), a maintenance record and *)
(* a clock; the next-state relation of an activation is NextModes of       *)
(* DaemonModes.tla, the same operators the recorded activations of the     *)
(* real handlers are judged with (DaemonRows.tla).                         *)
(*                                                                         *)
(* view[n]: what n, as manager, finds when it looks for the master:        *)
(*   "sees"   the master answers (checkQuorum is not called),              *)
(*   "quorum" no master, but it reaches a majority of the live nodes,      *)
(*   "blind"  neither.                                                     *)
(* An activation takes d \in {0,1} time units; checkQuorum runs at its end.*)
(***************************************************************************)
EXTENDS DaemonModes
CONSTANTS Node, MaxT
None == "none"
VARIABLES mode, conn, lock, rec, mfile, lq, view, now, idle
vars == <<mode, conn, lock, rec, mfile, lq, view, now, idle>>

NoRec == [st |-> "absent", paused |-> FALSE, leave |-> FALSE, light |-> FALSE]
Unread == [st |-> "unread", paused |-> FALSE, leave |-> FALSE, light |-> FALSE]

TypeOK ==
    /\ mode \in [Node -> Modes]
    /\ conn \in [Node -> BOOLEAN]
    /\ lock \in Node \cup {None}
    /\ rec.st \in {"absent", "present"}
    /\ mfile \in [Node -> BOOLEAN]
    /\ lq \in [Node -> -1..MaxT]
    /\ view \in [Node -> {"sees", "quorum", "blind"}]
    /\ now \in 0..MaxT
    /\ idle \in [Node -> 0..MaxT]

Init ==
    /\ mode = [n \in Node |-> "FirstRun"]
    /\ conn = [n \in Node |-> TRUE]
    /\ lock = None
    /\ rec = NoRec
    /\ mfile = [n \in Node |-> FALSE]
    /\ lq = [n \in Node |-> -1]
    /\ view = [n \in Node |-> "sees"]
    /\ now = 0
    /\ idle = [n \in Node |-> 0]

Age(n) == IF lq[n] < 0 THEN -1 ELSE now - lq[n]
Ans(n) == lock \in {None, n}          \* what the coordination layer answers to a lock request of n
\* time an owner of the lock has spent in candidate mode while connected (k units pass)
IdleNext(k) == [x \in Node |-> IF mode'[x] = "Candidate" /\ lock' = x /\ conn'[x] THEN idle[x] + k ELSE 0]

\* observations an activation of n that takes d time units can make in the current state
Obs(n, d) ==
    IF ~conn[n] THEN
        {[locks |-> <<>>, released |-> FALSE, zk |-> 0, maint |-> Unread, mfile |-> mfile[n], mgrsw |-> TRUE]}
    ELSE
        {[locks |-> l, released |-> r, zk |-> 1, maint |-> rec, mfile |-> mfile[n], mgrsw |-> TRUE] :
            l \in {<<>>, <<Ans(n)>>, <<Ans(n), Ans(n)>>},
            r \in {mode[n] = "Manager" /\ Ans(n) /\ view[n] = "blind" /\ Phase(Age(n)) = "early" /\ MustRelease(lq[n], now + d)}}

Activate(n, d) ==
    /\ now + d <= MaxT
    /\ \E o \in Obs(n, d) :
       \E m \in NextModes(mode[n], o, {Phase(Age(n))}, {Phase(Age(n))}, MayRelease(lq[n], now, now + d)) :
        /\ (mode[n] = "FirstRun" /\ conn[n]) => o.locks # <<>>          \* WaitConnected succeeds when connected
        \* a manager whose timer has run out and who is blind does release
        /\ (mode[n] = "Manager" /\ o.locks # <<>> /\ o.locks[1]) =>
              o.released = (view[n] = "blind" /\ Phase(Age(n)) = "early" /\ MustRelease(lq[n], now + d))
        /\ mode' = [mode EXCEPT ![n] = m]
        /\ lock' = IF o.released /\ lock = n THEN None
                   ELSE IF o.locks # <<>> /\ o.locks[1] THEN n
                   ELSE lock
        \* the timer: App.AcquireLock clears it when it is "late"; checkQuorum sets it (blind), clears it
        \* (quorum) - and is not called at all while the master is visible
        /\ LET asked == o.locks # <<>>
               lqA == IF asked /\ Phase(Age(n)) = "late" THEN -1 ELSE lq[n]
           IN lq' = [lq EXCEPT ![n] =
                        IF mode[n] = "Manager" /\ asked /\ o.locks[1] /\ ~o.released THEN
                            (CASE view[n] = "sees" -> lqA
                               [] view[n] = "quorum" -> -1
                               [] view[n] = "blind" -> IF lqA < 0 THEN now + d ELSE lqA)
                        ELSE lqA]
        /\ rec' = IF mode[n] = "Manager" /\ m = "Maintenance" /\ rec.st = "present" THEN [rec EXCEPT !.paused = TRUE]
                  ELSE IF mode[n] \in {"Maintenance", "Manager"} /\ m = "Manager" /\ rec.st = "present" /\ rec.leave THEN NoRec
                  ELSE rec
        /\ mfile' = [mfile EXCEPT ![n] = IF m = "Maintenance" THEN TRUE
                                         ELSE IF mode[n] = "Maintenance" THEN FALSE ELSE mfile[n]]
    /\ now' = now + d
    /\ UNCHANGED <<conn, view>>
    /\ idle' = IdleNext(d)

\* environment
Tick == /\ now < MaxT
        /\ now' = now + 1
        /\ UNCHANGED <<mode, conn, lock, rec, mfile, lq, view>>
        /\ idle' = IdleNext(1)
Disconnect(n) == /\ conn[n]
                 /\ conn' = [conn EXCEPT ![n] = FALSE]
                 /\ lock' = IF lock = n THEN None ELSE lock          \* session expiry (the lock is ephemeral)
                 /\ UNCHANGED <<mode, rec, mfile, lq, view, now>>
                 /\ idle' = IdleNext(0)
Reconnect(n) == /\ ~conn[n]
                /\ conn' = [conn EXCEPT ![n] = TRUE]
                /\ UNCHANGED <<mode, lock, rec, mfile, lq, view, now>>
                /\ idle' = IdleNext(0)
Restart(n) == /\ mode' = [mode EXCEPT ![n] = "FirstRun"]
              /\ lq' = [lq EXCEPT ![n] = -1]
              /\ lock' = IF lock = n THEN None ELSE lock
              /\ UNCHANGED <<conn, rec, mfile, view, now>>
              /\ idle' = IdleNext(0)
SetView(n, b) == /\ view[n] # b
                 /\ view' = [view EXCEPT ![n] = b]
                 /\ UNCHANGED <<mode, conn, lock, rec, mfile, lq, now, idle>>
MaintOn == /\ rec.st = "absent"
           /\ rec' = [st |-> "present", paused |-> FALSE, leave |-> FALSE, light |-> FALSE]
           /\ UNCHANGED <<mode, conn, lock, mfile, lq, view, now, idle>>
MaintOff == /\ rec.st = "present" /\ rec.paused /\ ~rec.leave
            /\ rec' = [rec EXCEPT !.leave = TRUE]
            /\ UNCHANGED <<mode, conn, lock, mfile, lq, view, now, idle>>

Next == \/ \E n \in Node : \/ \E d \in {0, 1} : Activate(n, d)
                           \/ Disconnect(n) \/ Reconnect(n) \/ Restart(n)
                           \/ \E b \in {"sees", "quorum", "blind"} : SetView(n, b)
        \/ Tick \/ MaintOn \/ MaintOff
Spec == Init /\ [][Next]_vars

\* ---- properties -------------------------------------------------------------
\* at most one process is manager AND owner of the lock
OneOwningManager == Cardinality({n \in Node : mode[n] = "Manager" /\ lock = n}) <= 1
\* a process in maintenance mode has a reason: the record, or its marker file
MaintenanceHasReason == \A n \in Node : mode[n] = "Maintenance" => (rec.st = "present" \/ mfile[n])
\* candidates follow only an acknowledged full maintenance
CandidateFollowsAck == [][\A n \in Node : (mode[n] = "Candidate" /\ mode'[n] = "Maintenance") => FullAck(rec)]_vars
\* manager mode is entered only by an activation that owns the lock when it ends
EnterManagerNeedsLock == [][\A n \in Node : (mode[n] # "Manager" /\ mode'[n] = "Manager") => lock' = n]_vars
\* the voluntary release happens only while blind, and only when the timer is older than ED
ReleaseOnlyBlind == [][\A n \in Node : (lock = n /\ lock' = None /\ conn'[n] /\ conn[n] /\ mode'[n] = "Candidate")
                                        => (view[n] = "blind" /\ lq[n] >= 0 /\ now' - lq[n] > ED)]_vars

\* OBSERVATION (expected to FAIL on the model of the code as it is): a connected process owns the lock
\* while it idles in candidate mode for more than two time units.  App.AcquireLock refuses silently once the
\* timer is ED old, BEFORE checkQuorum gets the chance to release the lock: unless one activation begins
\* before ED and reaches checkQuorum after it, the manager steps down to candidate WITHOUT releasing,
\* nobody can take the lock, and after ED+AD the same process is manager again.  The timer is also not
\* cleared when the master becomes visible again, so a short blind spell has the same effect ED later.
NoIdleOwner == \A n \in Node : idle[n] <= 2
=============================================================================
