------------------------------- MODULE Cascade ------------------------------
(***************************************************************************)
(* C16 - source resolution of a cascade replica                            *)
(* (internal/app/app.go findBestStreamFrom ~2035).                         *)
(*   sf     : function cascade host -> configured source ("" = none)       *)
(*   healthy: set of hosts that are a usable source (reachable, online,    *)
(*            master or replicating with lag below the reasonable bound)   *)
(*   cur    : what the replica streams from right now while running, or "" *)
(***************************************************************************)
EXTENDS Integers, Sequences, FiniteSets

Next1(sf, h) == IF h \in DOMAIN sf THEN sf[h] ELSE ""

RECURSIVE Walk(_, _, _, _, _, _)
\* x: host whose configured source is inspected; seen: hosts on the path so far
Walk(sf, healthy, master, cur, x, seen) ==
    LET s == Next1(sf, x) IN
    IF s = "" THEN master
    ELSE IF s \in seen THEN master                       \* cyclic configuration
    ELSE IF Cardinality(seen) = 1 /\ cur = s THEN s       \* already streaming from the configured source
    ELSE IF s \in healthy THEN s                          \* nearest healthy ancestor
    ELSE Walk(sf, healthy, master, cur, s, seen \cup {s})

Resolve(sf, healthy, master, cur, host) == Walk(sf, healthy, master, cur, host, {host})

\* the chain of configured ancestors of host (until it ends or repeats)
RECURSIVE ChainSet(_, _, _)
ChainSet(sf, x, seen) == LET s == Next1(sf, x) IN
    IF s = "" \/ s \in seen THEN {} ELSE {s} \cup ChainSet(sf, s, seen \cup {s})

\* clauses over an arbitrary result r
ClauseNeverSelf(host, r) == r # host
ClauseConfiguredWhenHealthy(sf, healthy, cur, host, r) ==
    LET s == Next1(sf, host) IN (s # "" /\ s # host /\ (s \in healthy \/ cur = s)) => r = s
ClauseAncestorOrMaster(sf, master, host, r) == r = master \/ r \in ChainSet(sf, host, {host})
ClauseNearestHealthy(sf, healthy, master, cur, host, r) == r = Resolve(sf, healthy, master, cur, host)
=============================================================================
