------------------------------- MODULE ReqRows ------------------------------
(* TraceP for C06: one row per request identity, digested from the recorded  *)
(* trace of the REAL code (writes to switch / last_switch /                  *)
(* last_rejected_switch, manager activations, promotions).                   *)
EXTENDS Integers, Sequences, Json, TLC
Rows == ndJsonDeserialize("rows.ndjson")
VARIABLE i
Init == i \in 1..Len(Rows)
Next == UNCHANGED i
Spec == Init /\ [][Next]_i
R == Rows[i]
Outcomes == R.success + R.rejected + R.opdelete
FailoverType == R.trans = "failover"

\* exactly one terminal outcome once the key no longer holds the request, never more than one
C06_OneOutcome       == Outcomes <= 1 /\ (R.gone => Outcomes = 1)
\* a new request is never filed over a pending one by mysync
C06_NoOverwrite      == ~R.overwritten
\* processed by one manager at a time
C06_OneManagerAtATime == ~R.interleaved
\* an approved request is not re-judged on retry
C06_ApprovedOnce     == ~R.rejectnoquorumafterrun
\* each failed attempt is counted
C06_AttemptsCounted  == \A k \in 1..Len(R.attempts) :
                           R.attempts[k].ended = "failed" => R.attempts[k].runafter = R.attempts[k].runbefore + 1
\* planned switchovers never stay pending past the attempt limit (outside maintenance)
C06_BoundedAttempts  == (~FailoverType /\ ~R.light /\ R.managerran) => R.maxrun <= R.limit
\* no request stays pending past the switchover timeout (requests that carry an initiation time)
C06_Timeout          == (R.hasinittime /\ ~(R.light /\ FailoverType)) => ~R.surviveddeadline
\* recorded as succeeded => the recorded master is the promoted node and it is writable
C06_SuccessMeansDone == R.success > 0 => R.successok
=============================================================================
