SPECIFICATION GenSpec
CONSTANTS
  Node = {"n1", "n2"}
  ED = 2
  AD = 3
  MaxT = 30
  MaxLen = 24
INVARIANTS Emit
CHECK_DEADLOCK FALSE
