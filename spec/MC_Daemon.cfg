SPECIFICATION Spec
CONSTANTS
  Node = {"n1", "n2"}
  ED = 2
  AD = 2
  MaxT = 5
INVARIANTS TypeOK OneOwningManager MaintenanceHasReason
PROPERTIES CandidateFollowsAck ReleaseOnlyBlind EnterManagerNeedsLock
CHECK_DEADLOCK FALSE
