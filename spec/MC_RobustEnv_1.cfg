SPECIFICATION Spec
CONSTANTS MaxLen = 1
INVARIANTS TypeOK Emit
CHECK_DEADLOCK FALSE
