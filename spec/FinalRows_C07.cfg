SPECIFICATION Spec
INVARIANTS C07_RequestResolved C02_OneWritableMasterRow C02_ReplicasFollowRow C02_NoAckedLossRow
CHECK_DEADLOCK FALSE
