----------------------------- MODULE ActiveNodes ----------------------------
(***************************************************************************)
(* updateActiveNodes (internal/app/app.go ~972-1089) at external-call      *)
(* granularity: calc -> adjustBefore -> disable(r)* -> enable(r)* ->       *)
(* adjustAfter -> publish, with the manager dying at any label and any     *)
(* single call failing.  Replicas are abstracted to the class the update   *)
(* distinguishes: ok / dead / lag (download lag above semi_sync_enable_lag)*)
(* / div (diverged or not replicating: must leave the list).               *)
(*                                                                         *)
(* (a)&(b) of C04 are NOT preserved by every cut of this procedure; the    *)
(* invariant DestroysOnlyKnown pins the complete set of windows in which   *)
(* they are broken (they correspond to the known findings F-C04-1..5), so  *)
(* that any NEW window - in the model after a change of the spec, or in    *)
(* the code via the row validators - is reported.                          *)
(***************************************************************************)
EXTENDS Quorum, FiniteSets, TLC
CONSTANTS Rep,      \* replicas (the master is implicit and always listed)
          W,        \* configured wait count
          MF,       \* master_first_adjust_ss_order
          MaxFaults

VARIABLES cls,      \* cls[r] \in {"ok","dead","lag","div"}
          ssS,      \* rpl_semi_sync_slave_enabled per replica
          inA,      \* published active list (replicas in it)
          ssM, wsc, \* master side
          pc, act, bAct, bInact, bLag, wNew, todo,
          enFailed, disFailed, afterFailed, faults, dead, ab0

vars == <<cls, ssS, inA, ssM, wsc, pc, act, bAct, bInact, bLag, wNew, todo, enFailed, disFailed, afterFailed, faults, dead, ab0>>

Req(S) == Required(Cardinality(S) + 1, W)
Reach(r) == cls[r] # "dead"
A_ok == \A r \in Rep : (Reach(r) /\ ssS[r]) => r \in inA
B_ok == Req(inA) > 0 => (ssM /\ wsc >= Req(inA))
AB == A_ok /\ B_ok
OldW == IF ssM THEN wsc ELSE 0

Init ==
    /\ cls \in [Rep -> {"ok", "dead", "lag", "div"}]
    /\ inA \in SUBSET Rep
    /\ ssS \in [Rep -> BOOLEAN]
    /\ \A r \in Rep : ssS[r] => r \in inA             \* (a) holds at entry
    /\ \A r \in Rep : cls[r] = "lag" => ~ssS[r] /\ r \notin inA   \* lagging = joining
    /\ ssM = (Req(inA) > 0) /\ wsc = (IF Req(inA) > 0 THEN Req(inA) ELSE 1)   \* (b) holds at entry
    /\ pc = "calc" /\ act = {} /\ bAct = {} /\ bInact = {} /\ bLag = {} /\ wNew = 0 /\ todo = {}
    /\ enFailed = {} /\ disFailed = {} /\ afterFailed = FALSE /\ faults = 0 /\ dead = FALSE /\ ab0 = TRUE

Spend == faults < MaxFaults /\ faults' = faults + 1
Keep == faults' = faults
AdjustBefore(wn) == IF MF THEN wn < OldW ELSE wn > OldW
AdjustAfter(wn)  == IF MF THEN wn > OldW ELSE wn < OldW
SetMaster(wn) == /\ ssM' = (wn > 0) /\ wsc' = (IF wn > 0 THEN wn ELSE wsc)

Calc ==
    /\ pc = "calc" /\ ~dead
    /\ LET a == {r \in Rep : cls[r] \in {"ok", "lag"}}           \* alive, replicating, clean
           ba == {r \in a : ~ssS[r] /\ cls[r] = "ok"}
           bl == {r \in a : ~ssS[r] /\ cls[r] = "lag"}
           bi == {r \in Rep : ssS[r] /\ r \notin a}
           wn == Req(a \ bl)
       IN /\ act' = a /\ bAct' = ba /\ bLag' = bl /\ bInact' = bi /\ wNew' = wn
          /\ pc' = IF AdjustBefore(wn) THEN "before" ELSE "dis"
          /\ todo' = bi \cup bl
    /\ UNCHANGED <<cls, ssS, inA, ssM, wsc, enFailed, disFailed, afterFailed, faults, dead, ab0>>

Before ==
    /\ pc = "before" /\ ~dead
    /\ \/ Keep /\ SetMaster(wNew) /\ pc' = "dis"
       \/ Spend /\ pc' = "done" /\ UNCHANGED <<ssM, wsc>>        \* error returned: iteration ends
    /\ UNCHANGED <<cls, ssS, inA, act, bAct, bInact, bLag, wNew, todo, enFailed, disFailed, afterFailed, dead, ab0>>

Dis(r) ==
    /\ pc = "dis" /\ ~dead /\ r \in todo
    /\ todo' = todo \ {r}
    /\ \/ Reach(r) /\ Keep /\ ssS' = [ssS EXCEPT ![r] = FALSE] /\ UNCHANGED disFailed
       \/ ~Reach(r) /\ Keep /\ UNCHANGED <<ssS, disFailed>>       \* cannot be reached: only logged
       \/ Reach(r) /\ Spend /\ disFailed' = disFailed \cup {r} /\ UNCHANGED ssS
    /\ UNCHANGED <<cls, inA, ssM, wsc, pc, act, bAct, bInact, bLag, wNew, enFailed, afterFailed, dead, ab0>>

DisDone ==
    /\ pc = "dis" /\ ~dead /\ todo = {}
    /\ pc' = "en" /\ todo' = bAct
    /\ UNCHANGED <<cls, ssS, inA, ssM, wsc, act, bAct, bInact, bLag, wNew, enFailed, disFailed, afterFailed, faults, dead, ab0>>

En(r) ==
    /\ pc = "en" /\ ~dead /\ r \in todo
    /\ todo' = todo \ {r}
    /\ \/ Keep /\ ssS' = [ssS EXCEPT ![r] = TRUE] /\ UNCHANGED <<act, wNew, enFailed>>
       \/ \* SET succeeds, the IO-thread restart fails: dropped from the list, flag stays
          Spend /\ ssS' = [ssS EXCEPT ![r] = TRUE] /\ act' = act \ {r} /\ wNew' = wNew - 1
          /\ enFailed' = enFailed \cup {r}
       \/ \* SET itself fails
          Spend /\ act' = act \ {r} /\ wNew' = wNew - 1 /\ UNCHANGED <<ssS, enFailed>>
    /\ UNCHANGED <<cls, inA, ssM, wsc, pc, bAct, bInact, bLag, disFailed, afterFailed, dead, ab0>>

EnDone ==
    /\ pc = "en" /\ ~dead /\ todo = {}
    /\ pc' = IF AdjustAfter(wNew) THEN "after" ELSE "publish"
    /\ UNCHANGED <<cls, ssS, inA, ssM, wsc, act, bAct, bInact, bLag, wNew, todo, enFailed, disFailed, afterFailed, faults, dead, ab0>>

After ==
    /\ pc = "after" /\ ~dead
    /\ \/ Keep /\ wNew >= 0 /\ SetMaster(wNew) /\ UNCHANGED afterFailed
       \/ Spend /\ afterFailed' = TRUE /\ UNCHANGED <<ssM, wsc>>   \* only logged
    /\ pc' = "publish"
    /\ UNCHANGED <<cls, ssS, inA, act, bAct, bInact, bLag, wNew, todo, enFailed, disFailed, dead, ab0>>

Publish ==
    /\ pc = "publish" /\ ~dead
    /\ \/ Keep /\ inA' = act
       \/ Spend /\ UNCHANGED inA
    /\ pc' = "done"
    /\ UNCHANGED <<cls, ssS, ssM, wsc, act, bAct, bInact, bLag, wNew, todo, enFailed, disFailed, afterFailed, dead, ab0>>

Crash == /\ ~dead /\ pc # "done" /\ dead' = TRUE
         /\ UNCHANGED <<cls, ssS, inA, ssM, wsc, pc, act, bAct, bInact, bLag, wNew, todo, enFailed, disFailed, afterFailed, faults, ab0>>

Next == Calc \/ Before \/ DisDone \/ EnDone \/ After \/ Publish \/ Crash \/ \E r \in Rep : Dis(r) \/ En(r)
Spec == Init /\ [][Next]_vars

(***************************************************************************)
(* Properties                                                              *)
(***************************************************************************)
LagListed == \E r \in act : cls[r] = "lag"
\* a completed, failure-free iteration without a lagging joiner establishes (a)&(b)
C04_CompletedIteration == (pc = "done" /\ ~dead /\ faults = 0 /\ ~LagListed) => AB

\* the complete list of windows in which (a)&(b), true at entry, are broken
Window_EnableBeforePublish == \E r \in bAct : ssS[r] /\ r \notin inA /\ pc \in {"en", "after", "publish"}          \* F-C04-1 [S2]
Window_LagJoinerListed     == LagListed                                                                         \* F-C04-2 [S10]
Window_EnableRestartFailed == enFailed # {}                                                                     \* F-C04-3 [S13]
Window_DisableFailed       == disFailed # {}                                                                    \* F-C04-4 [S14]
Window_WaitCountLowered    == ~B_ok /\ OldW >= 0 /\ pc \in {"dis", "en", "after", "publish"} /\ Req(act \ bLag) < Req(inA) \* F-C04-5 [S3]
\* a failed enable decrements the wait count computed for the list WITH the joiner (waitSlaveCount--, ~1060):
\* when Required(list with joiner) = Required(list without) the master ends up waiting for too few
Window_EnableFailedDecrement == \E r \in bAct \ act : TRUE                                                       \* F-C04-6
Window_AfterFailed         == afterFailed                                                                       \* [S11]
Window_PublishFailed       == pc = "done" /\ faults > 0 /\ inA # act
Window_BeforeFailed        == pc = "done" /\ faults > 0
Window_Unreachable         == \E r \in bInact : ~Reach(r)
DestroysOnlyKnown ==
    ~AB => \/ Window_EnableBeforePublish \/ Window_LagJoinerListed \/ Window_EnableRestartFailed
           \/ Window_DisableFailed \/ Window_WaitCountLowered \/ Window_AfterFailed \/ Window_PublishFailed
           \/ Window_BeforeFailed \/ Window_EnableFailedDecrement
=============================================================================
