------------------------------- MODULE MC_Lost ------------------------------
(* The decision table of Lost.tla enumerated as a state machine together    *)
(* with a transcription of stateLost's decision (code order of the tests);  *)
(* TLC checks that the transcription agrees with the property's table.      *)
EXTENDS Lost, TLC
VARIABLES role, n, disabled, cs, semisync, wsc, since
vars == <<role, n, disabled, cs, semisync, wsc, since>>
Delay == 5
Init == /\ role \in {"master", "replica", "cascade", "nonha"} /\ n \in 1..4 /\ disabled \in BOOLEAN
        /\ semisync \in BOOLEAN /\ wsc \in 1..2 /\ since \in {0, 3, 7}
        /\ cs \in UNION {[1..k -> Conds] : k \in {n - 1}}
Next == UNCHANGED vars
Spec == Init /\ [][Next]_vars

\* transcription of stateLost (what it decides to do this tick): "none" | "fence"
CodeDecision ==
    IF n = 1 \/ role \in {"cascade", "nonha"} THEN "none"
    ELSE IF disabled THEN "none"
    ELSE LET running == IF semisync THEN NLive(cs, TRUE) >= wsc ELSE NLive(cs, FALSE) >= n - 1 IN
         IF role = "master" /\ running THEN "none"
         ELSE IF Unreach(cs) /\ since <= Delay THEN "none"
         ELSE "fence"
TableDecision ==
    IF MustFence(role, n, disabled, cs, semisync, wsc) /\ ~MayPostpone(cs, since, Delay) THEN "fence" ELSE "none"
InvAgree == CodeDecision = TableDecision
=============================================================================
