----------------------------- MODULE RecoveryRows ---------------------------
(* TraceP for C11: every removal of a recovery mark ("clear"), every mark     *)
(* creation ("mark") and the end state of the marked host ("end") observed    *)
(* while the REAL recovery check and manager ran.                             *)
EXTENDS Recovery, Sequences, Json, TLC
Rows == ndJsonDeserialize("rows.ndjson")
VARIABLE i
Init == i \in 1..Len(Rows)
Next == UNCHANGED i
Spec == Init /\ [][Next]_i
R == Rows[i]
\* the mark is cleared only by the host's own mysync, once it is a read-only replica whose
\* transactions are contained in the master's, with no replication error
C11_ClearOnlySelfClean ==
    R.kind = "clear" => /\ R.by = R.host
                        /\ R.src # "" /\ R.ro # "rw" /\ R.ioerr = 0 /\ R.sqlerr = 0
                        /\ R.execsubset
\* if it holds transactions the master lacks, or its replication is in error, the resetup
\* marker is written instead and the mark stays
C11_ResetupInstead ==
    (R.kind = "end" /\ R.isreplica /\ (~R.execsubset \/ R.replerror)) => (R.resetupfile /\ R.marked)
\* a clean read-only replica is eventually released (conformance of the happy path, bounded)
C11_CleanReleased ==
    (R.kind = "end" /\ R.isreplica /\ R.execsubset /\ ~R.replerror /\ R.ro # "rw" /\ ~R.resetupfile /\ ~R.stuck) => ~R.marked
\* marked when a switchover could not confirm the old master as a clean replica / a second master is met
C11_Marked == R.kind = "mustmark" => R.markseen
\* while marked (and not the recorded master) never listed, never promoted
C11_Excluded == R.kind = "listed" => ~R.markedlisted
\* decision rows: the REAL checkRecovery run once (twice for the long-stuck cells) on one cell of the observation product
DObs == [rfile |-> R.rfile, status |-> R.status, stuck |-> R.stuck, stucklong |-> R.stucklong, ismaster |-> R.ismaster,
         rel |-> R.rel, replerr |-> R.replerr, ro |-> R.ro]
Conf_Decision == R.kind = "decide" => R.decision = Decide(DObs)
C11_DecisionClearOnlyClean == R.kind = "decide" /\ R.decision = "clear" => (R.status /\ R.ro /\ R.rel = "within" /\ ~R.replerr)
C11_DecisionAheadResetup == (R.kind = "decide" /\ ~R.rfile /\ R.status /\ ~R.stuck /\ (R.rel = "ahead" \/ R.replerr)) => R.decision = "resetup"
=============================================================================
