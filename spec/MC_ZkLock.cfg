SPECIFICATION Spec
CONSTANTS
  Client = {c1, c2}
  MaxDisc = 2
  MaxOps = 5
  AtomicStore = TRUE
INVARIANTS C03_AtMostOneTold C03_NotAfterLoss
CHECK_DEADLOCK FALSE
