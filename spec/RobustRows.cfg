SPECIFICATION Spec
CONSTANTS Slack = 6
INVARIANTS C20_NoPanicRow C20_NoGoroutineLeakRow C20_NoConnectionLeakRow C20_NoLeakOnErrorPath
CHECK_DEADLOCK FALSE
