------------------------------ MODULE DiskGuard -----------------------------
(***************************************************************************)
(* C18 - disk-space guard (internal/app/app.go repairReadOnlyOnMaster      *)
(* ~1693-1772).  Usage values are integer percentages.                     *)
(*   mu    : master usage, or -1 when the master has no disk report        *)
(*   reps  : sequence of records [usage, running] - semi-sync replicas     *)
(*           that reported disk state; running = semi-sync slave enabled   *)
(*           and replication running (only those count)                    *)
(***************************************************************************)
EXTENDS Integers, Sequences, FiniteSets
Running(reps) == {k \in DOMAIN reps : reps[k].running}
Low(reps, crit) == {k \in Running(reps) : reps[k].usage >= crit}
Normal(reps, nc) == {k \in Running(reps) : reps[k].usage <= nc}

\* the master must be read-only
NeedRO(mu, reps, wsc, crit) ==
    \/ (mu >= 0 /\ mu >= crit)
    \/ (Running(reps) # {} /\ Cardinality(Low(reps, crit)) > Cardinality(Running(reps)) - wsc)
\* a read-only master may be made writable again
MayWrite(mu, reps, nc) ==
    /\ (mu < 0 \/ mu <= nc)
    /\ (Running(reps) = {} \/ Normal(reps, nc) # {})
\* the mode the guard wants when it fences: super-read-only unless super users stay writable
WantedMode(keepSuper) == IF keepSuper THEN "ro" ELSE "sro"
=============================================================================
