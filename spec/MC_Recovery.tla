----------------------------- MODULE MC_Recovery ----------------------------
(* TLC over the complete product of observations of Recovery.tla *)
EXTENDS Recovery
VARIABLE o
Init == o \in {x \in Obs : Sensible(x)}
Next == UNCHANGED o
Spec == Init /\ [][Next]_o
\* the mark is cleared only by a read-only replica whose transactions are contained in the master's, without error
C11_ClearOnlyClean == ClearOnlyClean(o)
\* ... and never while commits of its own are stuck unacknowledged, unless it is itself the recorded master
C11_ClearNotStuck == ClearNotStuck(o)
\* transactions the master lacks, or replication in error, lead to the resetup marker (never to a clear)
C11_AheadMeansResetup == AheadMeansResetup(o)
\* an existing marker file freezes the decision
C11_FileFreezes == FileFreezes(o)
=============================================================================
