SPECIFICATION Spec
CONSTANTS
  r1 = r1
  r2 = r2
  r3 = r3
  Rep = {r1, r2, r3}
  W = 2
  MF = TRUE
  MaxFaults = 1
INVARIANTS C04_CompletedIteration DestroysOnlyKnown
CHECK_DEADLOCK FALSE
