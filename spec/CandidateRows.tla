---------------------------- MODULE CandidateRows ---------------------------
(* Binding for C14: the REAL filterOutNodeFromPositions+getMostDesirableNode *)
(* row = [pos: seq of [prio, lag, set(list)], b, from, res, hang, panic]     *)
EXTENDS Candidate, SequencesExt, Json, TLC
Rows == ndJsonDeserialize("rows.ndjson")
VARIABLE i
Init == i \in 1..Len(Rows)
Next == UNCHANGED i
Spec == Init /\ [][Next]_i
R == Rows[i]
P == [j \in DOMAIN R.pos |-> [prio |-> R.pos[j].prio, lag |-> R.pos[j].lag, set |-> ToSet(R.pos[j].set)]]

C14_Terminates        == ~R.hang /\ R.panic = ""
C14_ErrorIffEmpty     == ~R.hang => ClauseErrorIffEmpty(P, R.from, R.res)
C14_IsCandidate       == ~R.hang => ClauseIsCandidate(P, R.from, R.res)
C14_NeverFrom         == ~R.hang => ClauseNeverFrom(R.from, R.res)
C14_PriorityWithinBound == ~R.hang => ClausePriorityWithinBound(P, R.from, R.b, R.res)
C14_EqualPrioMostRecent == ~R.hang => ClauseEqualPrioMostRecent(P, R.from, R.b, R.res)
Conf_MatchesSpec      == ~R.hang => R.res = Choose(P, R.from, R.b)
=============================================================================
