SPECIFICATION Spec
INVARIANTS InvAgree
CHECK_DEADLOCK FALSE
