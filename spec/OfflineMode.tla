----------------------------- MODULE OfflineMode ----------------------------
(***************************************************************************)
(* C17 - offline-mode policy of the periodic repair pass                   *)
(* (internal/app/app.go repairOfflineMode ~1569, repairSlaveOfflineMode    *)
(* ~1601, repairMasterOfflineMode ~1585; offline_mode_filter.go).          *)
(* A pass is judged on the ordered list of offline_mode statements it      *)
(* issued.  hosts: function name -> record [zone, lag (-1 unknown),        *)
(* offline, broken, ismaster, resetupstatus, resetupfresh]                 *)
(***************************************************************************)
EXTENDS Integers, Sequences, FiniteSets

InZone(hosts, z) == {h \in DOMAIN hosts : ~hosts[h].ismaster /\ hosts[h].zone = z}
OfflineInZone(hosts, z) == {h \in InZone(hosts, z) : hosts[h].offline}

\* share of offline replicas in the zone if one more goes offline (floor, percent)
WillBePct(hosts, z, pending) ==
    (100 * (Cardinality(OfflineInZone(hosts, z)) + pending + 1)) \div Cardinality(InZone(hosts, z))

\* number of lag-motivated SetOffline events of the same zone before position k
PendingBefore(ev, hosts, k) ==
    Cardinality({j \in 1..(k - 1) : ev[j].op = "SetOffline" /\ ev[j].reason = "lag" /\ hosts[ev[j].host].zone = hosts[ev[k].host].zone})

EnableAllowed(ev, hosts, k, masterRW, enableLag, pct) ==
    LET h == ev[k].host IN
    /\ ~hosts[h].ismaster
    /\ hosts[h].lag > enableLag
    /\ masterRW
    /\ Cardinality(InZone(hosts, hosts[h].zone)) > 0
    /\ WillBePct(hosts, hosts[h].zone, PendingBefore(ev, hosts, k)) <= pct

DisableAllowed(hosts, h, disableLag) ==
    /\ hosts[h].lag >= 0 /\ hosts[h].lag <= disableLag
    /\ ~hosts[h].broken
    /\ hosts[h].resetupfresh /\ ~hosts[h].resetupstatus
=============================================================================
