SPECIFICATION Spec
INVARIANTS C19_NotPromotedRelaxedRow C19_PhaseEndsBeforeFreezeRow
CHECK_DEADLOCK FALSE
