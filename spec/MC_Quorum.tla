----------------------------- MODULE MC_Quorum ------------------------------
(* Exhaustive enumeration of the (n, w, p) input space of C12 as a state    *)
(* machine: one state per input triple; the clauses are invariants.         *)
EXTENDS Quorum
CONSTANTS MaxN, MaxW
VARIABLES n, w, p
vars == <<n, w, p>>

Init == n = 0 /\ w = 0 /\ p = 0
Next == \/ p < n + 1 /\ p' = p + 1 /\ UNCHANGED <<n, w>>
        \/ p = n + 1 /\ w < MaxW /\ w' = w + 1 /\ p' = 0 /\ UNCHANGED n
        \/ p = n + 1 /\ w = MaxW /\ n < MaxN /\ n' = n + 1 /\ w' = 0 /\ p' = 0
Spec == Init /\ [][Next]_vars

Accept(nn, ww, pp) == pp >= FailoverQuorum(nn, ww)   \* CheckFailoverQuorum, semi-sync

InvClauses      == AllClauses(n, w)
InvAcceptSafe   == ClauseAcceptSafeSemiSync(n, Required(n, w), p, Accept(n, w, p))
\* the headline consequence: any accepted p-set meets any req-set of replicas
InvPigeonhole   == Accept(n, w, p) /\ p <= n => p + Required(n, w) > Replicas(n)
\* monotone in p
InvMonotone     == Accept(n, w, p) => Accept(n, w, p + 1)
=============================================================================
