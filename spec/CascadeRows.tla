----------------------------- MODULE CascadeRows ----------------------------
(* TraceP for C16: the REAL findBestStreamFrom (rows "resolve") and every     *)
(* re-pointing of a cascade replica observed in cluster runs (rows "move").   *)
EXTENDS Cascade, SequencesExt, Json, TLC
Rows == ndJsonDeserialize("rows.ndjson")
VARIABLE i
Init == i \in 1..Len(Rows)
Next == UNCHANGED i
Spec == Init /\ [][Next]_i
R == Rows[i]
IsRes == R.kind = "resolve"
IsMove == R.kind = "move"
SF == R.sf
Healthy == ToSet(R.healthy)

C16_Terminates == IsRes => (~R.hang /\ R.panic = "")
C16_NeverSelf == (IsRes /\ ~R.hang /\ R.panic = "") => ClauseNeverSelf(R.host, R.res)
C16_ConfiguredWhenHealthy == (IsRes /\ ~R.hang /\ R.panic = "") => ClauseConfiguredWhenHealthy(SF, Healthy, R.cur, R.host, R.res)
C16_AncestorOrMaster == (IsRes /\ ~R.hang /\ R.panic = "") => ClauseAncestorOrMaster(SF, R.master, R.host, R.res)
C16_NearestHealthy == (IsRes /\ ~R.hang /\ R.panic = "") => ClauseNearestHealthy(SF, Healthy, R.master, R.cur, R.host, R.res)
\* a cascade replica that was replicating is moved only once the new source contains its transactions
C16_GuardedMove == (IsMove /\ R.wasreplicating) => ToSet(R.execself) \subseteq ToSet(R.execnew)
C16_MoveNeverSelf == IsMove => R.newsrc # R.host
\* cascade replicas are never listed as active, never promoted; quorum counts exclude them: with two HA
\* nodes and the master dead an automatic failover to the only HA replica must still be possible
IsCount == R.kind = "count"
C16_NeverListed   == IsCount => ToSet(R.listed) \cap ToSet(R.cascade) = {}
C16_NeverPromoted == IsCount => ToSet(R.promoted) \cap ToSet(R.cascade) = {}
\* an unreachable cascade replica is not counted as an HA node: with every HA replica replicating from a master whose
\* server is fine, the automatic failover stays vetoed
C16_DeadCascadeNotCounted == R.kind = "cascveto" => R.failoversfiled = 0
=============================================================================
