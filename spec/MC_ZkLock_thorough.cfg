SPECIFICATION Spec
CONSTANTS
  Client = {c1, c2, c3}
  MaxDisc = 3
  MaxOps = 7
  AtomicStore = TRUE
INVARIANTS C03_AtMostOneTold C03_NotAfterLoss
CHECK_DEADLOCK FALSE
