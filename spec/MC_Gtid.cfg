SPECIFICATION Spec
INVARIANTS InvScanFindsMaximum InvScanResultMax InvChainHasMax
CHECK_DEADLOCK FALSE
