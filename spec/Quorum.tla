------------------------------- MODULE Quorum -------------------------------
(***************************************************************************)
(* C12 - quorum arithmetic of mysync (internal/mysql/switch_helper.go).     *)
(*                                                                         *)
(*   n = size of the published active list (master included when alive)    *)
(*   w = configured rpl_semi_sync_master_wait_for_slave_count              *)
(*                                                                         *)
(* This module is the single source of truth for the arithmetic: the       *)
(* cluster specifications (ActiveNodes, Switchover, Lost, FailoverGate)    *)
(* EXTEND it, the TLAPS proof (Quorum_proofs.tla) proves the closed form,  *)
(* and QuorumRows.tla judges the values returned by the real Go helpers    *)
(* against the CLAUSES below (not against Required/FailoverQuorum).        *)
(***************************************************************************)
EXTENDS Integers

Min(a, b) == IF a <= b THEN a ELSE b
Max(a, b) == IF a >= b THEN a ELSE b

\* number of acknowledgements the master is told to wait for
Required(n, w) == Min(n \div 2, w)

\* number of frozen/alive list members needed to fail over
FailoverQuorum(n, w) == Max(n - Required(n, w), 1)

\* replicas in a list of size n (the list contains the master)
Replicas(n) == Max(n - 1, 0)

(***************************************************************************)
(* The clauses of the property, phrased over *any* candidate values        *)
(* (req, q) so that they can be evaluated on what the code returns.        *)
(***************************************************************************)
ClauseReqBounded(n, w, req)  == req >= 0 /\ req <= Replicas(n)
ClauseReqZeroOnly(n, w, req) == (req = 0) => (Replicas(n) = 0 \/ w = 0)
ClauseQuorumAtLeastOne(q)    == q >= 1
ClauseIntersect(n, req, q)   == q + req > Replicas(n)

\* a set of p alive/frozen members accepted for failover must intersect
\* every set of req acknowledging replicas among Replicas(n)
ClauseAcceptSafeSemiSync(n, req, p, ok) == ok => (p >= 1 /\ p + req > Replicas(n))
ClauseAcceptSafeAsync(p, ok)            == ok => p >= 1

AllClauses(n, w) ==
    LET req == Required(n, w)
        q   == FailoverQuorum(n, w)
    IN  /\ ClauseReqBounded(n, w, req)
        /\ ClauseReqZeroOnly(n, w, req)
        /\ ClauseQuorumAtLeastOne(q)
        /\ ClauseIntersect(n, req, q)
=============================================================================
