---------------------------- MODULE MC_FailoverGate -------------------------
(* The gate product enumerated; a transcription of stateManager/approveFailover's *)
(* order of tests must file exactly when GatesOpen holds.                          *)
EXTENDS FailoverGate, TLC
VARIABLE g
GT == [failover : BOOLEAN, maintenance : {"none", "light", "full"}, switchexisted : BOOLEAN, masterbad : BOOLEAN,
       crashrecovered : BOOLEAN, resetupcrashed : BOOLEAN, fsreadonly : BOOLEAN, sincefirstbadms : {0, 6000}, delayms : {0, 5000},
       allothersreplicating : BOOLEAN, semisync : BOOLEAN, aliveinlist : 0..2, listsize : {1, 3}, w : {1}, lastautoagems : {-1, 1000, 7200000},
       cooldownms : {3600000}]
Init == g \in GT
Next == UNCHANGED g
Spec == Init /\ [][Next]_g
\* transcription: which branch files?
Approve == /\ g.failover
           /\ (IF (g.crashrecovered /\ g.resetupcrashed) \/ g.fsreadonly THEN TRUE
               ELSE ~g.allothersreplicating /\ (g.delayms = 0 \/ g.sincefirstbadms >= g.delayms))
           /\ (IF g.semisync THEN g.aliveinlist >= FailoverQuorum(g.listsize, g.w) ELSE g.aliveinlist # 0)
           /\ ~(g.lastautoagems >= 0 /\ g.lastautoagems < g.cooldownms)
\* stateManager: maintenance full -> no; switch exists -> handled elsewhere; (record bad \/ fs ro) branch; light -> suppressed;
\* second site: crash recovery with a good record
CodeFiles == /\ g.maintenance # "full" /\ ~g.switchexisted
             /\ \/ (g.masterbad /\ g.maintenance # "light" /\ Approve)
                \/ (~g.masterbad /\ g.resetupcrashed /\ g.crashrecovered /\ g.maintenance # "light" /\ Approve)
\* the second site files with a GOOD health record: the statement waives the delay after a crash-recovery restart
\* ("not required after a crash-recovery restart with resetup enabled"); masterbad is then read as "crash-recovered"
TableFiles == GatesOpen([g EXCEPT !.masterbad = g.masterbad \/ (g.crashrecovered /\ g.resetupcrashed)])
InvAgree == CodeFiles = TableFiles
=============================================================================
