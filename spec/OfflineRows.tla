----------------------------- MODULE OfflineRows ----------------------------
(* TraceP for C17: one row per call of the REAL repairOfflineMode.           *)
EXTENDS OfflineMode, SequencesExt, Json, TLC
Rows == ndJsonDeserialize("rows.ndjson")
VARIABLE i
Init == i \in 1..Len(Rows)
Next == UNCHANGED i
Spec == Init /\ [][Next]_i
R == Rows[i]
H == R.hosts
E == R.events
Evs(op) == {k \in DOMAIN E : E[k].op = op}

\* offline for lag only above the threshold, master writable, zone share within the percentage
C17_EnableOnlyWhenAllowed ==
    \A k \in Evs("SetOffline") : E[k].reason = "lag" => EnableAllowed(E, H, k, R.masterrw, R.enablelag, R.pct)
\* online only at/below the lower threshold, not permanently broken, resetup status fresh and negative
C17_DisableOnlyWhenAllowed ==
    \A k \in Evs("SetOnline") : ~H[E[k].host].ismaster => DisableAllowed(H, E[k].host, R.disablelag)
\* between the thresholds the mode is left unchanged
C17_HysteresisUntouched ==
    \A k \in DOMAIN E : LET h == E[k].host IN
        (~H[h].ismaster /\ ~H[h].broken /\ H[h].lag > R.disablelag /\ H[h].lag <= R.enablelag) => FALSE
\* unknown lag: nothing happens to the replica
C17_UnknownLagUntouched == \A k \in DOMAIN E : ~H[E[k].host].ismaster => H[E[k].host].lag >= 0
\* permanently broken replicas: at most one per interval, cluster-wide
\* (an offline statement for a broken replica that the lag rule explains is not counted here)
C17_BrokenRateLimited ==
    LET B == {k \in Evs("SetOffline") : E[k].reason = "broken" /\ ~EnableAllowed(E, H, k, R.masterrw, R.enablelag, R.pct)} IN
    /\ Cardinality(B) <= 1
    /\ (B # {} => (R.lastshutdownagems < 0 \/ R.lastshutdownagems > R.intervalms))
\* the master is kept online unless it is marked for recovery
C17_MasterKeptOnline ==
    /\ (R.masteroffline /\ ~R.mastermarked) => \E k \in Evs("SetOnline") : H[E[k].host].ismaster
    /\ (R.mastermarked) => ~\E k \in Evs("SetOnline") : H[E[k].host].ismaster
    /\ ~\E k \in Evs("SetOffline") : H[E[k].host].ismaster
=============================================================================
