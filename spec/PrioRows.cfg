SPECIFICATION Spec
INVARIANTS C14_PriorityAtCallSite C14_ChosenWhenReadable
CHECK_DEADLOCK FALSE
