------------------------------- MODULE MC_Gtid ------------------------------
(* Model-level sanity of the Gtid operators over the complete small universe *)
(* and a reference model of the code's scan (fold with Equal/Contain) whose   *)
(* result must agree with Maxima for every order of the positions.            *)
EXTENDS Gtid, TLC
U == {<<"a","",1>>, <<"a","",2>>, <<"b","",1>>, <<"a","t",1>>}   \* universe of transactions
VARIABLES P        \* sequence of sets (positions), grown nondeterministically
Sets == SUBSET U
Init == P \in {<<s>> : s \in Sets}
Next == Len(P) < 3 /\ \E s \in Sets : P' = Append(P, s)
Spec == Init /\ [][Next]_P

\* transcription of findMostRecentNodeAndDetectSplitbrain's scan (lags ignored:
\* they only break ties between equal sets)
RECURSIVE Scan(_, _, _)
Scan(Q, j, cur) == IF j > Len(Q) THEN cur
                   ELSE IF Q[j] # Q[cur] /\ Q[cur] \subseteq Q[j] THEN Scan(Q, j + 1, j)
                   ELSE Scan(Q, j + 1, cur)
ScanResult(Q) == Scan(Q, 2, 1)
Detect(Q) == \E k \in DOMAIN Q : ~(Q[k] \subseteq Q[ScanResult(Q)])

InvScanFindsMaximum == Detect(P) = SplitBrain(P)
InvScanResultMax    == ~Detect(P) => ScanResult(P) \in Maxima(P)
InvChainHasMax      == Chain(P) => ~SplitBrain(P)
=============================================================================
