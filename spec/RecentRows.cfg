SPECIFICATION Spec
INVARIANTS C13_SplitIffNoMaximum C13_ResultContainsAll C13_RecentNoPanic
CHECK_DEADLOCK FALSE
