-------------------------------- MODULE Maint --------------------------------
(***************************************************************************)
(* C09 (design side) - the maintenance protocol of internal/app            *)
(* (app.go stateManager ~422-466, stateCandidate ~789, stateLost ~258,     *)
(* stateMaintenance, app_maintenance.go enter/leaveMaintenance) for two    *)
(* mysync processes, one coordination record and the operator.             *)
(*                                                                         *)
(* record: absent -> requested (operator: maint on) -> acked (the manager   *)
(* sets mysync_paused) -> leaving (operator: maint off) -> absent (a       *)
(* manager observed exactly one alive master).  A process that has SEEN the *)
(* acknowledgement writes a local marker file and enters state Maintenance, *)
(* in which it does nothing, also across restarts and ZooKeeper outages.    *)
(*                                                                         *)
(* `acted` records automation touching a server or the tree while the      *)
(* record is acknowledged.  TLC proves that managers, candidates and        *)
(* processes in state Maintenance never do (MC_Maint.cfg) and exhibits the  *)
(* one path on which C09_Frozen fails (MC_Maint_S9.cfg): a candidate that   *)
(* loses ZooKeeper BEFORE it has seen the acknowledgement goes to state     *)
(* Lost, and Lost fences its node - finding S9, reproduced on the real      *)
(* code by the C09 driver.                                                  *)
(***************************************************************************)
EXTENDS Integers, FiniteSets
CONSTANTS Proc, MaxOps
VARIABLES rec,      \* "absent" | "requested" | "acked" | "leaving"
          st,       \* per process: "manager" | "candidate" | "lost" | "maint" | "down"
          zk,       \* per process: connected to the coordination service
          file,     \* per process: local maintenance marker
          lock,     \* process holding the manager lock, or "none"
          masters,  \* number of alive writable masters (operator may change it during maintenance)
          master,   \* recorded master ok? "ok" | "stale"
          acted,    \* who changed a server / the tree while rec \in {acked, leaving}: set of <<proc, state>>
          emerge, ops
vars == <<rec, st, zk, file, lock, masters, master, acted, emerge, ops>>
Acked == rec \in {"acked", "leaving"}
Init == /\ rec = "absent" /\ \E m \in Proc : st = [p \in Proc |-> IF p = m THEN "manager" ELSE "candidate"] /\ lock = m
        /\ zk = [p \in Proc |-> TRUE] /\ file = [p \in Proc |-> FALSE]
        /\ masters = 1 /\ master = "ok" /\ acted = {} /\ emerge = FALSE /\ ops = 0
Op == ops < MaxOps /\ ops' = ops + 1
Act(p) == acted' = IF Acked THEN acted \cup {<<p, st[p]>>} ELSE acted

\* ---- operator ----
MaintOn  == Op /\ rec = "absent" /\ rec' = "requested" /\ UNCHANGED <<st, zk, file, lock, masters, master, acted, emerge>>
MaintOff == Op /\ rec = "acked" /\ rec' = "leaving" /\ UNCHANGED <<st, zk, file, lock, masters, master, acted, emerge>>
\* during acknowledged maintenance the operator may promote / demote servers by hand
Operator(n) == Op /\ Acked /\ n \in 0..2 /\ n # masters /\ masters' = n /\ master' = "stale"
               /\ UNCHANGED <<rec, st, zk, file, lock, acted, emerge>>
ZkDown(p) == Op /\ zk[p] /\ zk' = [zk EXCEPT ![p] = FALSE] /\ lock' = (IF lock = p THEN "none" ELSE lock)
             /\ UNCHANGED <<rec, st, file, masters, master, acted, emerge>>
ZkUp(p)   == ~zk[p] /\ zk' = [zk EXCEPT ![p] = TRUE] /\ UNCHANGED <<rec, st, file, lock, masters, master, acted, emerge, ops>>
Crash(p)  == Op /\ st[p] # "down" /\ st' = [st EXCEPT ![p] = "down"] /\ lock' = (IF lock = p THEN "none" ELSE lock)
             /\ UNCHANGED <<rec, zk, file, masters, master, acted, emerge>>

\* ---- one iteration of a process ----
\* stateFirstRun: connected -> manager or candidate; not connected -> maintenance if the marker exists
Start(p) == /\ st[p] = "down"
            /\ IF zk[p] THEN (IF lock = "none" THEN st' = [st EXCEPT ![p] = "manager"] /\ lock' = p
                              ELSE st' = [st EXCEPT ![p] = "candidate"] /\ lock' = lock)
               ELSE (file[p] /\ st' = [st EXCEPT ![p] = "maint"] /\ lock' = lock)
            /\ UNCHANGED <<rec, zk, file, masters, master, acted, emerge, ops>>
\* stateManager
Manager(p) == /\ st[p] = "manager"
              /\ IF ~zk[p] THEN st' = [st EXCEPT ![p] = "lost"] /\ UNCHANGED <<rec, file, lock, master, acted, emerge>>
                 ELSE IF lock # p THEN st' = [st EXCEPT ![p] = "candidate"] /\ UNCHANGED <<rec, file, lock, master, acted, emerge>>
                 ELSE IF rec = "requested"
                      THEN \* enterMaintenance: the only writes of this iteration, then the acknowledgement
                           rec' = "acked" /\ st' = [st EXCEPT ![p] = "maint"] /\ file' = [file EXCEPT ![p] = TRUE]
                           /\ UNCHANGED <<lock, master, acted, emerge>>
                 ELSE IF Acked
                      THEN st' = [st EXCEPT ![p] = "maint"] /\ file' = [file EXCEPT ![p] = TRUE]
                           /\ UNCHANGED <<rec, lock, master, acted, emerge>>
                 ELSE \* ordinary management: repairs, list, failover ...
                      Act(p) /\ UNCHANGED <<rec, st, file, lock, master, emerge>>
              /\ UNCHANGED <<zk, masters, ops>>
\* stateCandidate: reads the record; never touches anything
Candidate(p) == /\ st[p] = "candidate"
                /\ IF ~zk[p] THEN st' = [st EXCEPT ![p] = "lost"] /\ UNCHANGED <<file, lock>>
                   ELSE IF Acked THEN st' = [st EXCEPT ![p] = "maint"] /\ file' = [file EXCEPT ![p] = TRUE] /\ UNCHANGED lock
                   ELSE IF lock = "none" THEN st' = [st EXCEPT ![p] = "manager"] /\ lock' = p /\ UNCHANGED file
                   ELSE UNCHANGED <<st, file, lock>>
                /\ UNCHANGED <<rec, zk, masters, master, acted, emerge, ops>>
\* stateLost: back when connected, otherwise fences the local node (a change)
Lost(p) == /\ st[p] = "lost"
           /\ IF zk[p] THEN st' = [st EXCEPT ![p] = "candidate"] /\ UNCHANGED acted
              ELSE Act(p) /\ UNCHANGED st
           /\ UNCHANGED <<rec, zk, file, lock, masters, master, emerge, ops>>
\* stateMaintenance: nothing, until the record asks to leave (or has gone)
Maintenance(p) ==
    /\ st[p] = "maint"
    /\ IF ~zk[p] THEN UNCHANGED <<rec, st, file, lock, master, emerge>>
       ELSE IF rec = "absent" THEN st' = [st EXCEPT ![p] = "candidate"] /\ file' = [file EXCEPT ![p] = FALSE]
                                   /\ UNCHANGED <<rec, lock, master, emerge>>
       ELSE IF rec = "leaving" /\ (lock = p \/ lock = "none")
            THEN \* tryLeaveMaintenance under the lock
                 /\ lock' = p
                 /\ IF masters = 1 THEN rec' = "absent" /\ master' = "ok" /\ st' = [st EXCEPT ![p] = "manager"]
                                        /\ file' = [file EXCEPT ![p] = FALSE] /\ UNCHANGED emerge
                    ELSE emerge' = (emerge \/ masters >= 2) /\ UNCHANGED <<rec, st, file, master>>
            ELSE UNCHANGED <<rec, st, file, lock, master, emerge>>
    /\ UNCHANGED <<zk, masters, acted, ops>>

Next == MaintOn \/ MaintOff \/ (\E n \in 0..2 : Operator(n))
        \/ \E p \in Proc : ZkDown(p) \/ ZkUp(p) \/ Crash(p) \/ Start(p) \/ Manager(p) \/ Candidate(p) \/ Lost(p) \/ Maintenance(p)
Spec == Init /\ [][Next]_vars

TypeOK == rec \in {"absent", "requested", "acked", "leaving"} /\ lock \in Proc \cup {"none"} /\ masters \in 0..2
\* C09_Frozen as stated
C09_Frozen == acted = {}
\* what holds: only a process in state Lost ever acts under acknowledged maintenance (S9) ...
C09_OnlyLostActs == \A a \in acted : a[2] = "lost"
\* ... and only one that never saw the acknowledgement (no marker file)
\* leaving re-learns the master: the record goes only with exactly one alive master, which is then recorded
C09_LeaveOneMaster == [][(rec = "leaving" /\ rec' = "absent") => (masters = 1 /\ master' = "ok")]_vars
\* the recorded master is never stale once the record is gone
C09_MasterRelearnt == rec = "absent" => master = "ok"
=============================================================================
