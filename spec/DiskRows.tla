------------------------------ MODULE DiskRows ------------------------------
(* TraceP for C18: one row per call of the REAL repairReadOnlyOnMaster.      *)
EXTENDS DiskGuard, SequencesExt, Json, TLC
Rows == ndJsonDeserialize("rows.ndjson")
VARIABLE i
Init == i \in 1..Len(Rows)
Next == UNCHANGED i
Spec == Init /\ [][Next]_i
R == Rows[i]
Need == NeedRO(R.mu, R.reps, R.wsc, R.crit)
May  == MayWrite(R.mu, R.reps, R.nc)
Stmts == ToSet(R.stmts)
ROStmts == {"SetSuperReadOnly", "SetReadOnlyNoSuper"}

C18_ToRO == (Need /\ R.robefore # WantedMode(R.keepsuper)) =>
               (R.roafter = WantedMode(R.keepsuper) /\ Stmts \cap ROStmts # {})
C18_SuperMode == (Stmts \cap ROStmts # {}) =>
               (IF R.keepsuper THEN "SetSuperReadOnly" \notin Stmts ELSE "SetReadOnlyNoSuper" \notin Stmts)
C18_ToRW == (~Need /\ May /\ R.robefore # "rw") => (R.roafter = "rw" /\ "SetWritable" \in Stmts)
C18_GreyZoneUntouched == (~Need /\ ~May) => (R.stmts = <<>> /\ R.lowspace = "none")
C18_NoChangeWhenFine == (~Need /\ May /\ R.robefore = "rw") => (R.stmts = <<>> /\ R.lowspace = "none")
C18_NeverWritableWhenNeed == Need => "SetWritable" \notin Stmts
C18_FlagFollows == /\ (R.lowspace = "true" <=> (Stmts \cap ROStmts # {} /\ R.roafter # "rw" /\ R.roafter # R.robefore))
                   /\ (R.lowspace = "false" <=> ("SetWritable" \in Stmts /\ R.roafter = "rw"))
=============================================================================
