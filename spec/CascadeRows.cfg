SPECIFICATION Spec
INVARIANTS C16_Terminates C16_NeverSelf C16_ConfiguredWhenHealthy C16_AncestorOrMaster C16_NearestHealthy C16_GuardedMove C16_MoveNeverSelf C16_NeverListed C16_NeverPromoted C16_DeadCascadeNotCounted
CHECK_DEADLOCK FALSE
