SPECIFICATION Spec
INVARIANTS TypeOK OwnerAlive RecordWhileAlive
CHECK_DEADLOCK FALSE
