SPECIFICATION Spec
INVARIANTS C09_Frozen C09_Leave C09_StayWhenNotOneMaster C09_LeavesWhenOneMaster C09_LightOnlyFailover
CHECK_DEADLOCK FALSE
