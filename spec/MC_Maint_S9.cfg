SPECIFICATION Spec
CONSTANTS
  Proc = {"a", "b"}
  MaxOps = 6
INVARIANTS C09_Frozen
CHECK_DEADLOCK FALSE
