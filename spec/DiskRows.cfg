SPECIFICATION Spec
INVARIANTS C18_ToRO C18_SuperMode C18_ToRW C18_GreyZoneUntouched C18_NoChangeWhenFine C18_NeverWritableWhenNeed C18_FlagFollows
CHECK_DEADLOCK FALSE
