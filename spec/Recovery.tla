------------------------------ MODULE Recovery ------------------------------
(***************************************************************************)
(* C11 (decision side) - what one run of the recovery check of a host that  *)
(* carries a recovery mark decides (internal/app/recovery.go checkRecovery),*)
(* as a function of what it can observe.  Decide is a transcription of the  *)
(* case analysis; the clauses below are C11's statement over it; TLC checks *)
(* them on the complete product of observations (MC_Recovery.cfg), and the  *)
(* REAL checkRecovery is run on every cell and compared (RecoveryRows       *)
(* Conf_Decision).                                                          *)
(***************************************************************************)
EXTENDS Integers
\* an observation
\*  rfile     resetup marker file already exists
\*  status    the node has a replication configuration (SHOW REPLICA STATUS non-empty)
\*  stuck     sessions are waiting for a semi-sync acknowledgement
\*  stucklong ... and have been for at least StuckWaitTime
\*  ismaster  the node is itself the recorded master
\*  rel       "within" (its executed set is contained in the master's) | "ahead" (it holds transactions the master lacks)
\*  replerr   replication is in error state
\*  ro        the node is read-only
Obs == [rfile : BOOLEAN, status : BOOLEAN, stuck : BOOLEAN, stucklong : BOOLEAN, ismaster : BOOLEAN,
        rel : {"within", "ahead"}, replerr : BOOLEAN, ro : BOOLEAN]
Sensible(o) == (o.stucklong => o.stuck) /\ (~o.status => ~o.replerr) /\ (o.ismaster => o.rel = "within")
Decide(o) ==
    IF o.rfile THEN "none"
    ELSE IF ~o.status /\ ~o.stuck THEN "none"                       \* waits for the manager to re-point it
    ELSE IF o.stuck /\ ~o.ismaster THEN (IF o.stucklong THEN "resetup" ELSE "none")
    ELSE IF ~o.status THEN "none"                                   \* stuck recorded master without replication (fix c2ef1af)
    ELSE IF o.replerr \/ o.rel = "ahead" THEN "resetup"
    ELSE IF ~o.ro THEN "none"
    ELSE "clear"
\* the clauses, over one observation
ClearOnlyClean(o) == Decide(o) = "clear" => (o.status /\ o.ro /\ o.rel = "within" /\ ~o.replerr)
ClearNotStuck(o) == Decide(o) = "clear" => (~o.stuck \/ o.ismaster)
AheadMeansResetup(o) == (~o.rfile /\ o.status /\ ~o.stuck /\ (o.rel = "ahead" \/ o.replerr)) => Decide(o) = "resetup"
FileFreezes(o) == o.rfile => Decide(o) = "none"
=============================================================================
