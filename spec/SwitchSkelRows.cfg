SPECIFICATION Spec
INVARIANTS Skel_Order
CHECK_DEADLOCK FALSE
