SPECIFICATION Spec
INVARIANTS InvNeed InvMay
CHECK_DEADLOCK FALSE
