------------------------------- MODULE DcsTrace -----------------------------
(* TraceC/TraceP for C15: sequential histories of the ten data operations     *)
(* executed by REAL zkDCS clients on the fake ZooKeeper, replayed through the  *)
(* contract; every logged result, returned value, child list and the final    *)
(* server-side tree must be what the contract says.                           *)
EXTENDS DcsContract, SequencesExt, Json, TLC
Traces == ndJsonDeserialize("rows.ndjson")
VARIABLES tr, l, tree, bad
vars == <<tr, l, tree, bad>>
ParentMap == ("a" :> "root") @@ ("a/b" :> "a") @@ ("c" :> "root") @@ ("d" :> "root") @@ ("d/e" :> "d") @@ ("d/e/f" :> "d/e")
EmptyTree == [k \in Key |-> Absent]
Ev(t, n) == Traces[t].events[n]
Init == tr \in 1..Len(Traces) /\ l = 1 /\ tree = EmptyTree /\ bad = "none"
Next == /\ l <= Len(Traces[tr].events) /\ bad = "none"
        /\ LET e == Ev(tr, l) IN
           /\ tree' = Step(tree, e)
           /\ bad' = IF e.op \in {"Expire", "ToolBad", "Snapshot"} THEN
                        (IF e.op = "Snapshot" /\ ~(\A k \in Key : e.present[k] = Present(tree, k)) THEN "C15_TreeMatches"
                         ELSE IF e.op = "Snapshot" /\ ~(\A k \in Key : e.eph[k] = (tree[k].eph # "none")) THEN "C15_EphemeralKind"
                         ELSE "none")
                     ELSE IF e.res # Res(tree, e) THEN "C15_Result_" \o e.op
                     ELSE IF e.op = "Get" /\ e.res = "ok" /\ e.got # GetVal(tree, e) THEN "C15_GetValue"
                     ELSE IF e.op = "Children" /\ e.res = "ok" /\ ToSet(e.kids) # KidNames(tree, e) THEN "C15_Children"
                     ELSE "none"
        /\ l' = l + 1 /\ tr' = tr
Spec == Init /\ [][Next]_vars
C15_Contract == bad = "none"
=============================================================================
