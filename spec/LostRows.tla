------------------------------ MODULE LostRows ------------------------------
(* TraceP for C08: one row per lost-state activation of the REAL handler.    *)
EXTENDS Lost, SequencesExt, Json, TLC
Rows == ndJsonDeserialize("rows.ndjson")
VARIABLE i
Init == i \in 1..Len(Rows)
Next == UNCHANGED i
Spec == Init /\ [][Next]_i
R == Rows[i]
Fence == MustFence(R.role, R.n, R.disabled, R.conds, R.semisync, R.wsc)
Postpone == MayPostpone(R.conds, R.sincems, R.delayms)
LocalChanged == R.localmut # <<>>     \* state-changing statements that reached the local server

\* fence when required (and not legitimately postponed): the read-only statement is issued and,
\* if the server accepts it, the node is read-only when the handler returns
C08_FenceWhenRequired ==
    (Fence /\ ~Postpone /\ R.localup) =>
        /\ R.roissued
        /\ (R.roaccepts => R.roafter # "rw")
\* postponement only within the allowed window
C08_Postpone == (Fence /\ R.localup /\ ~R.roissued) => Postpone
\* nothing changes when fencing is not required
C08_NoChangeWhenSafe == ~Fence => ~LocalChanged
\* stuck commits: offline mode + semi-sync disable + forced read-only follow
C08_StuckCommits ==
    (Fence /\ R.role = "master" /\ R.rostuck /\ R.waitingack) =>
        /\ "SetOffline" \in ToSet(R.localmut) /\ "SemiSyncDisable" \in ToSet(R.localmut)
\* while disconnected: nothing on other hosts, never promote / re-point / un-fence
C08_NothingElse ==
    /\ R.remotemut = <<>>
    /\ ToSet(R.localmut) \cap {"SetWritable", "ChangeSource", "SetOnline", "ResetReplicaAll", "StartReplica"} = {}
\* stays in lost state while disconnected
C08_StaysLost == R.next = "Lost"
=============================================================================
