----------------------------- MODULE RobustRows -----------------------------
(* TraceP for C20: one row per behaviour of RobustEnv.tla replayed into the   *)
(* REAL daemon (harness c20_test.go).                                         *)
EXTENDS Integers, Sequences, Json, TLC
CONSTANT Slack
Rows == ndJsonDeserialize("rows.ndjson")
VARIABLE i
Init == i \in 1..Len(Rows)
Next == UNCHANGED i
Spec == Init /\ [][Next]_i
R == Rows[i]
C20_NoPanicRow         == R.kind = "robust" => R.panics = <<>>
\* a leak is sustained growth: both 28-round steps between the three windows grow by more than Slack
Grows(s) == s[2] - s[1] > Slack /\ s[3] - s[2] > Slack
C20_NoGoroutineLeakRow == R.kind = "robust" => ~Grows(R.g)
C20_NoConnectionLeakRow == R.kind = "robust" => ~Grows(R.c)
\* calls that FAIL must not leave goroutines behind either: the forced read-only attempt of a fencing node, repeated
\* while a commit hangs for good (its per-second query killer must stop when the attempt gives up)
C20_NoLeakOnErrorPath == R.kind = "errpath" => (R.failed = R.calls /\ R.g1 <= R.g0 + 1)
=============================================================================
