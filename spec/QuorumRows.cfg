SPECIFICATION Spec
INVARIANTS C12_ReqBounded C12_ReqZeroOnly C12_QuorumAtLeast1 C12_Intersect C12_AcceptSafe Conf_MatchesSpec
CHECK_DEADLOCK FALSE
