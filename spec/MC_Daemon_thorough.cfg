SPECIFICATION Spec
CONSTANTS
  Node = {"n1", "n2"}
  ED = 2
  AD = 3
  MaxT = 9
INVARIANTS TypeOK OneOwningManager MaintenanceHasReason
PROPERTIES CandidateFollowsAck ReleaseOnlyBlind EnterManagerNeedsLock
CHECK_DEADLOCK FALSE
