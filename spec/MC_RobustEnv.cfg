SPECIFICATION Spec
CONSTANTS MaxLen = 2
INVARIANTS TypeOK Emit
CHECK_DEADLOCK FALSE
