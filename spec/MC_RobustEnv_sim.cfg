SPECIFICATION Spec
CONSTANTS MaxLen = 8
INVARIANTS TypeOK Emit
CHECK_DEADLOCK FALSE
