SPECIFICATION Spec
INVARIANTS C19_AtMostOne C19_NeverMoreRelaxed C19_RestoreThenDrop C19_LostAndConverged C19_NoUntrackedRelaxed
CHECK_DEADLOCK FALSE
