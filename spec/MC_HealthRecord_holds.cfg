SPECIFICATION Spec
INVARIANTS TypeOK OwnerAlive
CHECK_DEADLOCK FALSE
