------------------------------ MODULE RepairRows ----------------------------
(* TraceP for C10: one row per repair run of the REAL manager (K activations *)
(* from an arbitrary initial per-node state) with the safety observations    *)
(* collected on the way.                                                     *)
EXTENDS ClusterProps, SequencesExt, Json, TLC
Rows == ndJsonDeserialize("rows.ndjson")
VARIABLE i
Init == i \in 1..Len(Rows)
Next == UNCHANGED i
Spec == Init /\ [][Next]_i
R == Rows[i]
HA == ToSet(R.ha)
F == R.final
Others == HA \ {R.master}

\* every reachable HA node other than the master ends read-only
C10_ReplicasReadOnly == \A h \in Others : (F[h].up /\ F[h].reach) => F[h].ro # "rw"
\* ... and, unless its replication is broken beyond repair, a running replica of the recorded master
C10_ReplicasFollow == \A h \in Others : (F[h].up /\ F[h].reach /\ ~R.unrepairable[h]) =>
                          (F[h].src = R.master /\ F[h].io = "Yes" /\ F[h].sql)
\* stale masters were taken offline and marked for recovery on the way
C10_StaleMastersFenced == \A h \in ToSet(R.stale) : R.sawoffline[h] /\ R.sawmarked[h]
\* the master ends online, writable, semi-sync as implied by the published list
C10_MasterRestored == /\ F[R.master].ro = "rw" /\ ~F[R.master].offline
                      /\ (R.semisync => C04b_WaitCountCoversList([h \in DOMAIN F |-> [ssm |-> F[h].ssm, wsc |-> F[h].wsc]],
                                                                 R.master, ToSet(R.active), R.w))
\* safety on the way
C10_MasterKeyUntouched == R.masterkeywrites = 0 /\ R.finalmasterkey = R.master
C10_RegisteredOnly     == R.decoystmts = 0
C10_NeverSelf          == R.selfchanges = 0
C10_ResetGuarded       == \A k \in DOMAIN R.resets :
                            /\ R.aggressive
                            /\ R.resets[k].startattempts >= R.maxattempts
                            /\ R.resets[k].resetsbefore < R.maxattempts
                            /\ R.resets[k].sincelastms >= R.cooldownms
=============================================================================
