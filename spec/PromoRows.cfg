SPECIFICATION Spec
INVARIANTS C01_PromotionSafeRow C01_SplitBrainAbortsRow C11_NoMarkedPromotedRow C16_NoCascadePromotedRow C19_NotPromotedRelaxedRow C14_NeverFromRow C03_SwitchRechecksRow
CHECK_DEADLOCK FALSE
