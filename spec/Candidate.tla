------------------------------ MODULE Candidate -----------------------------
(***************************************************************************)
(* C14 - choice of the node to promote / to optimise                       *)
(* (internal/app/util.go getMostDesirableNode, getMostPriorityNode,        *)
(*  filterOutNodeFromPositions).                                           *)
(* A position is a record [prio, lag, set]; a candidate list is a sequence.*)
(* The CLAUSES are written over an arbitrary result `res` (index into the  *)
(* unfiltered sequence, 0 = error) so that they judge the real code.       *)
(***************************************************************************)
EXTENDS Integers, Sequences, FiniteSets

\* candidates = indices of P other than `from` (from = 0: nothing excluded)
Cands(P, from) == {j \in DOMAIN P : j # from}

MaxPrio(P, C) == CHOOSE m \in {P[j].prio : j \in C} : \A j \in C : P[j].prio <= m

\* c is beaten by d under the tie-break: more transactions, then less lag
Beats(P, d, c) == \/ (P[c].set \subseteq P[d].set /\ P[c].set # P[d].set)
                  \/ (P[c].set = P[d].set /\ P[d].lag < P[c].lag)

\* admissible "highest-priority candidate under the tie-break" (several when
\* GTID sets are incomparable - the scan order decides between them)
Tops(P, C) == {c \in C : /\ P[c].prio = MaxPrio(P, C)
                         /\ ~\E d \in C : P[d].prio = MaxPrio(P, C) /\ Beats(P, d, c)}

ClauseErrorIffEmpty(P, from, res)  == (res = 0) <=> (Cands(P, from) = {})
ClauseIsCandidate(P, from, res)    == res # 0 => res \in Cands(P, from)
ClauseNeverFrom(from, res)         == res # 0 => res # from
ClausePriorityWithinBound(P, from, b, res) ==
    Cands(P, from) # {} /\ res \in Cands(P, from) =>
      \E top \in Tops(P, Cands(P, from)) :
         IF P[top].lag <= b THEN res = top
         ELSE res = top \/ P[res].lag < P[top].lag - b
ClauseEqualPrioMostRecent(P, from, b, res) ==
    LET C == Cands(P, from) IN
    (C # {} /\ res \in C /\ (\A c, d \in C : P[c].prio = P[d].prio) /\ (\A c \in C : P[c].lag <= b)) =>
       ~\E d \in C : Beats(P, d, res)

(***************************************************************************)
(* Transcription of the algorithm (scan order = sequence order), used by   *)
(* MC_Candidate to check the clauses on the model itself.                  *)
(***************************************************************************)
RECURSIVE ScanPrio(_, _, _, _)
\* L = sequence of indices still to scan
ScanPrio(P, L, k, cur) ==
    IF k > Len(L) THEN cur
    ELSE LET x == L[k] IN
         IF P[cur].prio < P[x].prio THEN ScanPrio(P, L, k + 1, x)
         ELSE IF P[cur].prio = P[x].prio
              THEN IF P[x].set = P[cur].set
                   THEN (IF P[x].lag < P[cur].lag THEN ScanPrio(P, L, k + 1, x) ELSE ScanPrio(P, L, k + 1, cur))
                   ELSE (IF P[cur].set \subseteq P[x].set THEN ScanPrio(P, L, k + 1, x) ELSE ScanPrio(P, L, k + 1, cur))
              ELSE ScanPrio(P, L, k + 1, cur)

SelectSeqIdx(L, Test(_)) == SelectSeq(L, Test)

RECURSIVE Desirable(_, _, _)
Desirable(P, L, b) ==
    IF Len(L) = 0 THEN 0
    ELSE LET top == ScanPrio(P, L, 2, L[1]) IN
         IF P[top].lag <= b THEN top
         ELSE LET keep(x) == P[x].lag < P[top].lag - b
                  L2 == SelectSeq(L, keep)
              IN IF Len(L2) = 0 THEN top ELSE Desirable(P, L2, b)

IdxSeq(P, from) == LET keep(x) == x # from IN SelectSeq([j \in DOMAIN P |-> j], keep)
Choose(P, from, b) == Desirable(P, IdxSeq(P, from), b)
=============================================================================
