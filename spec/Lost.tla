-------------------------------- MODULE Lost --------------------------------
(***************************************************************************)
(* C08 - behaviour of a mysync that has lost the coordination service      *)
(* (internal/app/app.go stateLost ~258-333, checkHAReplicasRunning ~164).  *)
(* Decision table written from the property statement; LostRows.tla judges *)
(* what the REAL handler did (statements arriving at the fake servers)     *)
(* against it; MC_Lost enumerates the table and checks a transcription of  *)
(* the handler against it.                                                 *)
(***************************************************************************)
EXTENDS Integers, Sequences, FiniteSets

\* replica conditions as seen from the local master
Conds == {"streaming", "stopped", "wrong_source", "not_semisync", "refusing", "timing_out"}
\* a replica counts as live for the local master
Live(c, semisync) == c = "streaming" \/ (c = "not_semisync" /\ ~semisync)
NLive(cs, semisync) == Cardinality({k \in DOMAIN cs : Live(cs[k], semisync)})
Unreach(cs) == \E k \in DOMAIN cs : cs[k] = "timing_out"

\* does the situation exempt the node from fencing?
Exempt(role, n, disabled) == n = 1 \/ role \in {"cascade", "nonha"} \/ disabled

\* a master is safe when enough HA replicas are running and streaming from it
MasterSafe(cs, semisync, wsc) ==
    IF semisync THEN NLive(cs, TRUE) >= wsc ELSE NLive(cs, FALSE) >= Len(cs)

\* must the node be fenced (made read-only) - before considering postponement
MustFence(role, n, disabled, cs, semisync, wsc) ==
    /\ ~Exempt(role, n, disabled)
    /\ (role = "replica" \/ (role = "master" /\ ~MasterSafe(cs, semisync, wsc)))

\* fencing may be postponed only while some replica is unreachable (times out,
\* not refuses) and for at most the inactivation delay
MayPostpone(cs, sinceMs, delayMs) == Unreach(cs) /\ sinceMs <= delayMs
=============================================================================
