SPECIFICATION Spec
INVARIANTS InvErrorIffEmpty InvIsCandidate InvPriority InvEqualPrio
CHECK_DEADLOCK FALSE
