----------------------------- MODULE DaemonRows -----------------------------
(* Conformance of the REAL state handlers to the mode machine of              *)
(* DaemonModes.tla: one row per activation of a handler recorded in the       *)
(* cluster simulation (aggregated over identical content), with what the      *)
(* activation observed and the mode it returned.                              *)
EXTENDS DaemonModes, SequencesExt, Json
Rows == ndJsonDeserialize("rows.ndjson")
VARIABLE i
Init == i \in 1..Len(Rows)
Next == UNCHANGED i
Spec == Init /\ [][Next]_i
R == Rows[i]
IsMode == R.kind = "mode" /\ R.ended = "exit"
O == [locks |-> R.locks, released |-> R.released, zk |-> R.zk, maint |-> R.maint, mfile |-> R.mfile, mgrsw |-> R.mgrsw]
P0 == PhasesIn(R.lq0, R.t0, R.t0)
P1 == PhasesIn(R.lq0, R.t0, R.t1)
Rel == MayRelease(R.lq0, R.t0, R.t1)

\* C03 "only while it holds the lock": manager mode is ENTERED only by an activation whose last lock
\* answer was "held" (a manager whose re-check inside a switchover failed may return "Manager" once more
\* when the request is gone; every manager activation starts with the lock request, see C03_ManagerAsksFirst)
C03_ManagerModeNeedsLock == (IsMode /\ R.state # "Manager" /\ R.next = "Manager") => (R.locks # <<>> /\ Last(R.locks))
\* C03: an activation in manager mode that reached the coordination service at all asked for the lock, and
\* one that was told "not held" by its first request goes to candidate mode
C03_ManagerAsksFirst == (IsMode /\ R.state = "Manager" /\ R.lq0 < 0 /\ R.zk > 0) =>
                           (R.locks # <<>> /\ (~R.locks[1] => R.next = "Candidate"))
\* C03: the lock is given up voluntarily only by the hand-over rule (switch on, timer older than ED)
C03_ReleaseOnlyByHandover == (IsMode /\ R.released) => (R.state = "Manager" /\ R.mgrsw /\ Rel /\ R.next = "Candidate")
\* C09 "candidates follow only after acknowledgement"
C09_CandidateFollowsAck == (IsMode /\ R.state = "Candidate" /\ R.next = "Maintenance") => FullAck(R.maint)
\* C09: the paused loop is left only when the record is gone or says so
C09_PausedUntilToldToLeave == (IsMode /\ R.state = "Maintenance" /\ R.next # "Maintenance") =>
                                 (R.maint.st = "absent" \/ (R.maint.st = "present" /\ R.maint.leave))
\* C09: a manager that reads an unacknowledged or acknowledged FULL maintenance record stops managing
C09_ManagerObeysRecord == (IsMode /\ R.state = "Manager" /\ R.maint.st = "present" /\ ~R.maint.light /\ R.maint.paused) =>
                             R.next = "Maintenance"
\* conformance to the model (not a property of the list: counted as drift)
Conf_Mode  == IsMode => R.next \in NextModes(R.state, O, P0, P1, Rel)
Conf_Timer == IsMode => R.lq1 \in TimerNext(R.state, O, R.lq0, R.t0, R.t1)
Conf_Const == IsMode => (R.ed = ED /\ R.ad = AD)
=============================================================================
