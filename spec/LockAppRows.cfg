SPECIFICATION Spec
INVARIANTS C03_ToldOnlyOwnerRow C03_ActsOnlyConfirmedRow C03_SwitchRechecksRow
CHECK_DEADLOCK FALSE
