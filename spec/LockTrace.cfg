SPECIFICATION Spec
INVARIANTS C03_Layer
CHECK_DEADLOCK FALSE
