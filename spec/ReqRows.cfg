SPECIFICATION Spec
INVARIANTS C06_OneOutcome C06_NoOverwrite C06_OneManagerAtATime C06_ApprovedOnce C06_AttemptsCounted C06_BoundedAttempts C06_Timeout C06_SuccessMeansDone
CHECK_DEADLOCK FALSE
