SPECIFICATION Spec
INVARIANTS C04_CompletedIteration C04_NoIterationDestroys C04_NoCascadeListed C04_NoMarkedListed C04_NoDivergedListed C04_NoLongBrokenListed C04_NoDataLagJoiner C04_EvictOnlyWithMaster C04_NotListedWhenMarked
CHECK_DEADLOCK FALSE
