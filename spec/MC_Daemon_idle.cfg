SPECIFICATION Spec
CONSTANTS
  Node = {"n1", "n2"}
  ED = 2
  AD = 3
  MaxT = 8
INVARIANTS NoIdleOwner
CHECK_DEADLOCK FALSE
