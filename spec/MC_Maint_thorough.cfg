SPECIFICATION Spec
CONSTANTS
  Proc = {"a", "b", "c"}
  MaxOps = 9
INVARIANTS TypeOK C09_OnlyLostActs C09_MasterRelearnt
PROPERTIES C09_LeaveOneMaster
CHECK_DEADLOCK FALSE
