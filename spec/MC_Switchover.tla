---------------------------- MODULE MC_Switchover ---------------------------
EXTENDS Switchover
CONSTANTS h1, h2, h3, t1, t2
MCOrig == (t1 :> h1) @@ (t2 :> h1)
MCOrigForeign == (t1 :> h1) @@ (t2 :> h2)
=============================================================================
