SPECIFICATION Spec
CONSTANTS
  h1 = h1
  h2 = h2
  h3 = h3
  t1 = t1
  t2 = t2
  Host = {h1, h2, h3}
  Txn = {t1, t2}
  Orig <- MCOrig
  W = 1
  MaxFaults = 1
  MaxCrash = 0
  MaxMgrCrash = 0
  MaxAttempts = 1
  M0 = h1
INVARIANTS TypeOK C01_PromotionSafe C01_SplitBrainMarks NoAckedLoss_SingleFault C06_SuccessMeansDone C11_MarkedNotListed C06_BoundedAttempts
PROPERTIES SkelOrder
CONSTRAINT RunBound
CHECK_DEADLOCK FALSE
