SPECIFICATION Spec
INVARIANTS C01_PromotionSafeRow C01_SplitBrainAbortsRow
CHECK_DEADLOCK FALSE
