SPECIFICATION Spec
INVARIANTS C11_ClearOnlyClean C11_ClearNotStuck C11_AheadMeansResetup C11_FileFreezes
CHECK_DEADLOCK FALSE
