---------------------------- MODULE ClusterProps ----------------------------
(***************************************************************************)
(* Property operators of the cluster-level properties, written over        *)
(* OBSERVABLE state only: per-host ground truth H[h] (a record with fields *)
(* up, ro, src, io, sql, exec, recv, pend, ssm, sss, wsc, offline, dur,    *)
(* reach) and coordination-tree contents.  The same operators are used by  *)
(* the model-checking specifications (on their variables) and by the row   *)
(* validators (on states observed while the REAL code ran).  GTID sets are *)
(* plain sets here; the row validators convert the logged lists.           *)
(***************************************************************************)
EXTENDS Quorum, Gtid

\* everything a server holds: executed, merely received, or in its binlog waiting for an ack
Holds(h, H) == H[h].exec \cup H[h].recv \cup H[h].pend

(***************************************************************************)
(* C01                                                                     *)
(***************************************************************************)
\* q may stand in the frozen quorum behind the promotion of p
FrozenBehind(q, p, H) ==
    \* ground truth, dead or alive: a dead server accepts no writes and restarts
    \* read-only (E6); a dead old master that died writable has ro = "rw" and so
    \* does not count ("the old master counts when it is alive")
    /\ (q = p \/ H[q].ro # "rw")
    /\ Holds(q, H) \subseteq H[p].exec

\* L: published active list read by the promoting manager at the top of its
\* iteration; semi: semi-sync configured; w: configured wait count
C01_PromotionSafeSemi(L, p, H, w) ==
    Cardinality({q \in L : FrozenBehind(q, p, H)}) >= FailoverQuorum(Cardinality(L), w)
\* without semi-sync "one alive active replica suffices": one good member
C01_PromotionSafeAsyncRepl(L, p, H) ==
    \E q \in L : FrozenBehind(q, p, H)

\* positions as the statement defines them (executed or merely received)
Position(h, H) == H[h].exec \cup H[h].recv
C01_SplitBrainAmong(F, H) ==
    F # {} /\ ~\E m \in F : \A g \in F : Position(g, H) \subseteq Position(m, H)

(***************************************************************************)
(* C02 / C07 end-state clauses (evaluated at quiescence after healing)     *)
(*   T: tree record with fields master, active (set), recovery (set),      *)
(*      switch (present?), HA: set of HA hosts                             *)
(***************************************************************************)
WritableIn(H, S) == {h \in S : H[h].up /\ H[h].ro = "rw"}

\* exactly one writable server among the reachable HA hosts and it is the recorded master
C02_OneWritableMaster(H, HA, master) ==
    /\ master \in HA
    /\ WritableIn(H, HA) = {master}

\* every reachable HA host other than the master is read-only and follows it
C02_ReplicasFollow(H, HA, master) ==
    \A h \in HA \ {master} : (H[h].up /\ H[h].reach) => (H[h].ro # "rw" /\ H[h].src = master)

\* every acknowledged transaction is on the master
C02_NoAckedLoss(H, master, acked) == acked \subseteq H[master].exec \cup H[master].pend

(***************************************************************************)
(* C04  (H: ground truth incl. reach, sss, ssm, wsc; HA: HA hosts;         *)
(*       A: published active list as a set; w: configured count)          *)
(***************************************************************************)
\* (a) every reachable HA replica with semi-sync acknowledgement enabled is listed
C04a_AckersListed(H, HA, master, A) ==
    \A r \in HA \ {master} : (H[r].reach /\ H[r].sss) => r \in A
\* (b) the master waits for at least the number of acks implied by the list
C04b_WaitCountCoversList(H, master, A, w) ==
    Required(Cardinality(A), w) > 0 => (H[master].ssm /\ H[master].wsc >= Required(Cardinality(A), w))
C04_AB(H, HA, master, A, w) == C04a_AckersListed(H, HA, master, A) /\ C04b_WaitCountCoversList(H, master, A, w)
=============================================================================
