------------------------------ MODULE DaemonGen ------------------------------
(* Behaviours of Daemon.tla as scripts for the real daemons: the same next-   *)
(* state relation with a history of action labels; TLC (simulation mode)      *)
(* prints one script per behaviour, the driver TestVerifHandover steps the    *)
(* real processes through it and DaemonRows.tla judges every activation.      *)
EXTENDS Daemon, Json
CONSTANT MaxLen
VARIABLE hist
gvars == <<vars, hist>>
Lbl(a, n, d, v) == [a |-> a, n |-> n, d |-> d, v |-> v]
GenInit == Init /\ hist = <<>>
GenNext ==
    /\ Len(hist) < MaxLen
    /\ \/ \E n \in Node, d \in {0, 1} : Activate(n, d) /\ hist' = Append(hist, Lbl("act", n, d, ""))
       \/ Tick /\ hist' = Append(hist, Lbl("tick", "", 0, ""))
       \/ \E n \in Node : Disconnect(n) /\ hist' = Append(hist, Lbl("disc", n, 0, ""))
       \/ \E n \in Node : Reconnect(n) /\ hist' = Append(hist, Lbl("reco", n, 0, ""))
       \/ \E n \in Node : Restart(n) /\ hist' = Append(hist, Lbl("restart", n, 0, ""))
       \/ \E n \in Node, b \in {"sees", "quorum", "blind"} : SetView(n, b) /\ hist' = Append(hist, Lbl("view", n, 0, b))
       \/ MaintOn /\ hist' = Append(hist, Lbl("mainton", "", 0, ""))
       \/ MaintOff /\ hist' = Append(hist, Lbl("maintoff", "", 0, ""))
GenSpec == GenInit /\ [][GenNext]_gvars
Emit == Len(hist) = MaxLen => PrintT(<<"BEHAVIOUR", ToJson(hist)>>)
=============================================================================
