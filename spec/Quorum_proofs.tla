--------------------------- MODULE Quorum_proofs ----------------------------
(* TLAPS proof of the closed form of C12 for ALL n, w \in Nat.              *)
EXTENDS Quorum, TLAPS

LEMMA DivTwo == \A n \in Nat : \E d \in Nat : d = n \div 2 /\ 2*d <= n /\ n < 2*d + 2
  BY Z3

THEOREM QuorumIntersect ==
  \A n \in Nat, w \in Nat :
     /\ Required(n, w) \in Nat
     /\ Required(n, w) <= Replicas(n)
     /\ (Required(n, w) = 0 => (Replicas(n) = 0 \/ w = 0))
     /\ FailoverQuorum(n, w) >= 1
     /\ FailoverQuorum(n, w) + Required(n, w) > Replicas(n)
<1> TAKE n \in Nat, w \in Nat
<1>1. PICK d \in Nat : d = n \div 2 /\ 2*d <= n /\ n < 2*d + 2
  BY DivTwo
<1>2. Required(n, w) = Min(d, w)
  BY <1>1 DEF Required
<1>3. Min(d, w) \in Nat /\ Min(d, w) <= d /\ Min(d, w) <= w /\ (Min(d, w) = d \/ Min(d, w) = w)
  BY DEF Min
<1>4. Required(n, w) \in Nat
  BY <1>2, <1>3
<1>5. Required(n, w) <= Replicas(n)
  BY <1>1, <1>2, <1>3, Z3 DEF Replicas, Max
<1>6. Required(n, w) = 0 => (Replicas(n) = 0 \/ w = 0)
  <2> SUFFICES ASSUME Required(n, w) = 0 PROVE Replicas(n) = 0 \/ w = 0
    OBVIOUS
  <2>1. d = 0 \/ w = 0
    BY <1>2, <1>3
  <2>2. CASE w = 0
    BY <2>2
  <2>3. CASE d = 0
    <3>1. n < 2
      BY <1>1, <2>3, Z3
    <3>2. n = 0 \/ n = 1
      BY <3>1, Z3
    <3>3. Replicas(n) = 0
      BY <3>2, Z3 DEF Replicas, Max
    <3> QED BY <3>3
  <2> QED BY <2>1, <2>2, <2>3
<1>7. FailoverQuorum(n, w) >= 1
  BY <1>4, Z3 DEF FailoverQuorum, Max
<1>8. FailoverQuorum(n, w) + Required(n, w) > Replicas(n)
  BY <1>4, <1>5, Z3 DEF FailoverQuorum, Replicas, Max
<1> QED BY <1>4, <1>5, <1>6, <1>7, <1>8

\* every accepted p-set of list members intersects every acknowledging set
THEOREM AcceptMeetsAckers ==
  \A n \in Nat, w \in Nat, p \in Nat :
     p >= FailoverQuorum(n, w) => p >= 1 /\ p + Required(n, w) > Replicas(n)
<1> TAKE n \in Nat, w \in Nat, p \in Nat
<1>1. Required(n, w) \in Nat /\ FailoverQuorum(n, w) >= 1
      /\ FailoverQuorum(n, w) + Required(n, w) > Replicas(n)
  BY QuorumIntersect
<1>2. FailoverQuorum(n, w) \in Int /\ Replicas(n) \in Int
  BY <1>1, Z3 DEF FailoverQuorum, Replicas, Max
<1> QED BY <1>1, <1>2, Z3
=============================================================================
