------------------------------ MODULE MaintRows -----------------------------
(* TraceP for C09: rows digested from runs of the REAL daemons under          *)
(* maintenance: "frozen" (one per run with a full-maintenance window),        *)
(* "leave" (one per removal of the record), "stay" (leave requested but the   *)
(* record must stay), "light" (one per light-maintenance run).                *)
EXTENDS Integers, Sequences, Json, TLC
Rows == ndJsonDeserialize("rows.ndjson")
VARIABLE i
Init == i \in 1..Len(Rows)
Next == UNCHANGED i
Spec == Init /\ [][Next]_i
R == Rows[i]
\* while full maintenance is acknowledged nobody changes a server, the master key or the list
C09_Frozen == R.kind = "frozen" => (R.sqlchanges = 0 /\ R.treewrites = 0)
\* leaving succeeds only with exactly one alive master, which becomes the recorded master, list non-empty
\* ("rebuilt": the leaving activation itself published the list before it removed the record)
C09_Leave == R.kind = "leave" => (R.nmasters = 1 /\ R.masterkey = R.onlymaster /\ R.activenonempty /\ R.rebuilt)
\* otherwise the mode is kept; several masters raise the emergency marker
C09_StayWhenNotOneMaster == R.kind = "stay" => (R.recordkept /\ (R.nmasters >= 2 => R.emerge))
\* a well-formed cluster does leave (bounded conformance of the happy path)
C09_LeavesWhenOneMaster == R.kind = "mustleave" => R.left
\* light maintenance only suppresses failover
C09_LightOnlyFailover == R.kind = "light" =>
    /\ R.failoverattempts = 0 /\ R.autorequests = 0
    /\ (R.plannedfiled => R.plannedsucceeded) /\ (R.brokenreplica => R.replicarepaired)
=============================================================================
