---------------------------- MODULE DaemonModes ----------------------------
(***************************************************************************)
(* The MODE MACHINE of a mysync process and the manager hand-over timer.   *)
(*                                                                         *)
(* Code: internal/app/app.go  Run (the handler loop), stateFirstRun,       *)
(* stateManager (its exits), stateCandidate, stateLost (its exits),        *)
(* stateMaintenance, tryLeaveMaintenance, checkMasterVisible, checkQuorum  *)
(* and App.AcquireLock (the wrapper with the quorum-loss delays).          *)
(*                                                                         *)
(* This module holds PURE operators: for one activation of a handler, described   *)
(* by what it observed (the answers of the coordination layer to its lock  *)
(* requests, whether it released the lock, what it read of the             *)
(* maintenance record, the marker file, the age of its quorum-loss timer), *)
(* the set of modes the handler may return.  DaemonRows.tla evaluates them *)
(* on every activation of the REAL handlers recorded in the cluster        *)
(* simulation; Daemon.tla uses the same operators as the next-state relation   *)
(* of a small behavioural model (processes, one lock, sessions, the        *)
(* maintenance record, discrete time) that TLC explores.                   *)
(*                                                                         *)
(* One activation = one call of a state handler; the Run loop calls        *)
(* handlers back to back while the mode changes, so a mode is never        *)
(* skipped: each change is one activation.                                 *)
(***************************************************************************)
EXTENDS Integers, Sequences, FiniteSets, TLC

CONSTANTS ED,        \* manager_election_delay_after_quorum_loss
          AD         \* manager_lock_acquire_delay_after_quorum_loss

Modes == {"FirstRun", "Manager", "Candidate", "Lost", "Maintenance"}

\* ---- the quorum-loss timer (App.lostQuorumTime) ---------------------------
\* age = now - lostQuorumTime, or -1 when the timer is zero
Phase(age) == IF age < 0 THEN "zero"
              ELSE IF age < ED THEN "early"          \* App.AcquireLock asks the coordination layer
              ELSE IF age = ED THEN "edge"           \* AcquireLock refuses silently, checkQuorum still waits
              ELSE IF age <= ED + AD THEN "blocked"  \* AcquireLock refuses silently, checkQuorum releases
              ELSE "late"                            \* AcquireLock clears the timer and asks again
Phases == {"zero", "early", "edge", "blocked", "late"}
Silent(p) == p \in {"edge", "blocked"}
\* phases a timer set at lq (or -1) can be in at some instant of [t0, t1]
PhasesIn(lq, t0, t1) ==
    IF lq < 0 THEN {"zero"}
    ELSE {Phase(a) : a \in {x \in {t0 - lq, t1 - lq, ED, ED + 1, ED + AD, ED + AD + 1} : t0 - lq <= x /\ x <= t1 - lq}}
\* checkQuorum may release at an instant of [t0,t1]: the timer runs and is older than ED
MayRelease(lq, t0, t1) == lq >= 0 /\ t1 - lq > ED
MustRelease(lq, t0) == lq >= 0 /\ t0 - lq > ED

\* ---- what an activation read of the maintenance record --------------------
\* st: "unread" (no answer arrived) | "err" | "absent" | "present"
FullAck(m) == m.st = "present" /\ m.paused /\ ~m.light
Last(s) == s[Len(s)]

\* o.locks   answers of the coordination layer to this activation's lock requests, in order
\* o.released  the activation released the manager lock (checkQuorum)
\* o.zk      number of requests of this process that reached the coordination service
\* o.maint   first conclusive read of the maintenance record
\* o.mfile   marker file present at entry
\* o.mgrsw   config manager_switchover
\* P0 / P1   phases the timer can be in at entry / anywhere in the activation

FirstRunNext(o) ==
    IF o.locks = <<>> THEN {IF o.mfile THEN "Maintenance" ELSE "FirstRun"}      \* WaitConnected gave up
    ELSE IF Len(o.locks) = 1 THEN {IF o.locks[1] THEN "Manager" ELSE "Candidate"}
    ELSE {}

LostNext(o) == IF o.locks # <<>> \/ o.released THEN {} ELSE {"Lost", "Candidate"}

LeaveNext(o, k, P1) ==          \* tryLeaveMaintenance; its lock request is the k-th of the activation
    IF Len(o.locks) = k THEN (IF o.locks[k] THEN {"Manager", "Maintenance"} ELSE {"Candidate"})
    ELSE IF Len(o.locks) = k - 1 /\ (\E p \in P1 : Silent(p)) THEN {"Candidate"}
    ELSE {}

CandNext(o, P1) ==
    IF o.zk = 0 /\ o.locks = <<>> THEN {"Lost", "Candidate"}
    ELSE IF o.maint.st \in {"unread", "err"} THEN (IF o.locks = <<>> THEN {"Candidate"} ELSE {})
    ELSE IF FullAck(o.maint) THEN (IF o.locks = <<>> THEN {"Maintenance"} ELSE {})
    ELSE IF o.locks # <<>> THEN
        (IF Len(o.locks) = 1 /\ (\E p \in P1 : ~Silent(p)) THEN {IF o.locks[1] THEN "Manager" ELSE "Candidate"} ELSE {})
    ELSE IF \E p \in P1 : Silent(p) THEN {"Candidate"} ELSE {}

\* after the maintenance part of stateManager: it stays manager, unless a lock re-check
\* (inside the switchover, and again before the outcome is written) said "not held"
\* (when the request record is gone by then - the new manager has finished it - the handler returns
\* "Manager" once more; its next activation starts with the lock request and goes to candidate)
AfterMaint(o, P1) ==
    IF Len(o.locks) >= 2 /\ ~Last(o.locks) THEN {"Candidate", "Manager"}
    ELSE {"Manager"} \cup (IF \E p \in P1 : Silent(p) THEN {"Candidate"} ELSE {})

MgrNext(o, P0, P1, rel) ==      \* rel: checkQuorum can find the timer older than ED in this activation
    IF o.locks = <<>> THEN
        (IF o.zk = 0 /\ ~o.released THEN {"Lost"} ELSE {})
        \cup (IF o.zk = 0 /\ ~o.released /\ (\E p \in P0 : Silent(p)) THEN {"Candidate"} ELSE {})
    ELSE IF ~(\E p \in P0 : ~Silent(p)) THEN {}          \* asked although the delay forbids asking
    ELSE IF ~o.locks[1] THEN (IF Len(o.locks) = 1 /\ ~o.released THEN {"Candidate"} ELSE {})
    ELSE IF o.released THEN (IF o.mgrsw /\ rel /\ Len(o.locks) = 1 THEN {"Candidate"} ELSE {})
    ELSE IF o.maint.st = "unread" THEN AfterMaint(o, P1) \cup (IF o.mfile THEN {"Maintenance"} ELSE {})
    ELSE IF o.maint.st = "err" THEN (IF o.mfile THEN {"Maintenance"} ELSE AfterMaint(o, P1))
    ELSE IF o.maint.st = "present" /\ o.maint.light THEN
        (IF o.maint.leave THEN LeaveNext(o, 2, P1) ELSE AfterMaint(o, P1))
    ELSE IF o.maint.st = "present" THEN
        (IF Len(o.locks) # 1 THEN {} ELSE IF o.maint.paused THEN {"Maintenance"} ELSE {"Maintenance", "Manager"})
    ELSE AfterMaint(o, P1)

MaintNext(o, P1) ==
    IF o.maint.st \in {"unread", "err"} THEN (IF o.locks = <<>> THEN {"Maintenance"} ELSE {})
    ELSE IF o.maint.st = "absent" \/ o.maint.leave THEN LeaveNext(o, 1, P1)
    ELSE IF o.locks = <<>> THEN {"Maintenance"} ELSE {}

NextModes(m, o, P0, P1, rel) ==
    CASE m = "FirstRun"    -> FirstRunNext(o)
      [] m = "Manager"     -> MgrNext(o, P0, P1, rel)
      [] m = "Candidate"   -> CandNext(o, P1)
      [] m = "Lost"        -> LostNext(o)
      [] m = "Maintenance" -> MaintNext(o, P1)

\* the timer after the activation (lq1), given the timer before (lq0) and the interval [t0,t1]:
\* unchanged, cleared (AcquireLock found it "late", or checkQuorum found a quorum), or set during
\* the activation (checkQuorum found no quorum and the timer was zero)
TimerNext(m, o, lq0, t0, t1) ==
    {lq0}
    \cup (IF lq0 >= 0 /\ (("late" \in PhasesIn(lq0, t0, t1) /\ m \in {"Manager", "Candidate", "Maintenance"})
                          \/ (m = "Manager" /\ o.mgrsw /\ o.locks # <<>> /\ o.locks[1]))
          THEN {-1} ELSE {})
    \cup (IF lq0 < 0 /\ m = "Manager" /\ o.mgrsw /\ o.locks # <<>> /\ o.locks[1] THEN t0..t1 ELSE {})
=============================================================================
