---------------------------- MODULE LockAppRows -----------------------------
(***************************************************************************)
(* TraceP for C03 (application part): rows projected from traces of the     *)
(* REAL daemon on the fakes.                                                *)
(*  told  - a positive lock answer given to instance `by`, with the client   *)
(*          whose live session owned the lock node at that instant          *)
(*  act   - one activation of a state handler that issued >= 1 cluster-wide  *)
(*          action (mutating SQL on another node; writes of master, active   *)
(*          list, switch request/outcome, recovery marks, maintenance);      *)
(*          `unconfirmed` names the first such action issued while the last  *)
(*          lock answer of the activation was not "held" ("" if none)        *)
(*  promo - a promotion inside a switchover: lock re-confirmed after the     *)
(*          freeze and again after catch-up (locksok)                        *)
(***************************************************************************)
EXTENDS Integers, Sequences, Json, TLC
Rows == ndJsonDeserialize("rows.ndjson")
VARIABLE i
Init == i \in 1..Len(Rows)
Next == UNCHANGED i
Spec == Init /\ [][Next]_i
R == Rows[i]
C03_ToldOnlyOwnerRow == R.kind = "told" => R.owner = R.by
C03_ActsOnlyConfirmedRow == R.kind = "act" => R.unconfirmed = ""
C03_SwitchRechecksRow == (R.kind = "promo" /\ R.inswitch) => R.locksok
=============================================================================
