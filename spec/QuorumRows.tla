----------------------------- MODULE QuorumRows -----------------------------
(* Binding for C12: rows produced by the REAL helpers                       *)
(* (GetRequiredWaitSlaveCount, GetFailoverQuorum, CheckFailoverQuorum) are  *)
(* judged against the property clauses of Quorum.tla.                       *)
(* row = [n, w, ss, req, q, okp]  okp[k] = "CheckFailoverQuorum(list,k-1)   *)
(* returned nil", k = 1 .. n+2                                              *)
EXTENDS Quorum, Sequences, Json, TLC
Rows == ndJsonDeserialize("rows.ndjson")
VARIABLE i
Init == i \in 1..Len(Rows)
Next == UNCHANGED i
Spec == Init /\ [][Next]_i
R == Rows[i]

C12_ReqBounded      == ClauseReqBounded(R.n, R.w, R.req)
C12_ReqZeroOnly     == ClauseReqZeroOnly(R.n, R.w, R.req)
C12_QuorumAtLeast1  == ClauseQuorumAtLeastOne(R.q)
C12_Intersect       == ClauseIntersect(R.n, R.req, R.q)
C12_AcceptSafe      ==
    \A k \in 1..Len(R.okp) :
        IF R.ss THEN ClauseAcceptSafeSemiSync(R.n, R.req, k - 1, R.okp[k])
                ELSE ClauseAcceptSafeAsync(k - 1, R.okp[k])
\* conformance (not a property clause): code == specification operators
Conf_MatchesSpec    == R.req = Required(R.n, R.w) /\ R.q = FailoverQuorum(R.n, R.w)
=============================================================================
