------------------------------ MODULE PrioRows ------------------------------
(* C14 at the call site of the promotion (harness c14prio_test.go): the       *)
(* candidates have different priorities and are all within the lag bound; the  *)
(* read of one candidate's priority record may fail.  Whoever is promoted is   *)
(* the highest-priority candidate - or nobody is (the attempt fails).          *)
EXTENDS Sequences, SequencesExt, Json, TLC
Rows == ndJsonDeserialize("rows.ndjson")
VARIABLE i
Init == i \in 1..Len(Rows)
Next == UNCHANGED i
Spec == Init /\ [][Next]_i
R == Rows[i]
C14_PriorityAtCallSite == R.kind = "prio" => \A k \in 1..Len(R.promoted) : R.promoted[k] = R.best
\* without a failing read the switch does happen, to the highest-priority candidate
C14_ChosenWhenReadable == (R.kind = "prio" /\ R.failing = "") => (R.promoted # <<>> /\ R.promoted[1] = R.best)
=============================================================================
