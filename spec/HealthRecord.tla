---------------------------- MODULE HealthRecord ----------------------------
(***************************************************************************)
(* Growth beyond the listed properties: the ephemeral health record of ONE  *)
(* host across a restart of its mysync (internal/app/app_background.go      *)
(* healthChecker -> SetHealthState -> zkDCS.set with FlagEphemeral).        *)
(*                                                                         *)
(* zkDCS.set on an EXISTING ephemeral node only rewrites its data: the node *)
(* keeps belonging to the session that created it.  When mysync is          *)
(* restarted faster than the old session expires, the new process writes    *)
(* into the old process's node; when the old session then expires the node  *)
(* disappears although a live process has been reporting health all along,  *)
(* and stays absent until the next health check.  A manager evaluating in   *)
(* that window sees "no health record" = master failure (observed in the    *)
(* C05 runs: a failover request was filed for a healthy master after a      *)
(* mysync restart with failover_delay 0).                                   *)
(*                                                                         *)
(* RecordWhileAlive is therefore EXPECTED TO FAIL on this model; the config *)
(* MC_HealthRecord.cfg documents the counterexample.  It is an observation  *)
(* for the maintainers, not one of the listed properties.                   *)
(***************************************************************************)
EXTENDS Integers
VARIABLES proc,      \* generation of the running mysync (0 = none)
          sess,      \* set of live sessions (named by generation)
          owner,     \* session owning the health node (0 = node absent)
          written    \* the running process has written its health at least once
vars == <<proc, sess, owner, written>>
MaxGen == 3
Init == proc = 1 /\ sess = {1} /\ owner = 0 /\ written = FALSE
\* health check of the running process: create if absent, else rewrite data only
Health == /\ proc # 0 /\ proc \in sess
          /\ owner' = IF owner = 0 THEN proc ELSE owner
          /\ written' = TRUE /\ UNCHANGED <<proc, sess>>
\* the process dies without closing its session (kill -9, OOM, host reset of mysync only)
Die == proc # 0 /\ proc' = 0 /\ written' = FALSE /\ UNCHANGED <<sess, owner>>
\* a new process starts and opens a new session
Start == proc = 0 /\ \E g \in 1..MaxGen : g \notin sess /\ (\A s \in sess : s < g) /\ proc' = g /\ sess' = sess \cup {g}
         /\ written' = FALSE /\ UNCHANGED owner
\* a session whose process is gone expires: its ephemeral nodes go with it
Expire == \E s \in sess : s # proc /\ sess' = sess \ {s} /\ owner' = (IF owner = s THEN 0 ELSE owner)
          /\ UNCHANGED <<proc, written>>
Next == Health \/ Die \/ Start \/ Expire
Spec == Init /\ [][Next]_vars
TypeOK == proc \in 0..MaxGen /\ sess \subseteq 1..MaxGen /\ owner \in 0..MaxGen /\ written \in BOOLEAN
\* what an operator would expect: once the running process has reported, its record is there
RecordWhileAlive == (proc # 0 /\ written) => owner # 0
\* what does hold: the record never belongs to a dead session
OwnerAlive == owner # 0 => owner \in sess
=============================================================================
