------------------------------ MODULE LockTrace -----------------------------
(***************************************************************************)
(* TraceP for C03 (layer part): lock histories executed by REAL zkDCS       *)
(* clients on the fake ZooKeeper (harness c03_test.go).  Every event carries *)
(* the server-side ground truth at the instant the call returned.           *)
(*   Acquire  client res wire owner   - AcquireLock returned res; wire = the *)
(*                                      call read the lock node on the wire  *)
(*   ZkDelete client preowner         - the server removed the lock node on  *)
(*                                      a delete request of `client`         *)
(*   ZkExpire client                  - a session of client ended            *)
(* The state machine only tracks "lost": a session of c ended since c's last *)
(* wire-confirmed positive answer (the abstraction ZkLock.tla calls viol).   *)
(***************************************************************************)
EXTENDS Integers, Sequences, Json, TLC
Traces == ndJsonDeserialize("rows.ndjson")
Client == {"p", "q", "r"}
VARIABLES tr, l, lost, bad
vars == <<tr, l, lost, bad>>
Init == tr \in 1..Len(Traces) /\ l = 1 /\ lost = [c \in Client |-> FALSE] /\ bad = "none"
Next == /\ l <= Len(Traces[tr].events) /\ bad = "none"
        /\ LET e == Traces[tr].events[l] IN
           /\ lost' = CASE e.op = "ZkExpire" /\ e.client \in Client -> [lost EXCEPT ![e.client] = TRUE]
                        [] e.op = "Acquire" /\ e.res /\ e.wire -> [lost EXCEPT ![e.client] = FALSE]
                        [] OTHER -> lost
           /\ bad' = CASE e.op = "Acquire" /\ e.res /\ e.owner # e.client -> "C03_AtMostOneTold"
                       [] e.op = "Acquire" /\ e.res /\ lost[e.client] /\ ~e.wire -> "C03_NotAfterLoss"
                       [] e.op = "ZkDelete" /\ e.preowner # e.client -> "C03_ReleaseOwnOnly"
                       [] OTHER -> "none"
        /\ l' = l + 1 /\ tr' = tr
Spec == Init /\ [][Next]_vars
C03_Layer == bad = "none"
=============================================================================
