----------------------------- MODULE SwitchSkel -----------------------------
(***************************************************************************)
(* The CONTROL SKELETON of one switchover attempt: the labels of           *)
(* Switchover.tla (its pc) and the order in which an attempt may pass      *)
(* through them, with the mutating calls the code makes at each label.     *)
(*                                                                         *)
(* It sits between the model and the code:                                 *)
(*  - Switchover.tla implements it (TLC checks SkelOrder, an action        *)
(*    property over the full model: every change of pc is an edge);        *)
(*  - every switchover activation of the REAL manager, reduced to the      *)
(*    sequence of its mutating SQL statements and coordination writes, is  *)
(*    accepted by it (SwitchSkelTrace.tla, TLC searches the assignment of  *)
(*    events to labels).                                                   *)
(* A change of the code that reorders the phases - or a model that no      *)
(* longer describes the order of the code - is rejected by one of the two. *)
(***************************************************************************)
EXTENDS Naturals, Sequences

Labels == <<"idle", "ro", "ro_done", "stopio", "quorum", "positions", "cu_online", "cu_stop", "cu_change",
            "cu_start", "catchup", "resnap", "online_new", "change", "recmark", "stop_new", "reset_new",
            "update_active", "writable", "set_master", "finish">>
Rank(p) == CHOOSE k \in 1..Len(Labels) : Labels[k] = p

\* forward edges of one attempt (besides "-> idle": the attempt ends - failure, rejection, success, crash)
Forward == {
    <<"idle", "ro">>, <<"idle", "quorum">>,
    <<"ro", "ro">>, <<"ro", "ro_done">>,
    <<"ro_done", "stopio">>, <<"ro_done", "quorum">>,
    <<"stopio", "stopio">>, <<"stopio", "quorum">>,
    <<"quorum", "positions">>,
    <<"positions", "cu_online">>, <<"positions", "catchup">>,
    <<"cu_online", "cu_stop">>, <<"cu_stop", "cu_change">>, <<"cu_change", "cu_start">>, <<"cu_start", "catchup">>,
    <<"catchup", "resnap">>, <<"resnap", "online_new">>,
    <<"online_new", "change">>, <<"online_new", "recmark">>,
    <<"change", "change">>, <<"change", "recmark">>,
    <<"recmark", "stop_new">>, <<"stop_new", "reset_new">>, <<"reset_new", "update_active">>,
    <<"update_active", "writable">>, <<"writable", "set_master">>, <<"set_master", "finish">> }
Edge(p, q) == q = "idle" \/ <<p, q>> \in Forward

\* what the code does at a label: classes of mutating calls (see harness c07/skel rows)
\*   ro        SET super_read_only / read_only (+ kill of running queries)          per host
\*   stopio    STOP REPLICA IO_THREAD                                                per host
\*   online    SET offline_mode = OFF
\*   stoprep / changesrc / startrep   STOP REPLICA / CHANGE REPLICATION SOURCE / START REPLICA
\*   resetall  RESET REPLICA ALL
\*   active    write of the active list;  recovery  creation of a recovery mark
\*   semisync  semi-sync settings of the new master and its replicas (startio: START REPLICA IO_THREAD, which
\*             together with a stop latches the replica-side setting)
\*   writable  SET read_only = 0;  master  write of the master record;  finish  removal of the request
Emits(p) ==
    CASE p = "ro" -> {"ro"}
      [] p = "stopio" -> {"stopio"}
      [] p = "cu_online" -> {"online"}
      [] p = "cu_stop" -> {"stoprep"}
      [] p = "cu_change" -> {"changesrc"}
      [] p = "cu_start" -> {"startrep"}
      [] p = "online_new" -> {"online"}
      [] p = "change" -> {"stoprep", "changesrc", "startrep"}
      [] p = "recmark" -> {"active", "recovery"}
      [] p = "stop_new" -> {"stoprep"}
      [] p = "reset_new" -> {"resetall"}
      [] p = "update_active" -> {"semisync", "active", "stopio", "startio"}   \* the IO thread is restarted to latch semi-sync
      [] p = "writable" -> {"writable"}
      [] p = "set_master" -> {"master"}
      [] p = "finish" -> {"finish"}
      [] OTHER -> {}
=============================================================================
