SPECIFICATION Spec
INVARIANTS C11_ClearOnlySelfClean C11_ResetupInstead C11_CleanReleased C11_Marked C11_Excluded
CHECK_DEADLOCK FALSE
