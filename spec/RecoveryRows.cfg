SPECIFICATION Spec
INVARIANTS C11_ClearOnlySelfClean C11_ResetupInstead C11_CleanReleased C11_Marked C11_Excluded Conf_Decision C11_DecisionClearOnlyClean C11_DecisionAheadResetup
CHECK_DEADLOCK FALSE
