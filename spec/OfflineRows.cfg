SPECIFICATION Spec
INVARIANTS C17_EnableOnlyWhenAllowed C17_DisableOnlyWhenAllowed C17_HysteresisUntouched C17_UnknownLagUntouched C17_BrokenRateLimited C17_MasterKeptOnline
CHECK_DEADLOCK FALSE
