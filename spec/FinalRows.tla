------------------------------ MODULE FinalRows -----------------------------
(* TraceP for the end-state clauses of C02 / C07: one row per run of the     *)
(* REAL code, taken after the convergence rounds.                            *)
EXTENDS ClusterProps, SequencesExt, Json, TLC
Rows == ndJsonDeserialize("rows.ndjson")
VARIABLE i
Init == i \in 1..Len(Rows)
Next == UNCHANGED i
Spec == Init /\ [][Next]_i
R == Rows[i]
HostNames == DOMAIN R.hosts
H == [h \in HostNames |-> [up |-> R.hosts[h].up, reach |-> R.hosts[h].reach, ro |-> R.hosts[h].ro, src |-> R.hosts[h].src,
                           exec |-> ToSet(R.hosts[h].exec), recv |-> ToSet(R.hosts[h].recv),
                           pend |-> ToSet(R.hosts[h].pend)]]
HA == ToSet(R.ha)
IsFinal == R.kind = "final"

C07_RequestResolved     == IsFinal /\ R.hadrequest => R.tree.switch = ""
C02_OneWritableMasterRow == IsFinal => C02_OneWritableMaster(H, HA, R.tree.master)
C02_ReplicasFollowRow    == IsFinal /\ R.tree.master \in HA => C02_ReplicasFollow(H, HA, R.tree.master)
C02_NoAckedLossRow       == IsFinal /\ R.tree.master \in HA => C02_NoAckedLoss(H, R.tree.master, ToSet(R.acked))
\* while the fault lasts no second node acknowledges (observation: ack log retirements)
C02_SingleAckerRow       == IsFinal => R.ackviol = ""
\* the cluster returned to a master that is an HA node at all
C02_MasterRecordedRow    == IsFinal => R.tree.master \in HA
=============================================================================
