------------------------------- MODULE OptRows ------------------------------
(* TraceP for C19 (sync part): one row per call of the REAL Syncer.Sync (and  *)
(* Controller.DisableAll) on fake servers and a fake registry.                *)
EXTENDS Integers, Sequences, FiniteSets, Json, TLC
Rows == ndJsonDeserialize("rows.ndjson")
VARIABLE i
Init == i \in 1..Len(Rows)
Next == UNCHANGED i
Spec == Init /\ [][Next]_i
R == Rows[i]
H == R.hosts
Names == DOMAIN H
IsSync == R.kind = "sync"
Relaxed(h) == H[h].durafter # R.masterdur
\* after every completed sync at most one registered replica runs relaxed
C19_AtMostOne == (IsSync /\ R.completed) => Cardinality({h \in Names : H[h].regafter /\ Relaxed(h)}) <= 1
\* ... and NO sync - completed or not - leaves more registered replicas relaxed than it found, beyond one (a sync that
\* fails to restore one host must not go on and relax another)
RelaxedBefore(h) == H[h].durbefore # R.masterdur
C19_NeverMoreRelaxed ==
    IsSync => LET before == Cardinality({h \in Names : ~H[h].ismaster /\ H[h].regbefore /\ RelaxedBefore(h)})
                  after  == Cardinality({h \in Names : ~H[h].ismaster /\ H[h].regafter /\ Relaxed(h)})
              IN after <= (IF before > 1 THEN before ELSE 1)
\* a registered cluster host is dropped only after its settings were restored
C19_RestoreThenDrop == IsSync => \A k \in DOMAIN R.drops : R.drops[k].clusterhost => R.drops[k].restored
\* replicas without a known lag and converged replicas are restored and dropped by a completed sync
C19_LostAndConverged == (IsSync /\ R.completed /\ ~R.faulted) =>
    \A h \in Names : (H[h].regbefore /\ ~H[h].ismaster /\ (H[h].lag < 0 \/ H[h].lag < R.lowmark)) =>
                        (~H[h].regafter /\ ~Relaxed(h))
\* nobody outside the registry is left relaxed by a completed sync that found it safe
C19_NoUntrackedRelaxed == (IsSync /\ R.completed /\ ~R.faulted) =>
    \A h \in Names : (~H[h].regafter /\ H[h].durbefore = R.masterdur) => ~Relaxed(h)
=============================================================================
