SPECIFICATION Spec
INVARIANTS C14_NeverFromRow
CHECK_DEADLOCK FALSE
