SPECIFICATION Spec
CONSTANTS
  ED = 30000
  AD = 45000
INVARIANTS
  C03_ManagerModeNeedsLock
  C03_ManagerAsksFirst
  C03_ReleaseOnlyByHandover
  C09_CandidateFollowsAck
  C09_PausedUntilToldToLeave
  C09_ManagerObeysRecord
  Conf_Mode
  Conf_Timer
  Conf_Const
CHECK_DEADLOCK FALSE
