----------------------------- MODULE Switchover -----------------------------
(***************************************************************************)
(* The switchover / failover procedure of mysync                           *)
(* (internal/app/app.go stateManager ~469-524, approveSwitchover,          *)
(*  performSwitchover ~1224-1523, Start/Fail/FinishSwitchover) at          *)
(* EXTERNAL-CALL granularity, composed with the MySQL environment          *)
(* (replication, semi-sync, read-only semantics; assumptions E1-E6) and    *)
(* the coordination tree.  One action per mutating call of the code; the   *)
(* reads that precede a call are folded into the step that ends with it.   *)
(*                                                                         *)
(* Used for: C01 (promotion safety, split-brain abort), C06 (request       *)
(* lifecycle on the manager side), C07 (manager crash at any label),       *)
(* C11 (recovery mark).  The turbo phase is specified in Optimization.tla, *)
(* the active-list update in ActiveNodes.tla (it appears here as one       *)
(* coarse step).                                                           *)
(***************************************************************************)
EXTENDS ClusterProps, SwitchSkel, TLC

CONSTANTS Host,        \* HA hosts
          Txn,         \* universe of transactions
          Orig,        \* Orig[t] \in Host: server the transaction originated on
          W,           \* configured rpl_semi_sync_master_wait_for_slave_count
          MaxFaults,   \* spurious failures of external calls
          MaxCrash,    \* mysqld crashes
          MaxMgrCrash, \* crashes of the managing mysync (C07)
          MaxAttempts, \* switchover_max_attempts
          M0           \* the initial master

None == "none"
NoSwitch == [to |-> None, from |-> None, cause |-> "none", trans |-> "none", run |-> 0]

VARIABLES
    \* ---- MySQL servers (MySQLEnv) ----
    up, ro, src, io, sql, exec, recv, pend, ssM, ssS, ssSAct, wsc, acked,
    \* ---- coordination tree ----
    zmaster, zactive, zswitch, zrecovery, zlast,
    \* ---- the managing process (locals of stateManager/performSwitchover) ----
    pc, L, act, ping, todo, err1, err2, frozen, pos, mostRecent, newMaster, oldMaster, emerge,
    \* ---- budgets and observation ----
    faults, crashes, mcrashes, viol, promoted, cost0

envVars == <<up, ro, src, io, sql, exec, recv, pend, ssM, ssS, ssSAct, wsc, acked>>
zkVars  == <<zmaster, zactive, zswitch, zrecovery, zlast>>
mgrVars == <<pc, L, act, ping, todo, err1, err2, frozen, pos, mostRecent, newMaster, oldMaster, emerge>>
obsVars == <<faults, crashes, mcrashes, viol, promoted, cost0>>
vars    == <<envVars, zkVars, mgrVars, obsVars>>

HState == [h \in Host |-> [up |-> up[h], ro |-> ro[h], exec |-> exec[h], recv |-> recv[h], pend |-> pend[h]]]

Binlog(h) == exec[h] \cup pend[h]
Everywhere == UNION {exec[h] \cup recv[h] \cup pend[h] : h \in Host}

IsFailoverType == zswitch.cause # "none" /\ zswitch.trans = "failover"

(***************************************************************************)
(* Environment actions                                                     *)
(***************************************************************************)
AckersOf(h, t) == {r \in Host : src[r] = h /\ up[r] /\ io[r] /\ ssSAct[r] /\ t \in recv[r] \cup exec[r]}
CanAck(h, t) == ~ssM[h] \/ Cardinality(AckersOf(h, t)) >= wsc[h]

ClientCommit(h, t) ==
    /\ up[h] /\ ro[h] = "rw" /\ Orig[t] = h /\ t \notin Everywhere
    /\ IF ssM[h] /\ wsc[h] > 0
       THEN pend' = [pend EXCEPT ![h] = @ \cup {t}] /\ UNCHANGED <<exec, acked>>
       ELSE exec' = [exec EXCEPT ![h] = @ \cup {t}] /\ acked' = acked \cup {t} /\ UNCHANGED pend
    /\ UNCHANGED <<up, ro, src, io, sql, recv, ssM, ssS, ssSAct, wsc, zkVars, mgrVars, obsVars>>

Ack(h, t) ==
    /\ up[h] /\ t \in pend[h] /\ CanAck(h, t)
    /\ pend' = [pend EXCEPT ![h] = @ \ {t}]
    /\ exec' = [exec EXCEPT ![h] = @ \cup {t}]
    /\ acked' = acked \cup {t}
    /\ UNCHANGED <<up, ro, src, io, sql, recv, ssM, ssS, ssSAct, wsc, zkVars, mgrVars, obsVars>>

Fetch(r, t) ==
    /\ up[r] /\ src[r] # None /\ io[r] /\ up[src[r]]
    /\ t \in Binlog(src[r]) /\ t \notin exec[r] \cup recv[r]
    /\ recv' = [recv EXCEPT ![r] = @ \cup {t}]
    /\ UNCHANGED <<up, ro, src, io, sql, exec, pend, ssM, ssS, ssSAct, wsc, acked, zkVars, mgrVars, obsVars>>

Apply(r, t) ==
    /\ up[r] /\ sql[r] /\ t \in recv[r]
    /\ recv' = [recv EXCEPT ![r] = @ \ {t}]
    /\ exec' = [exec EXCEPT ![r] = @ \cup {t}]
    /\ UNCHANGED <<up, ro, src, io, sql, pend, ssM, ssS, ssSAct, wsc, acked, zkVars, mgrVars, obsVars>>

CrashHost(h) ==
    /\ crashes < MaxCrash /\ up[h]
    /\ up' = [up EXCEPT ![h] = FALSE]
    /\ crashes' = crashes + 1
    /\ UNCHANGED <<ro, src, io, sql, exec, recv, pend, ssM, ssS, ssSAct, wsc, acked, zkVars, mgrVars,
                   faults, mcrashes, viol, promoted, cost0>>

(***************************************************************************)
(* Helpers for the manager's steps                                         *)
(***************************************************************************)
\* a call to host h can be answered
Answers(h) == up[h]
SpendFault == faults < MaxFaults /\ faults' = faults + 1
NoFault == faults' = faults

ResetLocals ==
    /\ L' = {} /\ act' = {} /\ ping' = [h \in Host |-> FALSE] /\ todo' = {} /\ err1' = {} /\ err2' = {}
    /\ frozen' = {} /\ pos' = [h \in Host |-> {}] /\ mostRecent' = None /\ newMaster' = None
    /\ oldMaster' = None

\* FailSwitchover: the attempt is counted, the request stays
FailAttempt ==
    /\ zswitch' = [zswitch EXCEPT !.run = @ + 1]
    /\ pc' = "idle"
    /\ ResetLocals
    /\ UNCHANGED <<zmaster, zactive, zrecovery, zlast>>

\* FinishSwitchover(err): request removed, rejection recorded
RejectRequest ==
    /\ zswitch' = NoSwitch
    /\ zlast' = "rejected"
    /\ pc' = "idle"
    /\ ResetLocals
    /\ UNCHANGED <<zmaster, zactive, zrecovery>>

AliveReplicasIn(S) == {h \in S : up[h] /\ src[h] # None}

(***************************************************************************)
(* stateManager: request found -> approve -> StartSwitchover               *)
(***************************************************************************)
Start ==
    /\ pc = "idle" /\ zswitch.cause # "none"
    /\ LET l == zactive
           pg == [h \in Host |-> up[h]]
       IN
       \/ \* attempt limit (planned switchovers only)
          /\ zswitch.trans # "failover" /\ zswitch.run >= MaxAttempts
          /\ RejectRequest /\ UNCHANGED <<emerge>>
       \/ \* first attempt: quorum judgement on alive replicas of the list
          /\ ~(zswitch.trans # "failover" /\ zswitch.run >= MaxAttempts)
          /\ zswitch.run = 0
          /\ Cardinality(AliveReplicasIn(l)) < FailoverQuorum(Cardinality(l), W)
          /\ RejectRequest /\ UNCHANGED <<emerge>>
       \/ \* approved (or already approved on an earlier attempt)
          /\ ~(zswitch.trans # "failover" /\ zswitch.run >= MaxAttempts)
          /\ (zswitch.run > 0 \/ Cardinality(AliveReplicasIn(l)) >= FailoverQuorum(Cardinality(l), W))
          /\ IF zswitch.to # None /\ zswitch.to \notin l
             THEN FailAttempt /\ UNCHANGED <<emerge>>
             ELSE /\ L' = l
                  /\ ping' = pg
                  /\ oldMaster' = zmaster
                  /\ act' = IF zswitch.cause = "auto" /\ zswitch.from = zmaster THEN l \ {zmaster} ELSE l
                  /\ todo' = act'
                  /\ err1' = {} /\ err2' = {} /\ frozen' = {} /\ pos' = [h \in Host |-> {}]
                  /\ mostRecent' = None /\ newMaster' = None
                  /\ pc' = IF act' = {} THEN "quorum" ELSE "ro"
                  /\ UNCHANGED <<zkVars, emerge>>
    /\ UNCHANGED <<envVars, obsVars>>

(***************************************************************************)
(* phase 1: read-only everywhere (RunParallel: any order)                  *)
(***************************************************************************)
RoStep(h) ==
    /\ pc = "ro" /\ h \in todo
    /\ todo' = todo \ {h}
    /\ pc' = IF todo' = {} THEN "ro_done" ELSE "ro"
    /\ \/ \* not pingable at the top of the iteration, or the call fails
          /\ (~ping[h] \/ ~Answers(h))
          /\ err1' = err1 \cup {h} /\ NoFault
          /\ UNCHANGED <<ro, exec, pend>>
       \/ /\ ping[h] /\ Answers(h) /\ SpendFault
          /\ err1' = err1 \cup {h}
          /\ UNCHANGED <<ro, exec, pend>>
       \/ \* SET GLOBAL super_read_only = 1 (E1: in-flight commits are killed by
          \* the forced variant and become locally committed without an ack, E2)
          /\ ping[h] /\ Answers(h) /\ NoFault
          /\ ro' = [ro EXCEPT ![h] = "sro"]
          /\ exec' = [exec EXCEPT ![h] = @ \cup pend[h]]
          /\ pend' = [pend EXCEPT ![h] = {}]
          /\ UNCHANGED err1
    /\ UNCHANGED <<up, src, io, sql, recv, ssM, ssS, ssSAct, wsc, acked, zkVars,
                   L, act, ping, err2, frozen, pos, mostRecent, newMaster, oldMaster, emerge,
                   crashes, mcrashes, viol, promoted, cost0>>

RoDone ==
    /\ pc = "ro_done"
    /\ IF oldMaster \in act /\ oldMaster \in err1 /\ zswitch.trans # "failover"
       THEN RejectRequest /\ UNCHANGED <<emerge>>
       ELSE /\ todo' = act \ {oldMaster}
            /\ pc' = IF todo' = {} THEN "quorum" ELSE "stopio"
            /\ UNCHANGED <<zkVars, L, act, ping, err1, err2, frozen, pos, mostRecent, newMaster, oldMaster, emerge>>
    /\ UNCHANGED <<envVars, obsVars>>

(***************************************************************************)
(* phase 2: stop IO threads                                                *)
(***************************************************************************)
StopIOStep(h) ==
    /\ pc = "stopio" /\ h \in todo
    /\ todo' = todo \ {h}
    /\ pc' = IF todo' = {} THEN "quorum" ELSE "stopio"
    /\ \/ /\ (~ping[h] \/ ~Answers(h))
          /\ err2' = err2 \cup {h} /\ NoFault /\ UNCHANGED io
       \/ /\ ping[h] /\ Answers(h) /\ SpendFault
          /\ err2' = err2 \cup {h} /\ UNCHANGED io
       \/ /\ ping[h] /\ Answers(h) /\ NoFault
          /\ io' = [io EXCEPT ![h] = FALSE]
          /\ UNCHANGED err2
    /\ UNCHANGED <<up, ro, src, sql, exec, recv, pend, ssM, ssS, ssSAct, wsc, acked, zkVars,
                   L, act, ping, err1, frozen, pos, mostRecent, newMaster, oldMaster, emerge,
                   crashes, mcrashes, viol, promoted, cost0>>

QuorumRecount ==
    /\ pc = "quorum"
    /\ LET fr == act \ (err1 \cup err2) IN
       IF Cardinality(fr) < FailoverQuorum(Cardinality(L), W)
       THEN FailAttempt /\ UNCHANGED <<emerge>>
       ELSE /\ frozen' = fr
            /\ pc' = "positions"
            /\ UNCHANGED <<zkVars, L, act, ping, todo, err1, err2, pos, mostRecent, newMaster, oldMaster, emerge>>
    /\ UNCHANGED <<envVars, obsVars>>

(***************************************************************************)
(* phase 3: positions, split brain, choice of the new master               *)
(***************************************************************************)
PosOf(h) == IF src[h] = None THEN exec[h] ELSE exec[h] \cup recv[h]

Positions ==
    /\ pc = "positions"
    /\ IF \E h \in frozen : ~Answers(h)
       THEN FailAttempt /\ UNCHANGED <<emerge>>
       ELSE LET p == [h \in Host |-> IF h \in frozen THEN PosOf(h) ELSE {}]
                maxes == {h \in frozen : \A g \in frozen : p[g] \subseteq p[h]}
            IN
            IF Cardinality(frozen) = 1 /\ zswitch.from \in frozen
            THEN FailAttempt /\ UNCHANGED <<emerge>>
            ELSE IF maxes = {}
            THEN emerge' = TRUE /\ FailAttempt
            ELSE \E mr \in maxes :
                 \E nm \in (IF zswitch.to # None THEN {zswitch.to}
                            ELSE IF zswitch.from # None THEN frozen \ {zswitch.from}
                            ELSE {mr}) :
                    /\ pos' = p /\ mostRecent' = mr /\ newMaster' = nm
                    /\ pc' = IF nm # mr THEN "cu_online" ELSE "catchup"
                    /\ UNCHANGED <<zkVars, L, act, ping, todo, err1, err2, frozen, oldMaster, emerge>>
    /\ UNCHANGED <<envVars, obsVars>>

\* from-request with no other frozen node: getMostDesirableNode errors
PositionsNoCandidate ==
    /\ pc = "positions" /\ \A h \in frozen : Answers(h)
    /\ zswitch.to = None /\ zswitch.from # None /\ frozen \ {zswitch.from} = {}
    /\ Cardinality(frozen) # 1
    /\ FailAttempt
    /\ UNCHANGED <<envVars, obsVars, emerge>>

(***************************************************************************)
(* phase 4: catch up (re-point the new master to the most recent node)     *)
(***************************************************************************)
MgrKeep == UNCHANGED <<L, act, ping, todo, err1, err2, frozen, pos, mostRecent, newMaster, oldMaster, emerge>>

\* generic failing outcome of a call at label `lbl`
CallFails(h) == (~Answers(h) /\ NoFault) \/ (Answers(h) /\ SpendFault)

CuOnline ==   \* SET GLOBAL offline_mode = OFF on the most recent node
    /\ pc = "cu_online"
    /\ \/ CallFails(mostRecent) /\ FailAttempt /\ UNCHANGED <<emerge, envVars>>
       \/ Answers(mostRecent) /\ NoFault /\ pc' = "cu_stop" /\ MgrKeep /\ UNCHANGED <<zkVars, envVars>>
    /\ UNCHANGED <<crashes, mcrashes, viol, promoted, cost0>>

CuStop ==     \* STOP REPLICA on the new master
    /\ pc = "cu_stop"
    /\ \/ CallFails(newMaster) /\ FailAttempt /\ UNCHANGED <<emerge, envVars>>
       \/ /\ Answers(newMaster) /\ NoFault
          /\ io' = [io EXCEPT ![newMaster] = FALSE] /\ sql' = [sql EXCEPT ![newMaster] = FALSE]
          /\ pc' = "cu_change" /\ MgrKeep
          /\ UNCHANGED <<zkVars, up, ro, src, exec, recv, pend, ssM, ssS, ssSAct, wsc, acked>>
    /\ UNCHANGED <<crashes, mcrashes, viol, promoted, cost0>>

CuChange ==   \* CHANGE REPLICATION SOURCE TO mostRecent (relay log discarded, E4)
    /\ pc = "cu_change"
    /\ \/ CallFails(newMaster) /\ FailAttempt /\ UNCHANGED <<emerge, envVars>>
       \/ /\ Answers(newMaster) /\ NoFault
          /\ src' = [src EXCEPT ![newMaster] = mostRecent]
          /\ recv' = [recv EXCEPT ![newMaster] = {}]
          /\ pc' = "cu_start" /\ MgrKeep
          /\ UNCHANGED <<zkVars, up, ro, io, sql, exec, pend, ssM, ssS, ssSAct, wsc, acked>>
    /\ UNCHANGED <<crashes, mcrashes, viol, promoted, cost0>>

CuStart ==    \* START REPLICA (semi-sync slave flag latched, E3)
    /\ pc = "cu_start"
    /\ \/ CallFails(newMaster) /\ FailAttempt /\ UNCHANGED <<emerge, envVars>>
       \/ /\ Answers(newMaster) /\ NoFault
          /\ io' = [io EXCEPT ![newMaster] = TRUE] /\ sql' = [sql EXCEPT ![newMaster] = TRUE]
          /\ ssSAct' = [ssSAct EXCEPT ![newMaster] = ssS[newMaster]]
          /\ pc' = "catchup" /\ MgrKeep
          /\ UNCHANGED <<zkVars, up, ro, src, exec, recv, pend, ssM, ssS, wsc, acked>>
    /\ UNCHANGED <<crashes, mcrashes, viol, promoted, cost0>>

Catchup ==    \* waitForCatchUp: poll gtid_executed of the new master
    /\ pc = "catchup"
    /\ \/ ~Answers(newMaster) /\ FailAttempt /\ UNCHANGED emerge
       \/ /\ Answers(newMaster) /\ pos[mostRecent] \subseteq exec[newMaster]
          /\ pc' = "resnap" /\ MgrKeep /\ UNCHANGED zkVars
       \/ \* slave_catch_up_timeout expires
          /\ Answers(newMaster) /\ ~(pos[mostRecent] \subseteq exec[newMaster])
          /\ FailAttempt /\ UNCHANGED emerge
    /\ UNCHANGED <<envVars, obsVars>>

(***************************************************************************)
(* phase 5: turn everybody to the new master                               *)
(***************************************************************************)
Resnap ==     \* clusterState = getClusterStateFromDB() after the second lock check
    /\ pc = "resnap"
    /\ IF ~up[newMaster]
       THEN FailAttempt /\ UNCHANGED emerge
       ELSE /\ ping' = [h \in Host |-> up[h]]
            /\ todo' = {h \in act \ {newMaster} : up[h]}
            /\ pc' = "online_new"
            /\ UNCHANGED <<zkVars, L, act, err1, err2, frozen, pos, mostRecent, newMaster, oldMaster, emerge>>
    /\ UNCHANGED <<envVars, obsVars>>

OnlineNew ==
    /\ pc = "online_new"
    /\ \/ CallFails(newMaster) /\ FailAttempt /\ UNCHANGED <<emerge, envVars>>
       \/ /\ Answers(newMaster) /\ NoFault
          /\ pc' = IF todo = {} THEN "recmark" ELSE "change"
          /\ MgrKeep /\ UNCHANGED <<zkVars, envVars>>
    /\ UNCHANGED <<crashes, mcrashes, viol, promoted, cost0>>

\* performChangeMaster(h, newMaster) = STOP REPLICA; CHANGE SOURCE; START REPLICA.
\* The three calls of one host are one step with four outcomes (which of them failed).
ChangeStep(h) ==
    /\ pc = "change" /\ h \in todo
    /\ \/ \* STOP REPLICA fails
          /\ CallFails(h) /\ FailAttempt /\ UNCHANGED <<emerge, envVars>>
       \/ \* stopped, CHANGE fails
          /\ Answers(h) /\ SpendFault
          /\ io' = [io EXCEPT ![h] = FALSE] /\ sql' = [sql EXCEPT ![h] = FALSE]
          /\ FailAttempt /\ UNCHANGED <<emerge, up, ro, src, exec, recv, pend, ssM, ssS, ssSAct, wsc, acked>>
       \/ \* changed, START fails
          /\ Answers(h) /\ SpendFault
          /\ io' = [io EXCEPT ![h] = FALSE] /\ sql' = [sql EXCEPT ![h] = FALSE]
          /\ src' = [src EXCEPT ![h] = newMaster] /\ recv' = [recv EXCEPT ![h] = {}]
          /\ FailAttempt /\ UNCHANGED <<emerge, up, ro, exec, pend, ssM, ssS, ssSAct, wsc, acked>>
       \/ \* all three succeed
          /\ Answers(h) /\ NoFault
          /\ src' = [src EXCEPT ![h] = newMaster] /\ recv' = [recv EXCEPT ![h] = {}]
          /\ io' = [io EXCEPT ![h] = TRUE] /\ sql' = [sql EXCEPT ![h] = TRUE]
          /\ ssSAct' = [ssSAct EXCEPT ![h] = ssS[h]]
          /\ todo' = todo \ {h}
          /\ pc' = IF todo' = {} THEN "recmark" ELSE "change"
          /\ UNCHANGED <<zkVars, L, act, ping, err1, err2, frozen, pos, mostRecent, newMaster, oldMaster, emerge,
                         up, ro, exec, pend, ssM, ssS, wsc, acked>>
    /\ UNCHANGED <<crashes, mcrashes, viol, promoted, cost0>>

\* old master needs recovery unless it is observed as a replica whose executed
\* set is contained in the most recent position
OldNeedsRecovery == \/ ~up[oldMaster] \/ src[oldMaster] = None
                    \/ ~(exec[oldMaster] \subseteq pos[mostRecent])

RecMark ==    \* SetRecovery(oldMaster): remove from the list FIRST, then mark
    /\ pc = "recmark"
    /\ IF OldNeedsRecovery
       THEN \/ /\ NoFault
               /\ zactive' = zactive \ {oldMaster}
               /\ zrecovery' = zrecovery \cup {oldMaster}
               /\ pc' = "stop_new" /\ MgrKeep /\ UNCHANGED <<zmaster, zswitch, zlast>>
            \/ \* the first write lands, the second fails
               /\ SpendFault
               /\ zactive' = zactive \ {oldMaster}
               /\ zswitch' = [zswitch EXCEPT !.run = @ + 1]
               /\ pc' = "idle" /\ ResetLocals /\ UNCHANGED <<zmaster, zrecovery, zlast, emerge>>
       ELSE NoFault /\ pc' = "stop_new" /\ MgrKeep /\ UNCHANGED zkVars
    /\ UNCHANGED <<envVars, crashes, mcrashes, viol, promoted, cost0>>

(***************************************************************************)
(* phase 6: promote                                                        *)
(***************************************************************************)
StopNew ==
    /\ pc = "stop_new"
    /\ \/ CallFails(newMaster) /\ FailAttempt /\ UNCHANGED <<emerge, envVars>>
       \/ /\ Answers(newMaster) /\ NoFault
          /\ io' = [io EXCEPT ![newMaster] = FALSE] /\ sql' = [sql EXCEPT ![newMaster] = FALSE]
          /\ pc' = "reset_new" /\ MgrKeep
          /\ UNCHANGED <<zkVars, up, ro, src, exec, recv, pend, ssM, ssS, ssSAct, wsc, acked>>
    /\ UNCHANGED <<crashes, mcrashes, viol, promoted, cost0>>

ResetNew ==   \* RESET REPLICA ALL
    /\ pc = "reset_new"
    /\ \/ CallFails(newMaster) /\ FailAttempt /\ UNCHANGED <<emerge, envVars>>
       \/ /\ Answers(newMaster) /\ NoFault
          /\ src' = [src EXCEPT ![newMaster] = None]
          /\ recv' = [recv EXCEPT ![newMaster] = {}]
          /\ pc' = "update_active" /\ MgrKeep
          /\ UNCHANGED <<zkVars, up, ro, io, sql, exec, pend, ssM, ssS, ssSAct, wsc, acked>>
    /\ UNCHANGED <<crashes, mcrashes, viol, promoted, cost0>>

\* updateActiveNodes(new master) - coarse: the list of running, clean replicas of
\* the new master is made semi-sync and published (details: ActiveNodes.tla).
\* Errors are only logged by the code, so the step may also do nothing.
UpdateActive ==
    /\ pc = "update_active"
    /\ \/ /\ pc' = "writable" /\ MgrKeep /\ NoFault /\ UNCHANGED <<zkVars, envVars>>
       \/ /\ up[newMaster] /\ NoFault
          /\ LET A == {newMaster} \cup {h \in Host : up[h] /\ src[h] = newMaster /\ io[h] /\ sql[h]
                                                      /\ h \notin zrecovery /\ exec[h] \subseteq exec[newMaster]}
                 req == Required(Cardinality(A), W)
             IN /\ ssS' = [h \in Host |-> IF h \in A \ {newMaster} THEN TRUE ELSE IF h = newMaster THEN FALSE ELSE ssS[h]]
                /\ ssSAct' = [h \in Host |-> IF h \in A \ {newMaster} THEN TRUE ELSE ssSAct[h]]
                /\ ssM' = [ssM EXCEPT ![newMaster] = req > 0]
                /\ wsc' = [wsc EXCEPT ![newMaster] = IF req > 0 THEN req ELSE @]
                /\ zactive' = A
          /\ pc' = "writable" /\ MgrKeep
          /\ UNCHANGED <<zmaster, zswitch, zrecovery, zlast, up, ro, src, io, sql, exec, recv, pend, acked>>
    /\ UNCHANGED <<crashes, mcrashes, viol, promoted, cost0>>

\* SET GLOBAL read_only = 0 on the new master: THE C01 TRIGGER
Writable ==
    /\ pc = "writable"
    /\ \/ CallFails(newMaster) /\ FailAttempt /\ UNCHANGED <<emerge, envVars, viol, promoted>>
       \/ /\ Answers(newMaster) /\ NoFault
          /\ ro' = [ro EXCEPT ![newMaster] = "rw"]
          /\ LET H2 == [h \in Host |-> [up |-> up[h], ro |-> ro'[h], exec |-> exec[h], recv |-> recv[h], pend |-> pend[h]]]
             IN viol' = (viol \/ (zmaster # newMaster /\ ~C01_PromotionSafeSemi(L, newMaster, H2, W)))
          /\ promoted' = promoted \cup {newMaster}
          /\ pc' = "set_master" /\ MgrKeep
          /\ UNCHANGED <<zkVars, up, src, io, sql, exec, recv, pend, ssM, ssS, ssSAct, wsc, acked>>
    /\ UNCHANGED <<crashes, mcrashes, cost0>>

SetMaster ==  \* the recorded master is updated LAST
    /\ pc = "set_master"
    /\ \/ SpendFault /\ FailAttempt /\ UNCHANGED emerge
       \/ NoFault /\ zmaster' = newMaster /\ pc' = "finish" /\ MgrKeep /\ UNCHANGED <<zactive, zswitch, zrecovery, zlast>>
    /\ UNCHANGED <<envVars, crashes, mcrashes, viol, promoted, cost0>>

Finish ==     \* FinishSwitchover(nil)
    /\ pc = "finish"
    /\ zswitch' = NoSwitch /\ zlast' = "ok"
    /\ pc' = "idle" /\ ResetLocals
    /\ UNCHANGED <<zmaster, zactive, zrecovery, emerge, envVars, obsVars>>

(***************************************************************************)
(* C07: the managing process dies at any label; a successor (same code,    *)
(* fresh locals) finds the request still in the tree and starts over.      *)
(***************************************************************************)
ManagerCrash ==
    /\ pc # "idle" /\ mcrashes < MaxMgrCrash
    /\ mcrashes' = mcrashes + 1
    /\ pc' = "idle" /\ ResetLocals
    /\ UNCHANGED <<envVars, zkVars, emerge, faults, crashes, viol, promoted, cost0>>

Next ==
    \/ Start \/ RoDone \/ QuorumRecount \/ Positions \/ PositionsNoCandidate
    \/ CuOnline \/ CuStop \/ CuChange \/ CuStart \/ Catchup \/ Resnap \/ OnlineNew
    \/ RecMark \/ StopNew \/ ResetNew \/ UpdateActive \/ Writable \/ SetMaster \/ Finish
    \/ ManagerCrash
    \/ \E h \in Host : RoStep(h) \/ StopIOStep(h) \/ ChangeStep(h) \/ CrashHost(h)
    \/ \E h \in Host, t \in Txn : ClientCommit(h, t) \/ Ack(h, t) \/ Fetch(h, t) \/ Apply(h, t)

(***************************************************************************)
(* Initial states: a cluster that satisfies C04 for its published list     *)
(* (ackers listed, wait count covers the list), every GTID shape over Txn, *)
(* master possibly dead, every request kind.                               *)
(***************************************************************************)
Replicas0 == Host \ {M0}
Requests ==
    {[to |-> t, from |-> None, cause |-> "manual", trans |-> "switchover", run |-> 0] : t \in Replicas0}
    \cup {[to |-> None, from |-> M0, cause |-> "manual", trans |-> "switchover", run |-> 0],
          [to |-> None, from |-> M0, cause |-> "auto",   trans |-> "failover",   run |-> 0],
          [to |-> None, from |-> M0, cause |-> "manual", trans |-> "failover",   run |-> 0]}
    \cup {[to |-> t, from |-> None, cause |-> "worker", trans |-> "none", run |-> 0] : t \in Replicas0}

Init ==
    /\ up \in [Host -> BOOLEAN] /\ \A h \in Replicas0 : up[h]
    /\ ro = [h \in Host |-> IF h = M0 THEN "rw" ELSE "sro"]
    /\ src = [h \in Host |-> IF h = M0 THEN None ELSE M0]
    /\ io = [h \in Host |-> h # M0] /\ sql = [h \in Host |-> h # M0]
    /\ exec \in [Host -> SUBSET Txn] /\ recv \in [Host -> SUBSET Txn] /\ pend \in [Host -> SUBSET Txn]
    /\ \A h \in Host : exec[h] \cap recv[h] = {} /\ exec[h] \cap pend[h] = {} /\ recv[h] \cap pend[h] = {}
    /\ recv[M0] = {} /\ \A h \in Replicas0 : pend[h] = {}
    \* a transaction exists somewhere only if its origin's binlog history explains it:
    \* replicas hold only what the master has (executed or pending) or their own foreign ones
    /\ \A h \in Replicas0 : \A t \in exec[h] \cup recv[h] : t \in Binlog(M0) \/ Orig[t] = h
    /\ \A t \in Binlog(M0) : Orig[t] = M0
    /\ ssM = [h \in Host |-> h = M0 /\ Required(Cardinality(Host), W) > 0]
    /\ ssS = [h \in Host |-> h # M0] /\ ssSAct = [h \in Host |-> h # M0]
    /\ wsc = [h \in Host |-> IF h = M0 THEN Required(Cardinality(Host), W) ELSE 1]
    \* acknowledged = executed on the master and held by enough listed replicas
    /\ acked = {t \in exec[M0] : Cardinality({r \in Replicas0 : t \in exec[r] \cup recv[r]}) >= wsc[M0]}
    \* what is executed on the master without having been acknowledgeable cannot exist
    \* under semi-sync (it would still be pending)
    /\ ssM[M0] => exec[M0] = acked
    /\ zmaster = M0 /\ zactive = Host /\ zswitch \in Requests /\ zrecovery = {} /\ zlast = None
    \* an automatic failover is only filed for a master that does not answer (C05 gates)
    /\ zswitch.cause = "auto" => ~up[M0]
    /\ pc = "idle" /\ L = {} /\ act = {} /\ ping = [h \in Host |-> FALSE] /\ todo = {} /\ err1 = {} /\ err2 = {}
    /\ frozen = {} /\ pos = [h \in Host |-> {}] /\ mostRecent = None /\ newMaster = None /\ oldMaster = None
    /\ emerge = FALSE
    /\ faults = 0 /\ crashes = 0 /\ mcrashes = 0 /\ viol = FALSE /\ promoted = {} /\ cost0 = (IF ~up[M0] THEN 1 ELSE 0) + (IF zswitch.cause = "auto" THEN 0 ELSE 1)

Spec == Init /\ [][Next]_vars

(***************************************************************************)
(* Properties                                                              *)
(***************************************************************************)
\* state constraint for bounded exploration (failover-type requests retry forever)
RunBound == zswitch.run <= MaxAttempts + 1

TypeOK == /\ pc \in {"idle", "ro", "ro_done", "stopio", "quorum", "positions", "cu_online", "cu_stop", "cu_change",
                     "cu_start", "catchup", "resnap", "online_new", "change", "recmark", "stop_new", "reset_new",
                     "update_active", "writable", "set_master", "finish"}
          /\ zactive \subseteq Host /\ zrecovery \subseteq Host

\* LIVENESS (C06, temporal form of "never stays pending past the attempt limit"): with a manager that keeps
\* taking steps (weak fairness of the manager's actions; MySQL-side failures, server crashes and manager crashes
\* within their budgets at any point) a PLANNED request is eventually removed - succeeded or rejected.
\* Failover-type requests are retried for as long as they cannot be served (the timeout is not part of this model).
MgrStep == \/ Start \/ RoDone \/ QuorumRecount \/ Positions \/ PositionsNoCandidate
           \/ CuOnline \/ CuStop \/ CuChange \/ CuStart \/ Catchup \/ Resnap \/ OnlineNew
           \/ RecMark \/ StopNew \/ ResetNew \/ UpdateActive \/ Writable \/ SetMaster \/ Finish
           \/ \E h \in Host : RoStep(h) \/ StopIOStep(h) \/ ChangeStep(h)
LiveSpec == Spec /\ WF_vars(MgrStep)
C06_PlannedResolved == (zswitch.cause # "none" /\ zswitch.trans # "failover") ~> (zswitch.cause = "none")

\* the model implements the control skeleton the real activations are validated against (SwitchSkel.tla)
SkelOrder == [][pc' # pc \/ pc \in {"ro", "stopio", "change"} => Edge(pc, pc')]_pc

\* C01: every promotion was backed by a frozen quorum holding nothing the promoted node lacks
C01_PromotionSafe == ~viol

\* C01: split brain among the frozen members => emergency marker (and the attempt
\* ended: no promotion can follow in it because pc went back to idle)
C01_SplitBrainMarks ==
    (pc = "catchup" \/ pc = "cu_online") => ~C01_SplitBrainAmong(frozen, [h \in Host |-> [exec |-> pos[h], recv |-> {}]])

\* consequence for C02/C07: nothing acknowledged is missing on a promoted node.
\* NOT an invariant in general: with one failed call AND one node loss the model
\* finds a loss (SetRecovery shrinks the published list - the quorum base - before
\* the promotion; a retried attempt then needs fewer frozen nodes; DESIGN.md 10).
\* A second candidate: re-pointing the chosen node to the most recent one discards
\* its relay log (E4); if the most recent node then dies, a received-but-unapplied
\* acknowledged transaction is gone (manual switchover + node loss).
\* It is checked under the single-event budget of C02/C07 (one failure OR one
\* manual request; cost0 = initial master failure + manual request).
NoAckedLossOnPromotion == \A p \in promoted : (ro[p] = "rw" /\ zmaster = p) => acked \subseteq exec[p] \cup pend[p]
FaultCount == faults + crashes + mcrashes + cost0
NoAckedLoss_SingleFault == FaultCount <= 1 => NoAckedLossOnPromotion

\* C06: a request recorded as succeeded implies the recorded master was promoted and made writable
C06_SuccessMeansDone == zlast = "ok" => zmaster \in promoted

\* C11: a host marked for recovery is not in the published list (unless it is the recorded master)
C11_MarkedNotListed == \A h \in zrecovery : h \in zactive => h = zmaster

\* C06: the attempt counter never exceeds the limit while the request is pending (planned switchovers)
C06_BoundedAttempts == (zswitch.cause # "none" /\ zswitch.trans # "failover") => zswitch.run <= MaxAttempts
=============================================================================
