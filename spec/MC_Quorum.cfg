SPECIFICATION Spec
CONSTANTS MaxN = 64
          MaxW = 64
INVARIANTS InvClauses InvAcceptSafe InvPigeonhole InvMonotone
CHECK_DEADLOCK FALSE
