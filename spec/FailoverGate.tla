----------------------------- MODULE FailoverGate ---------------------------
(***************************************************************************)
(* C05 - the gates of automatic failover                                   *)
(* (internal/app/app.go stateManager ~422-589, approveFailover ~727,       *)
(*  IssueFailover).  One record g describes what the filing manager could  *)
(* observe at the instant it created the request.                          *)
(***************************************************************************)
EXTENDS Quorum

Waived(g) == (g.crashrecovered /\ g.resetupcrashed) \/ g.fsreadonly

GatesOpen(g) ==
    /\ g.failover                                   \* enabled in the configuration
    /\ g.maintenance = "none"                       \* neither full nor light maintenance
    /\ ~g.switchexisted                             \* no other request
    /\ g.masterbad                                  \* the master's health record is bad ...
    /\ (Waived(g) \/ g.sincefirstbadms >= g.delayms) \* ... for at least the failover delay
    /\ (Waived(g) \/ ~g.allothersreplicating)       \* not "every other HA node still replicating"
    /\ (IF g.semisync THEN g.aliveinlist >= FailoverQuorum(g.listsize, g.w) ELSE g.aliveinlist >= 1)
    /\ (g.lastautoagems < 0 \/ g.lastautoagems >= g.cooldownms)
=============================================================================
