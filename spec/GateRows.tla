------------------------------- MODULE GateRows -----------------------------
(* TraceP for C05: one row per automatic failover request filed by the REAL  *)
(* manager ("filed") and one per suspicious-master activation ("susp").      *)
EXTENDS FailoverGate, Json, TLC, Sequences
Rows == ndJsonDeserialize("rows.ndjson")
VARIABLE i
Init == i \in 1..Len(Rows)
Next == UNCHANGED i
Spec == Init /\ [][Next]_i
R == Rows[i]
IsFiled == R.kind = "filed"
C05_FailoverEnabled   == IsFiled => R.failover
C05_NoMaintenance     == IsFiled => R.maintenance = "none"
C05_NoOtherRequest    == IsFiled => ~R.switchexisted
C05_MasterBadForDelay == IsFiled => (R.masterbad /\ (Waived(R) \/ R.sincefirstbadms >= R.delayms))
C05_NotAllReplicating == IsFiled => (Waived(R) \/ ~R.allothersreplicating)
C05_Quorum            == IsFiled => (IF R.semisync THEN R.aliveinlist >= FailoverQuorum(R.listsize, R.w) ELSE R.aliveinlist >= 1)
C05_Cooldown          == IsFiled => (R.lastautoagems < 0 \/ R.lastautoagems >= R.cooldownms)
C05_AllGates          == IsFiled => GatesOpen(R)
\* a manager that cannot reach the master while the master's own health record is good does nothing
C05_SuspiciousMaster  == R.kind = "susp" => (R.clusterwidecalls = 0 /\ ~R.filed)
=============================================================================
