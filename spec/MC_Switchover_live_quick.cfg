SPECIFICATION LiveSpec
CONSTANTS
  h1 = h1
  h2 = h2
  h3 = h3
  t1 = t1
  t2 = t2
  Host = {h1, h2, h3}
  Txn = {t1}
  Orig <- MCOrig
  W = 1
  MaxFaults = 1
  MaxCrash = 0
  MaxMgrCrash = 0
  MaxAttempts = 2
  M0 = h1
PROPERTIES C06_PlannedResolved
CONSTRAINT RunBound
CHECK_DEADLOCK FALSE
