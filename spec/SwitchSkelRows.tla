--------------------------- MODULE SwitchSkelRows ---------------------------
(* Every switchover activation of the REAL manager, reduced to the classes of *)
(* its successful mutating calls in order, must be a walk through the control *)
(* skeleton (SwitchSkel.tla) that Switchover.tla implements: an assignment of *)
(* the calls to labels exists that only moves forward (subset construction).  *)
EXTENDS SwitchSkel, SequencesExt, FiniteSets, Json, TLC
Rows == ndJsonDeserialize("rows.ndjson")
VARIABLE i
Init == i \in 1..Len(Rows)
Next == UNCHANGED i
Spec == Init /\ [][Next]_i
R == Rows[i]

LabelSet == {Labels[k] : k \in 1..Len(Labels)}
Succ(p) == {q \in LabelSet : <<p, q>> \in Forward /\ q # p}
RECURSIVE Reach(_)
Reach(p) == Succ(p) \cup UNION {Reach(q) : q \in Succ(p)}
ReachOf == [p \in LabelSet |-> Reach(p)]
\* labels at which the code makes several calls
Multi == {"ro", "stopio", "change", "recmark", "update_active", "finish"}
Fwd(p, r) == (p = r /\ r \in Multi) \/ r \in ReachOf[p]

\* calls that are outside the skeleton (they belong to other specifications: the optimisation registry and
\* durability settings, the timing records, the run counter of the request, the event scheduler)
Aux(c) == c \in {"aux:opt", "aux:optnodes", "aux:timing", "aux:switchrecord", "aux:events"}
Seq0 == SelectSeq(R.seq, LAMBDA c : ~Aux(c))

\* labels the walk can be at after the first k calls (a recursive FUNCTION: TLC memoises its values)
AfterAll(s) ==
    LET F[k \in 0..Len(s)] ==
            IF k = 0 THEN {"idle"}
            ELSE LET prev == F[k - 1]
                 IN {r \in LabelSet : s[k] \in Emits(r) /\ \E p \in prev : Fwd(p, r)}
    IN F[Len(s)]

IsSkel == R.kind = "skel"
Skel_Order == IsSkel => AfterAll(Seq0) # {}
=============================================================================
