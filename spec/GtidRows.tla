------------------------------ MODULE GtidRows ------------------------------
(* Binding for C13 (pairs): outputs of the REAL IsSlaveBehindOrEqual,       *)
(* IsSlaveAhead, GTIDDiff, IsSplitBrained on GTID texts rendered by an      *)
(* independent formatter; diff text parsed back by an independent parser.   *)
EXTENDS Gtid, SequencesExt, Json, TLC
Rows == ndJsonDeserialize("rows.ndjson")
VARIABLE i
Init == i \in 1..Len(Rows)
Next == UNCHANGED i
Spec == Init /\ [][Next]_i
R == Rows[i]
S == ToSet(R.s)      \* replica
M == ToSet(R.m)      \* source / master

C13_BehindIffSubset   == R.behind = BehindOrEqual(S, M)
C13_AheadIsNegation   == R.ahead = ~R.behind
C13_DiffNamesBoth     == /\ R.differr = FALSE
                         /\ ToSet(R.dsrc) = M \ S
                         /\ ToSet(R.drep) = S \ M
C13_DiffLabel         == R.dlabel = (IF M \ S = {} /\ S \ M = {} THEN "equal"
                                     ELSE IF S \ M = {} THEN "source_ahead"
                                     ELSE IF M \ S = {} THEN "replica_ahead"
                                     ELSE "split_brain")
C13_SubsetNeverSB     == MustNotSplitBrain(S, M) => \A k \in DOMAIN R.sb : ~R.sb[k][2]
C13_ForeignAlwaysSB   == \A k \in DOMAIN R.sb : MustSplitBrain(S, M, R.sb[k][1]) => R.sb[k][2]
C13_NoPanic           == R.panic = ""
=============================================================================
