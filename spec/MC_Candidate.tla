---------------------------- MODULE MC_Candidate ----------------------------
EXTENDS Candidate, TLC
Prios == {0, 1}
Lags  == {0, 1, 2, 4}
Sets  == {{}, {1}, {2}, {1, 2}}
B     == {0, 1}
PosT  == [prio : Prios, lag : Lags, set : Sets]
VARIABLES P, from, b
vars == <<P, from, b>>
Init == P = <<>> /\ from = 0 /\ b \in B
Next == /\ Len(P) < 3
        /\ \E x \in PosT : P' = Append(P, x)
        /\ from' \in 0..Len(P')
        /\ UNCHANGED b
Spec == Init /\ [][Next]_vars
res == Choose(P, from, b)
InvErrorIffEmpty   == ClauseErrorIffEmpty(P, from, res)
InvIsCandidate     == ClauseIsCandidate(P, from, res) /\ ClauseNeverFrom(from, res)
InvPriority        == ClausePriorityWithinBound(P, from, b, res)
InvEqualPrio       == ClauseEqualPrioMostRecent(P, from, b, res)
=============================================================================
