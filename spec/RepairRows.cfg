SPECIFICATION Spec
INVARIANTS C10_ReplicasReadOnly C10_ReplicasFollow C10_StaleMastersFenced C10_MasterRestored C10_MasterKeyUntouched C10_RegisteredOnly C10_NeverSelf C10_ResetGuarded
CHECK_DEADLOCK FALSE
