----------------------------- MODULE RecentRows -----------------------------
(* Binding for C13 (lists): the REAL findMostRecentNodeAndDetectSplitbrain. *)
(* row = [pos: sequence of txn lists, lags, res (1-based index, 0 = none),  *)
(*        split]                                                            *)
EXTENDS Gtid, SequencesExt, Json, TLC
Rows == ndJsonDeserialize("rows.ndjson")
VARIABLE i
Init == i \in 1..Len(Rows)
Next == UNCHANGED i
Spec == Init /\ [][Next]_i
R == Rows[i]
P == [j \in DOMAIN R.pos |-> ToSet(R.pos[j])]

C13_SplitIffNoMaximum == R.split = SplitBrain(P)
C13_ResultContainsAll == ~R.split => /\ R.res \in DOMAIN P
                                     /\ R.res \in Maxima(P)
                                     /\ ToSet(R.resset) = P[R.res]
C13_RecentNoPanic     == R.panic = ""
=============================================================================
