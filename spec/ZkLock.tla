-------------------------------- MODULE ZkLock ------------------------------
(***************************************************************************)
(* C03 (layer part) - the manager lock of internal/dcs/zk.go               *)
(* AcquireLock ~342 / ReleaseLock ~384 / handleSessionEvent ~202 at the    *)
(* granularity of ZooKeeper primitives, so that two clients and the        *)
(* session machinery interleave between the primitives as they can in      *)
(* reality.  One znode; owner = the client whose data it carries, bound    *)
(* to that client's session (ephemeral).                                   *)
(*                                                                         *)
(* Environment (E7): a session expires only while its connection is down   *)
(* and only after the client library has EMITTED the disconnect event; the *)
(* event is DELIVERED to zkDCS (cache cleared) asynchronously.             *)
(***************************************************************************)
EXTENDS Integers, FiniteSets, TLC
CONSTANTS Client, MaxDisc, MaxOps,
          AtomicStore  \* TRUE: no session event is delivered between the wire check and the cache store (excludes the S12 window)
None == "none"
VARIABLES owner,     \* who owns the lock znode (None = absent)
          conn,      \* conn[c] \in {"up","down"}
          sessLive,  \* sessLive[c]: the session that may own ephemerals is alive
          pending,   \* pending[c]: disconnect event emitted, not yet delivered to zkDCS
          cache,     \* cache[c] \in {"none","fresh","stale"}  (stale = older than the TTL)
          pc, seen,  \* per client program counter and what the wire read returned
          told,      \* told[c]: the layer's last answer to c is "you hold the lock" and still valid
          wired,     \* wired[c]: a successful create / owner check on the wire since the last delivered loss
          lossSince, \* lossSince[c]: a loss was delivered since the last wire confirmation
          disc, ops, viol

vars == <<owner, conn, sessLive, pending, cache, pc, seen, told, wired, lossSince, disc, ops, viol>>

Init == /\ owner = None /\ conn = [c \in Client |-> "up"] /\ sessLive = [c \in Client |-> TRUE]
        /\ pending = [c \in Client |-> FALSE] /\ cache = [c \in Client |-> "none"]
        /\ pc = [c \in Client |-> "idle"] /\ seen = [c \in Client |-> None]
        /\ told = [c \in Client |-> FALSE] /\ wired = [c \in Client |-> FALSE] /\ lossSince = [c \in Client |-> FALSE]
        /\ disc = 0 /\ ops = 0 /\ viol = FALSE

\* C03_NotAfterLoss: "held" is never answered from state that predates a delivered loss
Ans(c, v) == /\ told' = [told EXCEPT ![c] = v]
             /\ viol' = (viol \/ (v /\ lossSince[c] /\ ~wired[c]))

(***************************************************************************)
(* AcquireLock                                                             *)
(***************************************************************************)
AcqStart(c) == /\ pc[c] = "idle" /\ ops < MaxOps /\ ops' = ops + 1
               /\ pc' = [pc EXCEPT ![c] = "a_cache"]
               /\ UNCHANGED <<owner, conn, sessLive, pending, cache, seen, told, wired, lossSince, disc, viol>>
\* cache lookup: fresh entry answers true without touching the wire; a stale entry is dropped
AcqCache(c) == /\ pc[c] = "a_cache"
               /\ IF cache[c] = "fresh"
                  THEN /\ pc' = [pc EXCEPT ![c] = "idle"] /\ Ans(c, TRUE) /\ UNCHANGED cache
                  ELSE /\ pc' = [pc EXCEPT ![c] = "a_get"] /\ cache' = [cache EXCEPT ![c] = "none"] /\ UNCHANGED <<told, viol>>
               /\ UNCHANGED <<owner, conn, sessLive, pending, seen, wired, lossSince, disc, ops>>
\* wire read (fails when the connection is down: answer false)
AcqGet(c) == /\ pc[c] = "a_get"
             /\ IF conn[c] = "down" \/ ~sessLive[c]
                THEN /\ pc' = [pc EXCEPT ![c] = "idle"] /\ Ans(c, FALSE) /\ UNCHANGED seen
                ELSE /\ seen' = [seen EXCEPT ![c] = owner]
                     /\ pc' = [pc EXCEPT ![c] = IF owner = None THEN "a_create" ELSE "a_compare"]
                     /\ UNCHANGED <<told, viol>>
             /\ UNCHANGED <<owner, conn, sessLive, pending, cache, wired, lossSince, disc, ops>>
AcqCreate(c) == /\ pc[c] = "a_create"
                /\ IF conn[c] = "down" \/ ~sessLive[c] \/ owner # None
                   THEN /\ pc' = [pc EXCEPT ![c] = "idle"] /\ Ans(c, FALSE) /\ UNCHANGED <<owner, wired, lossSince>>
                   ELSE /\ owner' = c /\ pc' = [pc EXCEPT ![c] = "a_store"]
                        /\ wired' = [wired EXCEPT ![c] = TRUE] /\ lossSince' = [lossSince EXCEPT ![c] = FALSE]
                        /\ UNCHANGED <<told, viol>>
                /\ UNCHANGED <<conn, sessLive, pending, cache, seen, disc, ops>>
AcqCompare(c) == /\ pc[c] = "a_compare"
                 /\ IF seen[c] = c
                    THEN /\ pc' = [pc EXCEPT ![c] = "a_store"]
                         /\ wired' = [wired EXCEPT ![c] = TRUE] /\ lossSince' = [lossSince EXCEPT ![c] = FALSE]
                         /\ UNCHANGED <<told, viol>>
                    ELSE /\ pc' = [pc EXCEPT ![c] = "idle"] /\ Ans(c, FALSE) /\ UNCHANGED <<wired, lossSince>>
                 /\ UNCHANGED <<owner, conn, sessLive, pending, cache, seen, disc, ops>>
\* cache store + return true (the store is AFTER the wire check: S12)
AcqStore(c) == /\ pc[c] = "a_store"
               /\ cache' = [cache EXCEPT ![c] = "fresh"]
               /\ pc' = [pc EXCEPT ![c] = "idle"] /\ Ans(c, TRUE)
               /\ UNCHANGED <<owner, conn, sessLive, pending, seen, wired, lossSince, disc, ops>>

(***************************************************************************)
(* ReleaseLock: cache drop, wire read, owner check, versioned delete       *)
(***************************************************************************)
RelStart(c) == /\ pc[c] = "idle" /\ ops < MaxOps /\ ops' = ops + 1
               /\ cache' = [cache EXCEPT ![c] = "none"] /\ told' = [told EXCEPT ![c] = FALSE]
               /\ pc' = [pc EXCEPT ![c] = "r_get"]
               /\ UNCHANGED <<owner, conn, sessLive, pending, seen, wired, lossSince, disc, viol>>
RelGet(c) == /\ pc[c] = "r_get"
             /\ IF conn[c] = "down" \/ ~sessLive[c] \/ owner # c
                THEN pc' = [pc EXCEPT ![c] = "idle"] /\ UNCHANGED seen
                ELSE pc' = [pc EXCEPT ![c] = "r_del"] /\ seen' = [seen EXCEPT ![c] = owner]
             /\ UNCHANGED <<owner, conn, sessLive, pending, cache, told, wired, lossSince, disc, ops, viol>>
\* versioned delete: succeeds only if the znode is still the one that was read
RelDel(c) == /\ pc[c] = "r_del"
             /\ IF conn[c] = "up" /\ sessLive[c] /\ owner = c THEN owner' = None ELSE UNCHANGED owner
             /\ pc' = [pc EXCEPT ![c] = "idle"]
             /\ UNCHANGED <<conn, sessLive, pending, cache, seen, told, wired, lossSince, disc, ops, viol>>

(***************************************************************************)
(* Sessions                                                                *)
(***************************************************************************)
Disconnect(c) == /\ conn[c] = "up" /\ disc < MaxDisc /\ disc' = disc + 1
                 /\ conn' = [conn EXCEPT ![c] = "down"] /\ pending' = [pending EXCEPT ![c] = TRUE]
                 /\ UNCHANGED <<owner, sessLive, cache, pc, seen, told, wired, lossSince, ops, viol>>
\* handleSessionEvent: clear the cache; from now on earlier answers are void
Deliver(c) == /\ pending[c] /\ (~AtomicStore \/ pc[c] \notin {"a_compare", "a_store"})
              /\ pending' = [pending EXCEPT ![c] = FALSE]
              /\ cache' = [cache EXCEPT ![c] = "none"] /\ told' = [told EXCEPT ![c] = FALSE]
              /\ lossSince' = [lossSince EXCEPT ![c] = TRUE] /\ wired' = [wired EXCEPT ![c] = FALSE]
              /\ UNCHANGED <<owner, conn, sessLive, pc, seen, disc, ops, viol>>
\* E7: the expiry needs a full session timeout of silence, the delivery of the disconnect event to zkDCS is
\* immediate on that scale: a session does not expire while its disconnect event is still undelivered
Expire(c) == /\ conn[c] = "down" /\ sessLive[c] /\ ~pending[c] /\ (~AtomicStore \/ pc[c] \notin {"a_compare", "a_store"})
             /\ sessLive' = [sessLive EXCEPT ![c] = FALSE]
             /\ owner' = IF owner = c THEN None ELSE owner
             /\ UNCHANGED <<conn, pending, cache, pc, seen, told, wired, lossSince, disc, ops, viol>>
\* reconnect: same session if alive, else a new one (a new session emits events too: cache cleared on delivery)
Reconnect(c) == /\ conn[c] = "down"
                /\ conn' = [conn EXCEPT ![c] = "up"] /\ sessLive' = [sessLive EXCEPT ![c] = TRUE]
                /\ pending' = [pending EXCEPT ![c] = TRUE]
                /\ UNCHANGED <<owner, cache, pc, seen, told, wired, lossSince, disc, ops, viol>>
\* lock_held_ttl elapses (any TTL: a free action)
TTL(c) == /\ cache[c] = "fresh" /\ cache' = [cache EXCEPT ![c] = "stale"]
          /\ UNCHANGED <<owner, conn, sessLive, pending, pc, seen, told, wired, lossSince, disc, ops, viol>>

Next == \E c \in Client : AcqStart(c) \/ AcqCache(c) \/ AcqGet(c) \/ AcqCreate(c) \/ AcqCompare(c) \/ AcqStore(c)
                          \/ RelStart(c) \/ RelGet(c) \/ RelDel(c)
                          \/ Disconnect(c) \/ Deliver(c) \/ Expire(c) \/ Reconnect(c) \/ TTL(c)
Spec == Init /\ [][Next]_vars

(***************************************************************************)
(* Properties                                                              *)
(***************************************************************************)
C03_AtMostOneTold == Cardinality({c \in Client : told[c]}) <= 1
C03_NotAfterLoss == ~viol
\* a release never removes a lock owned by another process: the delete is versioned, so it can only hit the
\* znode the releasing client read as its own (RelDel's guard); the real client is checked on recorded traces
\* the known window (S12): a client is told "held" although it does not own the znode only after its
\* answer was computed from a wire check that preceded a disconnect whose event was delivered before the store
ToldImpliesOwnerOrRace == \A c \in Client : told[c] => (owner = c \/ pending[c] \/ conn[c] = "down" \/ cache[c] = "fresh")
=============================================================================
