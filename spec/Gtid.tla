-------------------------------- MODULE Gtid --------------------------------
(***************************************************************************)
(* C13 - GTID sets as plain sets of transactions.                          *)
(* A transaction is a triple <<uuid, tag, n>> (tag = "" when untagged).     *)
(* These operators are the reference semantics used by every cluster       *)
(* specification (positions, catch-up, split brain, recovery) and by the   *)
(* row validators that judge the real Go functions.                        *)
(***************************************************************************)
EXTENDS Integers, FiniteSets, Sequences

Origin(t) == t[1]

BehindOrEqual(S, M) == S \subseteq M
Ahead(S, M)         == ~BehindOrEqual(S, M)

\* must be reported split-brained: holds a foreign-origin txn the master lacks
MustSplitBrain(S, M, mu) == \E t \in S \ M : Origin(t) # mu
\* must never be reported split-brained
MustNotSplitBrain(S, M)  == S \subseteq M

\* ⊆-maxima of a family of sets given as a sequence
Maxima(P) == {j \in DOMAIN P : \A k \in DOMAIN P : P[k] \subseteq P[j]}
SplitBrain(P) == Maxima(P) = {}
\* "totally ordered by inclusion" (the stricter reading, used for reporting only)
Chain(P) == \A j, k \in DOMAIN P : P[j] \subseteq P[k] \/ P[k] \subseteq P[j]
=============================================================================
