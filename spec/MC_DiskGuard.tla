----------------------------- MODULE MC_DiskGuard ---------------------------
(* The decision table enumerated; a transcription of the code's counters     *)
(* (replicasRunning / replicasLow / replicasNormal, needRo / mayWrite) must  *)
(* agree with the table written from the statement.                          *)
EXTENDS DiskGuard, TLC
Crit == 95
NC == 90
Levels == {-1, 50, 90, 92, 95, 99}
RepT == [usage : {50, 90, 92, 95, 99}, running : BOOLEAN]
VARIABLES mu, reps, wsc
vars == <<mu, reps, wsc>>
Init == mu \in Levels /\ wsc \in 1..2 /\ reps \in UNION {[1..k -> RepT] : k \in 0..3}
Next == UNCHANGED vars
Spec == Init /\ [][Next]_vars
\* transcription
cRunning == Cardinality(Running(reps))
cLow == Cardinality({k \in Running(reps) : reps[k].usage >= Crit})
cNormal == Cardinality({k \in Running(reps) : ~(reps[k].usage >= Crit) /\ ~(reps[k].usage > NC)})
CodeNeed == (mu >= 0 /\ mu >= Crit) \/ (cRunning > 0 /\ cLow > cRunning - wsc)
CodeMay == ~(mu >= 0 /\ ~(mu >= Crit) /\ mu > NC) /\ ~(cRunning > 0 /\ ~(cLow > cRunning - wsc) /\ cNormal = 0)
InvNeed == CodeNeed = NeedRO(mu, reps, wsc, Crit)
InvMay == ~CodeNeed => (CodeMay = MayWrite(mu, reps, NC))
=============================================================================
