SPECIFICATION Spec
INVARIANTS C13_BehindIffSubset C13_AheadIsNegation C13_DiffNamesBoth C13_DiffLabel C13_SubsetNeverSB C13_ForeignAlwaysSB C13_NoPanic
CHECK_DEADLOCK FALSE
