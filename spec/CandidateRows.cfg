SPECIFICATION Spec
INVARIANTS C14_Terminates C14_ErrorIffEmpty C14_IsCandidate C14_NeverFrom C14_PriorityWithinBound C14_EqualPrioMostRecent Conf_MatchesSpec
CHECK_DEADLOCK FALSE
