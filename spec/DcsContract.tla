----------------------------- MODULE DcsContract ----------------------------
(***************************************************************************)
(* C15 - the sequential contract of mysync's coordination layer            *)
(* (internal/dcs/dcs.go interface as implemented by zk.go): what each      *)
(* completed operation must return and do, as a function of the tree.      *)
(* Keys are normalised (redundant slashes do not matter).                  *)
(***************************************************************************)
EXTENDS Integers, Sequences, FiniteSets
CONSTANTS Key, Parent   \* Parent[k] \in Key \cup {"root"}
Absent == [val |-> "absent", eph |-> "none"]
Present(t, k) == t[k].val # "absent"
ParentOK(t, k) == Parent[k] = "root" \/ Present(t, Parent[k])
ParentEph(t, k) == Parent[k] # "root" /\ Present(t, Parent[k]) /\ t[Parent[k]].eph # "none"
Kids(t, k) == {c \in Key : Parent[c] = k /\ Present(t, c)}

\* with all missing ancestors created as plain empty nodes (key space of depth <= 3)
Empty == [val |-> "empty", eph |-> "none"]
WithParents(t, k) ==
    LET p1 == Parent[k] IN
    IF p1 = "root" THEN t
    ELSE LET p2 == Parent[p1]
             t1 == IF p2 # "root" /\ ~Present(t, p2) THEN [t EXCEPT ![p2] = Empty] ELSE t
         IN IF ~Present(t1, p1) THEN [t1 EXCEPT ![p1] = Empty] ELSE t1
\* nearest existing ancestor is ephemeral: nothing can be created below it
AncEph(t, k) ==
    LET p1 == Parent[k] IN
    IF p1 = "root" THEN FALSE
    ELSE IF Present(t, p1) THEN t[p1].eph # "none"
    ELSE LET p2 == Parent[p1] IN p2 # "root" /\ Present(t, p2) /\ t[p2].eph # "none"

\* result and next tree of one operation e = [op, client, key, val]
Res(t, e) ==
  CASE e.op = "Create" \/ e.op = "CreateEphemeral" ->
         IF Present(t, e.key) THEN "exists"
         ELSE IF ~ParentOK(t, e.key) \/ ParentEph(t, e.key) THEN "err" ELSE "ok"
    [] e.op = "Set" -> IF ~Present(t, e.key) /\ AncEph(t, e.key) THEN "err" ELSE "ok"
    [] e.op = "SetEphemeral" ->
         \* on an existing plain key the code refuses; the property only demands that the key
         \* stays plain (checked on the snapshot), so a plain overwrite is allowed as well
         IF Present(t, e.key) THEN (IF t[e.key].eph = "none" THEN (IF e.res = "ok" THEN "ok" ELSE "err") ELSE "ok")
         ELSE IF AncEph(t, e.key) THEN "err" ELSE "ok"
    [] e.op = "Get" -> IF ~Present(t, e.key) THEN "notfound"
                       ELSE IF t[e.key].val \in {"bad", "empty"} THEN "malformed" ELSE "ok"
    [] e.op = "Delete" -> IF Present(t, e.key) /\ Kids(t, e.key) # {} THEN "err" ELSE "ok"
    [] e.op = "Children" -> IF Present(t, e.key) THEN "ok" ELSE "notfound"
    [] OTHER -> "ok"

Step(t, e) ==
  CASE e.op = "Create" /\ Res(t, e) = "ok" -> [t EXCEPT ![e.key] = [val |-> e.val, eph |-> "none"]]
    [] e.op = "CreateEphemeral" /\ Res(t, e) = "ok" -> [t EXCEPT ![e.key] = [val |-> e.val, eph |-> e.client]]
    [] e.op = "Set" /\ Res(t, e) = "ok" ->
         IF Present(t, e.key) THEN [t EXCEPT ![e.key].val = e.val]
         ELSE [WithParents(t, e.key) EXCEPT ![e.key] = [val |-> e.val, eph |-> "none"]]
    [] e.op = "Set" /\ Res(t, e) = "err" -> t
    [] e.op = "SetEphemeral" /\ Res(t, e) = "ok" ->
         IF Present(t, e.key) THEN [t EXCEPT ![e.key].val = e.val]
         ELSE [WithParents(t, e.key) EXCEPT ![e.key] = [val |-> e.val, eph |-> e.client]]
    [] e.op = "Delete" /\ Res(t, e) = "ok" -> [t EXCEPT ![e.key] = Absent]
    [] e.op = "Expire" -> [k \in Key |-> IF t[k].eph = e.client THEN Absent ELSE t[k]]
    [] e.op = "ToolBad" -> IF Present(t, e.key) THEN [t EXCEPT ![e.key].val = "bad"]
                           ELSE [WithParents(t, e.key) EXCEPT ![e.key] = [val |-> "bad", eph |-> "none"]]
    [] OTHER -> t
\* value returned by a successful Get / children listed
GetVal(t, e) == t[e.key].val
KidNames(t, e) == Kids(t, e.key)
=============================================================================
