------------------------------ MODULE IterRows ------------------------------
(* TraceP for C04: one row per manager activation (ground truth at entry and *)
(* at exit / cut) and one per write of active_nodes, from the REAL code.     *)
EXTENDS ClusterProps, SequencesExt, Json, TLC
Rows == ndJsonDeserialize("rows.ndjson")
VARIABLE i
Init == i \in 1..Len(Rows)
Next == UNCHANGED i
Spec == Init /\ [][Next]_i
R == Rows[i]
IsIter == R.kind = "iter"
IsList == R.kind = "listwrite"
Conv(hs) == [h \in DOMAIN hs |-> [reach |-> hs[h].reach, up |-> hs[h].up, ro |-> hs[h].ro, sss |-> hs[h].sss, ssm |-> hs[h].ssm,
                                  wsc |-> hs[h].wsc, src |-> hs[h].src, exec |-> ToSet(hs[h].exec), datalag |-> hs[h].datalag]]
HA == ToSet(R.ha)
AB0 == C04_AB(Conv(R.entry), HA, R.master, ToSet(R.active0), R.w)
AB1 == C04_AB(Conv(R.exit),  HA, R.master, ToSet(R.active1), R.w)
MasterHealthy(H) == R.master \in DOMAIN H /\ H[R.master].up /\ H[R.master].reach /\ H[R.master].ro = "rw"

\* every iteration that completes with the master healthy and writable leaves (a) and (b)
C04_CompletedIteration ==
    (IsIter /\ R.completed /\ ~R.blocked /\ R.master # "" /\ MasterHealthy(Conv(R.exit)) /\ MasterHealthy(Conv(R.entry))) => AB1
\* no iteration - completed, cut by a crash, or with a failed call - destroys (a)&(b)
C04_NoIterationDestroys ==
    (IsIter /\ ~R.blocked /\ R.master # "" /\ AB0) => AB1

LH == Conv(R.hosts)
Val == ToSet(R.value)
\* membership of every value written by the update
C04_NoCascadeListed   == IsList => Val \cap ToSet(R.cascade) = {}
C04_NoMarkedListed    == IsList => \A r \in Val \cap ToSet(R.recovery) : r = R.master
C04_NoDivergedListed  == IsList /\ R.master \in DOMAIN LH =>
                           \A r \in (Val \cap DOMAIN LH) \ {R.master} : LH[r].reach => ~R.diverged[r]
C04_NoLongBrokenListed == IsList => \A r \in (Val \cap DOMAIN R.notreplms) \ {R.master} : R.notreplms[r] <= R.inactms + 2000
C04_NoDataLagJoiner   == IsList => \A r \in (Val \cap DOMAIN LH) \ (ToSet(R.old) \cup {R.master}) :
                                      (LH[r].reach /\ ~LH[r].sss) => LH[r].datalag <= R.enablelag
\* the instant a host is marked for recovery it is out of the published list already (the list is shrunk FIRST, so that
\* no call boundary - and no crash or failed write between the two - leaves a marked host listed)
C04_NotListedWhenMarked == R.kind = "markwrite" => (R.host = R.master \/ R.host \notin ToSet(R.active))
\* members are evicted only while the manager can reach the master
C04_EvictOnlyWithMaster == IsList /\ (ToSet(R.old) \ Val) # {} /\ R.master \in DOMAIN LH => LH[R.master].reach
=============================================================================
